//! Engine `json` (C15) — `ProcessState` values are constructed directly from a *recipe* (the case
//! line), `print_json` is run on them, and
//!   * the compact bytes are compared with the Lean model `printJson` applied to the abstraction
//!     `alpha(&ProcessState)` (what `print_json` reads: public fields + unmodelled leaf renderers),
//!   * the real bytes go through the Lean parser and `Conforms` (schema predicate), the pretty
//!     output must parse (in Lean) to the same value,
//!   * the property's oracle is evaluated on the implementation's output alone (serde_json).
//!
//! case:   `json <recipe token tree>`
//! model:  `json <alpha token tree> [ck <hex compact> <hex pretty>]`
use crate::common::*;
use minidump::system_info::{Cpu, Os};
use minidump::*;
use minidump_common::format as md;
use minidump_processor::{
    Address, AdjustedAddress, BitFlipDetails, CrashInconsistency, ExceptionInfo, Limit,
    LinuxProcLimit, LinuxProcLimits, LinuxStandardBase, PossibleBitFlip, ProcessState,
};
use minidump_unwind::{
    CallStack, CallStackInfo, FrameTrust, InlineFrame, StackFrame, SymbolStats, SystemInfo,
};
use scroll::ctx::SizeWith;
use scroll::{Pread, Pwrite};
use serde_json::Value;
use std::cell::RefCell;
use std::collections::{BTreeMap, BTreeSet, HashMap, HashSet};
use std::sync::OnceLock;

pub struct Json;

// ------------------------------------------------------------------------------------ token trees

#[derive(Clone, Debug, PartialEq)]
pub enum Sx {
    A(String),
    L(Vec<Sx>),
}
use Sx::{A, L};

impl Sx {
    pub(crate) fn write(&self, out: &mut String) {
        match self {
            A(a) => out.push_str(a),
            L(xs) => {
                out.push('(');
                for x in xs {
                    out.push(' ');
                    x.write(out);
                }
                out.push_str(" )");
            }
        }
    }
    fn parse_seq(toks: &[&str], pos: &mut usize, top: bool) -> Option<Vec<Sx>> {
        let mut v = Vec::new();
        while *pos < toks.len() {
            let t = toks[*pos];
            *pos += 1;
            if t == "(" {
                v.push(L(Sx::parse_seq(toks, pos, false)?));
            } else if t == ")" {
                return if top { None } else { Some(v) };
            } else {
                v.push(A(t.to_string()));
            }
        }
        if top {
            Some(v)
        } else {
            None
        }
    }
    pub(crate) fn as_list(&self) -> Option<&[Sx]> {
        match self {
            L(v) => Some(v),
            _ => None,
        }
    }
    pub(crate) fn atom(&self) -> Option<&str> {
        match self {
            A(a) => Some(a),
            _ => None,
        }
    }
    pub(crate) fn is_none(&self) -> bool {
        matches!(self, A(a) if a == "-")
    }
    pub(crate) fn nat(&self) -> Option<u64> {
        self.atom()?.strip_prefix('n')?.parse().ok()
    }
    pub(crate) fn string(&self) -> Option<String> {
        let h = self.atom()?.strip_prefix('s')?;
        if h.is_empty() {
            return Some(String::new());
        }
        String::from_utf8(unhex(h)?).ok()
    }
    /// raw bytes (`b<hex>`), may be invalid UTF-8
    pub(crate) fn bytes(&self) -> Option<Vec<u8>> {
        let h = self.atom()?.strip_prefix('b')?;
        if h.is_empty() {
            return Some(vec![]);
        }
        unhex(h)
    }
    pub(crate) fn boolean(&self) -> Option<bool> {
        match self.atom()? {
            "t" => Some(true),
            "f" => Some(false),
            _ => None,
        }
    }
    pub(crate) fn opt<T>(&self, f: impl Fn(&Sx) -> Option<T>) -> Option<Option<T>> {
        if self.is_none() {
            Some(None)
        } else {
            f(self).map(Some)
        }
    }
    pub(crate) fn list<T>(&self, f: impl Fn(&Sx) -> Option<T>) -> Option<Vec<T>> {
        self.as_list()?.iter().map(f).collect()
    }
}

pub(crate) fn sx_line(items: &[Sx]) -> String {
    let mut s = String::new();
    for (i, x) in items.iter().enumerate() {
        if i > 0 {
            s.push(' ');
        }
        x.write(&mut s);
    }
    s
}
pub(crate) fn sx_parse(line: &str) -> Option<Vec<Sx>> {
    let toks: Vec<&str> = line.split(' ').filter(|t| !t.is_empty()).collect();
    let mut pos = 0;
    Sx::parse_seq(&toks, &mut pos, true)
}

pub(crate) fn n(v: u64) -> Sx {
    A(format!("n{v}"))
}
pub(crate) fn s(v: &str) -> Sx {
    A(format!("s{}", if v.is_empty() { String::new() } else { hex(v.as_bytes()) }))
}
pub(crate) fn bts(v: &[u8]) -> Sx {
    A(format!("b{}", if v.is_empty() { String::new() } else { hex(v) }))
}
pub(crate) fn b(v: bool) -> Sx {
    A(if v { "t" } else { "f" }.to_string())
}
pub(crate) fn none() -> Sx {
    A("-".to_string())
}
pub(crate) fn tag(t: &str) -> Sx {
    A(t.to_string())
}
pub(crate) fn o<T>(v: Option<T>, f: impl Fn(T) -> Sx) -> Sx {
    match v {
        Some(x) => f(x),
        None => none(),
    }
}
pub(crate) fn os_(v: Option<&str>) -> Sx {
    o(v, s)
}
pub(crate) fn on(v: Option<u64>) -> Sx {
    o(v, n)
}

// ------------------------------------------------------------------- recipe -> ProcessState

fn leak(s: String) -> &'static str {
    Box::leak(s.into_boxed_str())
}

fn mk_reason(x: &Sx) -> Option<CrashReason> {
    use minidump_common::errors as err;
    let l = x.as_list()?;
    if l.len() != 4 || l[0].atom()? != "r" {
        return None;
    }
    let (idx, a, bb) = (l[1].nat()?, l[2].nat()?, l[3].nat()?);
    Some(match idx {
        0 => CrashReason::Unknown(a as u32, bb as u32),
        1 => CrashReason::WindowsUnknown(a as u32),
        2 => CrashReason::WindowsStackBufferOverrun(a),
        3 => CrashReason::LinuxGeneral(err::ExceptionCodeLinux::SIGILL, a as u32),
        4 => CrashReason::WindowsGeneral(err::ExceptionCodeWindows::EXCEPTION_ACCESS_VIOLATION),
        5 => CrashReason::MacGeneral(err::ExceptionCodeMac::EXC_BAD_ACCESS, a as u32),
        6 => CrashReason::WindowsAccessViolation(err::ExceptionCodeWindowsAccessType::READ),
        7 => CrashReason::LinuxSigsegv(err::ExceptionCodeLinuxSigsegvKind::SEGV_MAPERR),
        8 => CrashReason::MacResource(err::ExceptionCodeMacResourceType::RESOURCE_TYPE_MEMORY, a, bb),
        _ => return None,
    })
}

pub(crate) const CTX_KINDS: [&str; 9] = ["x86", "amd64", "arm", "arm64", "oldarm64", "mips", "ppc", "ppc64", "sparc"];

fn mk_ctx(x: &Sx) -> Option<MinidumpContext> {
    let l = x.as_list()?;
    if l.len() != 3 {
        return None;
    }
    let kind = l[0].atom()?;
    let seed = l[1].nat()?;
    let mut rng = Rng(seed);
    let mut buf = vec![0u8; 8192];
    for c in buf.chunks_mut(8) {
        let v = match rng.below(4) {
            0 => 0u64,
            1 => rng.below(0x1_0000),
            _ => rng.next(),
        };
        c.copy_from_slice(&v.to_le_bytes());
    }
    let le = scroll::LE;
    let raw = match kind {
        "x86" => MinidumpRawContext::X86(buf.pread_with(0, le).ok()?),
        "amd64" => MinidumpRawContext::Amd64(buf.pread_with(0, le).ok()?),
        "arm" => MinidumpRawContext::Arm(buf.pread_with(0, le).ok()?),
        "arm64" => MinidumpRawContext::Arm64(buf.pread_with(0, le).ok()?),
        "oldarm64" => MinidumpRawContext::OldArm64(buf.pread_with(0, le).ok()?),
        "mips" => MinidumpRawContext::Mips(buf.pread_with(0, le).ok()?),
        "ppc" => MinidumpRawContext::Ppc(buf.pread_with(0, le).ok()?),
        "ppc64" => MinidumpRawContext::Ppc64(buf.pread_with(0, le).ok()?),
        "sparc" => MinidumpRawContext::Sparc(buf.pread_with(0, le).ok()?),
        _ => return None,
    };
    let valid = if l[2].is_none() {
        MinidumpContextValidity::All
    } else {
        let names = l[2].list(|x| x.string())?;
        let mut set: HashSet<&'static str> = HashSet::new();
        for nm in names {
            set.insert(leak(nm));
        }
        MinidumpContextValidity::Some(set)
    };
    Some(MinidumpContext { raw, valid })
}

fn mk_trust(t: &str) -> Option<FrameTrust> {
    Some(match t {
        "none" => FrameTrust::None,
        "scan" => FrameTrust::Scan,
        "cfi_scan" => FrameTrust::CfiScan,
        "frame_pointer" => FrameTrust::FramePointer,
        "cfi" => FrameTrust::CallFrameInfo,
        "prewalked" => FrameTrust::PreWalked,
        "context" => FrameTrust::Context,
        _ => return None,
    })
}

fn mk_frame(x: &Sx) -> Option<StackFrame> {
    let l = x.as_list()?;
    if l.len() != 10 {
        return None;
    }
    let ctx = mk_ctx(&l[9])?;
    let mut f = StackFrame::from_context(ctx, mk_trust(l[8].atom()?)?);
    f.instruction = l[0].nat()?;
    f.resume_address = f.instruction.wrapping_add(1);
    f.module = l[1].opt(|m| {
        let m = m.as_list()?;
        Some(MinidumpModule::new(m.get(1)?.nat()?, 0x1000, &m.first()?.string()?))
    })?;
    let mut unl: BTreeMap<String, BTreeSet<u64>> = BTreeMap::new();
    for u in l[2].as_list()? {
        let u = u.as_list()?;
        let offs: BTreeSet<u64> = u.get(1)?.list(|x| x.nat())?.into_iter().collect();
        unl.insert(u.first()?.string()?, offs);
    }
    f.unloaded_modules = unl;
    f.function_name = l[3].opt(|x| x.string())?;
    f.function_base = l[4].opt(|x| x.nat())?;
    f.parameter_size = f.function_base.map(|_| 0);
    f.source_file_name = l[5].opt(|x| x.string())?;
    f.source_line = l[6].opt(|x| x.nat())?.map(|v| v as u32);
    f.source_line_base = f.source_line.map(|_| f.instruction);
    f.inlines = l[7].list(|i| {
        let i = i.as_list()?;
        Some(InlineFrame {
            function_name: i.first()?.string()?,
            source_file_name: i.get(1)?.opt(|x| x.string())?,
            source_line: i.get(2)?.opt(|x| x.nat())?.map(|v| v as u32),
        })
    })?;
    Some(f)
}

fn mk_thread(x: &Sx) -> Option<CallStack> {
    let l = x.as_list()?;
    if l.len() != 4 && l.len() != 5 {
        return None;
    }
    // optional 5th item: how the stack walk ended (not printed by print_json, but a `print_json`
    // that looked at it — e.g. skipping the dump-writing thread when indexing — must be noticed)
    let info = match l.get(4).map(|x| x.atom()) {
        None | Some(Some("ok")) => CallStackInfo::Ok,
        Some(Some("missing_context")) => CallStackInfo::MissingContext,
        Some(Some("missing_memory")) => CallStackInfo::MissingMemory,
        Some(Some("unsupported_cpu")) => CallStackInfo::UnsupportedCpu,
        Some(Some("dump_thread_skipped")) => CallStackInfo::DumpThreadSkipped,
        _ => return None,
    };
    Some(CallStack {
        frames: l[0].list(mk_frame)?,
        info,
        thread_id: l[1].nat()? as u32,
        thread_name: l[2].opt(|x| x.string())?,
        last_error_value: l[3].opt(mk_reason)?,
    })
}

fn mk_os(x: &Sx) -> Option<Os> {
    if let Some(l) = x.as_list() {
        if l.len() == 2 && l[0].atom()? == "unknown" {
            return Some(Os::Unknown(l[1].nat()? as u32));
        }
        return None;
    }
    Some(match x.atom()? {
        "windows" => Os::Windows,
        "macos" => Os::MacOs,
        "ios" => Os::Ios,
        "linux" => Os::Linux,
        "solaris" => Os::Solaris,
        "android" => Os::Android,
        "ps3" => Os::Ps3,
        "nacl" => Os::NaCl,
        _ => return None,
    })
}
fn mk_cpu(t: &str) -> Option<Cpu> {
    Some(match t {
        "x86" => Cpu::X86,
        "amd64" => Cpu::X86_64,
        "ppc" => Cpu::Ppc,
        "ppc64" => Cpu::Ppc64,
        "sparc" => Cpu::Sparc,
        "arm" => Cpu::Arm,
        "arm64" => Cpu::Arm64,
        "mips" => Cpu::Mips,
        "mips64" => Cpu::Mips64,
        "unknown" => Cpu::Unknown(0x1234),
        _ => return None,
    })
}

fn guid16(x: &Sx) -> Option<[u8; 16]> {
    let v = x.bytes()?;
    v.try_into().ok()
}

fn mk_module(x: &Sx) -> Option<MinidumpModule> {
    let l = x.as_list()?;
    if l.len() != 13 {
        return None;
    }
    let name = l[2].string()?;
    let mut bytes: Vec<u8> = Vec::new();
    let u16s: Vec<u16> = name.encode_utf16().collect();
    bytes.extend_from_slice(&((u16s.len() * 2) as u32).to_le_bytes());
    for u in &u16s {
        bytes.extend_from_slice(&u.to_le_bytes());
    }
    let mut raw = md::MINIDUMP_MODULE {
        base_of_image: l[0].nat()?,
        size_of_image: l[1].nat()? as u32,
        time_date_stamp: l[7].nat()? as u32,
        module_name_rva: 0,
        ..Default::default()
    };
    let cv_start = bytes.len();
    match l[3].atom()? {
        "none" => {}
        "pdb70" => {
            bytes.extend_from_slice(&0x53445352u32.to_le_bytes());
            bytes.extend_from_slice(&guid16(&l[5])?);
            bytes.extend_from_slice(&(l[6].nat()? as u32).to_le_bytes());
            bytes.extend_from_slice(&l[4].bytes()?);
            bytes.push(0);
        }
        "elf" => {
            bytes.extend_from_slice(&0x4270454cu32.to_le_bytes());
            bytes.extend_from_slice(&l[5].bytes()?);
        }
        _ => return None,
    }
    if bytes.len() > cv_start {
        raw.cv_record = md::MINIDUMP_LOCATION_DESCRIPTOR {
            data_size: (bytes.len() - cv_start) as u32,
            rva: cv_start as u32,
        };
    }
    if l[8].boolean()? {
        raw.version_info.signature = md::VS_FFI_SIGNATURE;
        raw.version_info.struct_version = md::VS_FFI_STRUCVERSION;
        raw.version_info.file_version_hi = l[9].nat()? as u32;
        raw.version_info.file_version_lo = l[10].nat()? as u32;
        raw.version_info.product_version_hi = l[11].nat()? as u32;
        raw.version_info.product_version_lo = l[12].nat()? as u32;
    }
    MinidumpModule::read(raw, &bytes, scroll::LE, None).ok()
}

fn mk_limit(x: &Sx) -> Option<Limit> {
    if let Some(v) = x.nat() {
        return Some(Limit::Limited(v));
    }
    Some(match x.atom()? {
        "err" => Limit::Error,
        "unlimited" => Limit::Unlimited,
        _ => return None,
    })
}

fn mk_mac(x: &Sx) -> Option<RawMacCrashInfo> {
    let l = x.as_list()?;
    if l.len() != 9 {
        return None;
    }
    let (ver, thread, dialog_mode, abort_cause) = (l[0].nat()?, l[1].nat()?, l[2].nat()?, l[3].nat()?);
    let st: Vec<String> = l[4..9].iter().map(|x| x.string()).collect::<Option<_>>()?;
    Some(match ver {
        1 => RawMacCrashInfo::V1(
            md::MINIDUMP_MAC_CRASH_INFO_RECORD { stream_type: 0, version: 1 },
            md::MINIDUMP_MAC_CRASH_INFO_RECORD_STRINGS {},
        ),
        4 => RawMacCrashInfo::V4(
            md::MINIDUMP_MAC_CRASH_INFO_RECORD_4 { stream_type: 0, version: 4, thread, dialog_mode },
            md::MINIDUMP_MAC_CRASH_INFO_RECORD_STRINGS_4 {
                module_path: st[0].clone(),
                message: st[1].clone(),
                signature_string: st[2].clone(),
                backtrace: st[3].clone(),
                message2: st[4].clone(),
            },
        ),
        5 => RawMacCrashInfo::V5(
            md::MINIDUMP_MAC_CRASH_INFO_RECORD_5 { stream_type: 0, version: 5, thread, dialog_mode, abort_cause },
            md::MINIDUMP_MAC_CRASH_INFO_RECORD_STRINGS_5 {
                module_path: st[0].clone(),
                message: st[1].clone(),
                signature_string: st[2].clone(),
                backtrace: st[3].clone(),
                message2: st[4].clone(),
            },
        ),
        _ => return None,
    })
}

fn mk_handle(x: &Sx) -> Option<MinidumpHandleDescriptor> {
    let l = x.as_list()?;
    if l.len() != 4 {
        return None;
    }
    let handle = l[1].nat()?;
    let raw = match l[0].nat()? {
        1 => RawHandleDescriptor::HandleDescriptor(md::MINIDUMP_HANDLE_DESCRIPTOR {
            handle,
            type_name_rva: 0,
            object_name_rva: 0,
            attributes: 0,
            granted_access: 0,
            handle_count: 1,
            pointer_count: 1,
        }),
        2 => {
            let mut bytes = vec![0u8; 64];
            bytes[..8].copy_from_slice(&handle.to_le_bytes());
            RawHandleDescriptor::HandleDescriptor2(bytes.pread_with(0, scroll::LE).ok()?)
        }
        _ => return None,
    };
    Some(MinidumpHandleDescriptor {
        raw,
        type_name: l[2].opt(|x| x.string())?,
        object_name: l[3].opt(|x| x.string())?,
        object_infos: vec![],
    })
}

fn mk_incons(t: &str) -> Option<CrashInconsistency> {
    Some(match t {
        "intdiv" => CrashInconsistency::IntDivByZeroNotPossible,
        "priv" => CrashInconsistency::PrivInstructionCrashWithoutPrivInstruction,
        "noncanon" => CrashInconsistency::NonCanonicalAddressFalselyReported,
        "accessallowed" => CrashInconsistency::AccessViolationWhenAccessAllowed,
        "notfound" => CrashInconsistency::CrashingAccessNotFoundInMemoryAccesses,
        _ => return None,
    })
}

fn mk_exc(x: &Sx) -> Option<ExceptionInfo> {
    let l = x.as_list()?;
    if l.len() != 7 && l.len() != 8 {
        return None;
    }
    let adjusted_address = l[2].opt(|a| {
        let a = a.as_list()?;
        let v = a.get(1)?.nat()?;
        Some(match a.first()?.atom()? {
            "noncanonical" => AdjustedAddress::NonCanonical(Address(v)),
            "nulloffset" => AdjustedAddress::NullPointerWithOffset(Address(v)),
            _ => return None,
        })
    })?;
    let possible_bit_flips = l[5].list(|f| {
        let f = f.as_list()?;
        if f.len() != 8 {
            return None;
        }
        Some(PossibleBitFlip {
            address: Address(f[0].nat()?),
            source_register: f[1].opt(|x| x.string())?.map(leak),
            details: BitFlipDetails {
                was_non_canonical: f[2].boolean()?,
                is_null: f[3].boolean()?,
                was_low: f[4].boolean()?,
                nearby_registers: f[5].nat()? as u32,
                poison_registers: f[6].boolean()?,
            },
            confidence: f[7].opt(|x| x.nat())?.map(|bits| f32::from_bits(bits as u32)),
        })
    })?;
    let mut info = ExceptionInfo {
        reason: mk_reason(&l[0])?,
        address: Address(l[1].nat()?),
        adjusted_address,
        instruction_str: l[3].opt(|x| x.string())?,
        instruction_properties: None,
        memory_access_list: None,
        instruction_pointer_update: None,
        possible_bit_flips,
        inconsistencies: l[6].list(|x| mk_incons(x.atom()?))?,
    };
    // l[4]: `-` | ( ( n<addr> n<size>|- t|f read|write|readwrite|underivable ) … ): the types of
    // `memory_access_list` live in a private module and cannot be named, but their fields are
    // public: the list is a clone of one the processor produced (see `templates`), its elements
    // are copies whose public fields are overwritten
    if !l[4].is_none() {
        let t = templates()?;
        let mut list = t.read.memory_access_list.clone();
        let lm = list.as_mut()?;
        let proto = *lm.accesses.first()?;
        lm.accesses.clear();
        for a in l[4].as_list()? {
            let a = a.as_list()?;
            if a.len() != 4 {
                return None;
            }
            let mut m = proto;
            m.address_info.address = a[0].nat()?;
            m.address_info.is_likely_null_pointer_dereference = m.address_info.address == 0;
            m.address_info.is_likely_guard_page = a[2].boolean()?;
            m.size = a[1].opt(|x| x.nat())?.map(|v| v as u8);
            let src = match a[3].atom()? {
                "read" => &t.read,
                "write" => &t.write,
                "readwrite" => &t.readwrite,
                "underivable" => &t.underivable,
                _ => return None,
            };
            m.access_type = src.memory_access_list.as_ref()?.accesses.first()?.access_type;
            lm.accesses.push(m);
        }
        info.memory_access_list = list;
    }
    // l[7] (optional): `-` | noupdate | ( update n<addr> ): harvested from the processor
    // (`call rax` with rax = addr); `is_likely_guard_page` is never set for it by any code
    if let Some(u) = l.get(7) {
        if !u.is_none() {
            if u.atom() == Some("noupdate") {
                info.instruction_pointer_update = templates()?.read.instruction_pointer_update;
            } else {
                let ul = u.as_list()?;
                if ul.len() != 2 || ul[0].atom()? != "update" {
                    return None;
                }
                info.instruction_pointer_update = ip_update_template(ul[1].nat()?)?.instruction_pointer_update;
            }
        }
    }
    Some(info)
}

pub(crate) fn build(items: &[Sx]) -> Option<ProcessState> {
    if items.len() != 17 {
        return None;
    }
    let mut cert_info = HashMap::new();
    for p in items[1].as_list()? {
        let p = p.as_list()?;
        cert_info.insert(p.first()?.string()?, p.get(1)?.string()?);
    }
    let sys = items[6].as_list()?;
    if sys.len() != 7 {
        return None;
    }
    let system_info = SystemInfo {
        os: mk_os(&sys[0])?,
        os_version: sys[1].opt(|x| x.string())?,
        os_build: sys[2].opt(|x| x.string())?,
        cpu: mk_cpu(sys[3].atom()?)?,
        cpu_info: sys[4].opt(|x| x.string())?,
        cpu_count: sys[5].nat()? as usize,
        cpu_microcode_version: sys[6].opt(|x| x.nat())?,
    };
    let linux_standard_base = items[7].opt(|l| {
        let l = l.as_list()?;
        Some(LinuxStandardBase {
            id: l.first()?.string()?,
            release: l.get(1)?.string()?,
            codename: l.get(2)?.string()?,
            description: l.get(3)?.string()?,
        })
    })?;
    let linux_proc_limits = items[8].opt(|l| {
        let mut limits = HashMap::new();
        for e in l.as_list()? {
            let e = e.as_list()?;
            limits.insert(
                e.first()?.string()?,
                LinuxProcLimit { soft: mk_limit(e.get(1)?)?, hard: mk_limit(e.get(2)?)?, unit: e.get(3)?.string()? },
            );
        }
        Some(LinuxProcLimits { limits })
    })?;
    let mac_crash_info = items[9].opt(|l| l.list(mk_mac))?;
    let mac_boot_args = items[10].opt(|l| {
        let l = l.as_list()?;
        Some(MinidumpMacBootargs {
            raw: md::MINIDUMP_MAC_BOOTARGS { stream_type: 0, bootargs: 0 },
            bootargs: l.first()?.opt(|x| x.string())?,
        })
    })?;
    let modules = MinidumpModuleList::from_modules(items[11].list(mk_module)?);
    let unloaded_modules = MinidumpUnloadedModuleList::from_modules(items[12].list(|u| {
        let u = u.as_list()?;
        let mut m = MinidumpUnloadedModule::new(u.first()?.nat()?, u.get(1)?.nat()? as u32, &u.get(2)?.string()?);
        m.raw.time_date_stamp = u.get(3)?.nat()? as u32;
        Some(m)
    })?);
    let handles = items[13].opt(|l| Some(MinidumpHandleDataStream { handles: l.list(mk_handle)? }))?;
    let mut symbol_stats = HashMap::new();
    for e in items[14].as_list()? {
        let e = e.as_list()?;
        if e.len() != 5 {
            return None;
        }
        let extra = e[4].opt(|x| {
            let x = x.as_list()?;
            Some(breakpad_symbols::DebugInfoResult {
                debug_file: x.first()?.string()?,
                debug_identifier: debugid::DebugId::from_guid_age(&guid16(x.get(1)?)?, x.get(2)?.nat()? as u32).ok()?,
            })
        })?;
        symbol_stats.insert(
            e[0].string()?,
            SymbolStats {
                symbol_url: e[1].opt(|x| x.string())?,
                loaded_symbols: e[2].boolean()?,
                corrupt_symbols: e[3].boolean()?,
                extra_debug_info: extra,
            },
        );
    }
    let soft_errors = items[16].opt(|x| {
        let h = x.atom()?.strip_prefix('j')?;
        serde_json::from_slice::<Value>(&unhex(h)?).ok()
    })?;
    Some(ProcessState {
        process_id: items[0].opt(|x| x.nat())?.map(|v| v as u32),
        time: std::time::SystemTime::UNIX_EPOCH,
        process_create_time: None,
        cert_info,
        exception_info: items[2].opt(mk_exc)?,
        assertion: items[3].opt(|x| x.string())?,
        requesting_thread: items[4].opt(|x| x.nat())?.map(|v| v as usize),
        threads: items[5].list(mk_thread)?,
        system_info,
        linux_standard_base,
        linux_proc_limits,
        mac_crash_info,
        mac_boot_args,
        modules,
        unloaded_modules,
        handles,
        unknown_streams: vec![],
        unimplemented_streams: vec![],
        symbol_stats,
        linux_memory_map_count: items[15].opt(|x| x.nat())?.map(|v| v as usize),
        soft_errors,
    })
}

// ------------------------------------------------ abstraction: ProcessState -> model request

fn os_tag(os: &Os) -> Sx {
    match os {
        Os::Windows => tag("windows"),
        Os::MacOs => tag("macos"),
        Os::Ios => tag("ios"),
        Os::Linux => tag("linux"),
        Os::Solaris => tag("solaris"),
        Os::Android => tag("android"),
        Os::Ps3 => tag("ps3"),
        Os::NaCl => tag("nacl"),
        Os::Unknown(v) => L(vec![tag("unknown"), n(*v as u64)]),
    }
}
pub(crate) fn cpu_tag(c: &Cpu) -> &'static str {
    match c {
        Cpu::X86 => "x86",
        Cpu::X86_64 => "amd64",
        Cpu::Ppc => "ppc",
        Cpu::Ppc64 => "ppc64",
        Cpu::Sparc => "sparc",
        Cpu::Arm => "arm",
        Cpu::Arm64 => "arm64",
        Cpu::Mips => "mips",
        Cpu::Mips64 => "mips64",
        _ => "unknown",
    }
}
pub(crate) fn trust_tag(t: &FrameTrust) -> &'static str {
    match t {
        FrameTrust::None => "none",
        FrameTrust::Scan => "scan",
        FrameTrust::CfiScan => "cfi_scan",
        FrameTrust::FramePointer => "frame_pointer",
        FrameTrust::CallFrameInfo => "cfi",
        FrameTrust::PreWalked => "prewalked",
        FrameTrust::Context => "context",
    }
}
fn incons_tag(c: &CrashInconsistency) -> &'static str {
    match c {
        CrashInconsistency::IntDivByZeroNotPossible => "intdiv",
        CrashInconsistency::PrivInstructionCrashWithoutPrivInstruction => "priv",
        CrashInconsistency::NonCanonicalAddressFalselyReported => "noncanon",
        CrashInconsistency::AccessViolationWhenAccessAllowed => "accessallowed",
        CrashInconsistency::CrashingAccessNotFoundInMemoryAccesses => "notfound",
    }
}
fn limit_sx(l: &Limit) -> Sx {
    match l {
        Limit::Error => tag("err"),
        Limit::Unlimited => tag("unlimited"),
        Limit::Limited(v) => n(*v),
    }
}

pub(crate) fn alpha_ctx(ctx: &MinidumpContext) -> Sx {
    let gpr: Vec<Sx> = ctx
        .general_purpose_registers()
        .iter()
        .map(|r| L(vec![s(r), n(ctx.get_register_always(r))]))
        .collect();
    let valid = match &ctx.valid {
        MinidumpContextValidity::All => none(),
        MinidumpContextValidity::Some(set) => {
            let mut v: Vec<&str> = set.iter().copied().collect();
            v.sort();
            L(v.into_iter().map(s).collect())
        }
    };
    L(vec![n(ctx.register_size() as u64), L(gpr), valid])
}

fn after<'a>(text: &'a str, key: &str) -> Option<&'a str> {
    let i = text.find(key)?;
    let rest = &text[i + key.len()..];
    let end = rest.find([',', ' ', '}']).unwrap_or(rest.len());
    Some(&rest[..end])
}

pub(crate) fn alpha(ps: &ProcessState) -> Vec<Sx> {
    let cert: Vec<Sx> = ps.cert_info.iter().map(|(k, v)| L(vec![s(k), s(v)])).collect();
    let exc = o(ps.exception_info.as_ref(), |e| {
        let adjusted = o(e.adjusted_address.as_ref(), |a| match a {
            AdjustedAddress::NonCanonical(a) => L(vec![tag("noncanonical"), n(a.0)]),
            AdjustedAddress::NullPointerWithOffset(a) => L(vec![tag("nulloffset"), n(a.0)]),
        });
        let memacc = o(e.memory_access_list.as_ref(), |l| {
            L(l.iter()
                .map(|a| {
                    L(vec![
                        n(a.address_info.address),
                        on(a.size.map(|v| v as u64)),
                        b(a.address_info.is_likely_guard_page),
                        // Debug (derived), not the Display impl print_json itself uses
                        tag(&format!("{:?}", a.access_type).to_lowercase()),
                    ])
                })
                .collect())
        });
        let ipupd = o(e.instruction_pointer_update.as_ref(), |u| {
            let d = format!("{u:?}");
            if d.starts_with("NoUpdate") {
                tag("noupdate")
            } else {
                let addr = after(&d, "address: ").and_then(|v| v.parse::<u64>().ok()).unwrap_or(0);
                let guard = after(&d, "is_likely_guard_page: ") == Some("true");
                L(vec![tag("update"), n(addr), b(guard)])
            }
        });
        let flips: Vec<Sx> = e
            .possible_bit_flips
            .iter()
            .map(|f| {
                let conf = match serde_json::to_value(f.confidence).unwrap_or(Value::Null) {
                    Value::Null => none(),
                    v => A(format!("j{}", hex(v.to_string().as_bytes()))),
                };
                L(vec![
                    n(f.address.0),
                    os_(f.source_register),
                    b(f.details.was_non_canonical),
                    b(f.details.is_null),
                    b(f.details.was_low),
                    n(f.details.nearby_registers as u64),
                    b(f.details.poison_registers),
                    conf,
                ])
            })
            .collect();
        L(vec![
            s(&e.reason.to_string()),
            n(e.address.0),
            adjusted,
            os_(e.instruction_str.as_deref()),
            memacc,
            ipupd,
            L(flips),
            L(e.inconsistencies.iter().map(|c| tag(incons_tag(c))).collect()),
        ])
    });
    let threads: Vec<Sx> = ps
        .threads
        .iter()
        .map(|t| {
            let frames: Vec<Sx> = t
                .frames
                .iter()
                .enumerate()
                .map(|(i, f)| {
                    L(vec![
                        n(f.instruction),
                        o(f.module.as_ref(), |m| L(vec![s(&m.name), n(m.raw.base_of_image)])),
                        L(f.unloaded_modules
                            .iter()
                            .map(|(k, v)| L(vec![s(k), L(v.iter().map(|x| n(*x)).collect())]))
                            .collect()),
                        os_(f.function_name.as_deref()),
                        on(f.function_base),
                        os_(f.source_file_name.as_deref()),
                        on(f.source_line.map(|v| v as u64)),
                        L(f.inlines
                            .iter()
                            .map(|i| {
                                L(vec![
                                    s(&i.function_name),
                                    os_(i.source_file_name.as_deref()),
                                    on(i.source_line.map(|v| v as u64)),
                                ])
                            })
                            .collect()),
                        tag(trust_tag(&f.trust)),
                        if i == 0 { alpha_ctx(&f.context) } else { L(vec![n(0), L(vec![]), none()]) },
                    ])
                })
                .collect();
            L(vec![
                L(frames),
                n(t.thread_id as u64),
                os_(t.thread_name.as_deref()),
                o(t.last_error_value.as_ref(), |r| s(&r.to_string())),
            ])
        })
        .collect();
    let si = &ps.system_info;
    let sys = L(vec![
        os_tag(&si.os),
        os_(si.os_version.as_deref()),
        os_(si.os_build.as_deref()),
        tag(cpu_tag(&si.cpu)),
        os_(si.cpu_info.as_deref()),
        n(si.cpu_count as u64),
        on(si.cpu_microcode_version),
    ]);
    let lsb = o(ps.linux_standard_base.as_ref(), |l| {
        L(vec![s(&l.id), s(&l.release), s(&l.codename), s(&l.description)])
    });
    let limits = o(ps.linux_proc_limits.as_ref(), |l| {
        L(l.limits
            .iter()
            .map(|(k, v)| L(vec![s(k), limit_sx(&v.soft), limit_sx(&v.hard), s(&v.unit)]))
            .collect())
    });
    let mac = o(ps.mac_crash_info.as_ref(), |rs| {
        L(rs.iter()
            .map(|r| {
                L(vec![
                    on(r.thread().copied()),
                    on(r.dialog_mode().copied()),
                    on(r.abort_cause().copied()),
                    os_(r.module_path()),
                    os_(r.message()),
                    os_(r.signature_string()),
                    os_(r.backtrace()),
                    os_(r.message2()),
                ])
            })
            .collect())
    });
    let boot = o(ps.mac_boot_args.as_ref(), |bt| L(vec![os_(bt.bootargs.as_deref())]));
    let modules: Vec<Sx> = ps
        .modules
        .iter()
        .map(|m| {
            L(vec![
                n(m.raw.base_of_image),
                n(m.raw.size_of_image as u64),
                s(&m.code_file()),
                o(m.debug_file(), |d| s(&d)),
                s(&m.debug_identifier().unwrap_or_default().breakpad().to_string()),
                s(m.code_identifier().unwrap_or_default().as_str()),
                o(m.version(), |v| s(&v)),
            ])
        })
        .collect();
    let unloaded: Vec<Sx> = ps
        .unloaded_modules
        .iter()
        .map(|m| {
            L(vec![
                n(m.raw.base_of_image),
                n(m.raw.size_of_image as u64),
                s(&m.name),
                s(m.code_identifier().unwrap_or_default().as_str()),
            ])
        })
        .collect();
    let handles = o(ps.handles.as_ref(), |h| {
        L(h.handles
            .iter()
            .map(|h| {
                L(vec![n(*h.raw.handle().unwrap_or(&0)), os_(h.type_name.as_deref()), os_(h.object_name.as_deref())])
            })
            .collect())
    });
    let stats: Vec<Sx> = ps
        .symbol_stats
        .iter()
        .map(|(k, v)| {
            L(vec![
                s(k),
                os_(v.symbol_url.as_deref()),
                b(v.loaded_symbols),
                b(v.corrupt_symbols),
                o(v.extra_debug_info.as_ref(), |e| {
                    L(vec![s(&e.debug_file), s(&e.debug_identifier.breakpad().to_string())])
                }),
            ])
        })
        .collect();
    let soft = o(ps.soft_errors.as_ref(), |v| A(format!("j{}", hex(v.to_string().as_bytes()))));
    vec![
        on(ps.process_id.map(|v| v as u64)),
        L(cert),
        exc,
        os_(ps.assertion.as_deref()),
        on(ps.requesting_thread.map(|v| v as u64)),
        L(threads),
        sys,
        lsb,
        limits,
        mac,
        boot,
        L(modules),
        L(unloaded),
        handles,
        L(stats),
        on(ps.linux_memory_map_count.map(|v| v as u64)),
        soft,
    ]
}

// --------------------------------------------------------------------------------- oracle

fn platform_digits(cpu: &Cpu) -> usize {
    match cpu {
        Cpu::X86 | Cpu::Ppc | Cpu::Sparc | Cpu::Arm | Cpu::Mips => 8,
        _ => 16,
    }
}

/// `0x` + lower-case hex, exactly `w` digits unless the value needs more (then no leading zero)
fn hex_ok(v: &Value, w: usize) -> Option<u64> {
    let s = v.as_str()?;
    let d = s.strip_prefix("0x")?;
    if d.is_empty() || !d.bytes().all(|c| c.is_ascii_digit() || (b'a'..=b'f').contains(&c)) {
        return None;
    }
    if d.len() < w || (d.len() > w && d.starts_with('0')) {
        return None;
    }
    u64::from_str_radix(d, 16).ok()
}

fn is_u32(v: &Value) -> bool {
    v.as_u64().map_or(false, |x| x <= u32::MAX as u64)
}

// the enumerations json-schema.md lists, verbatim; `*_UNDOC` = values the code emits today that
// the document does not list (tolerated under "do not assume enums are exhaustive", reported in
// the distribution as `undocumented-enum:…`)
const ACCESS_DOC: [&str; 3] = ["read", "write", "readwrite"];
const INCONS_DOC: [&str; 5] = [
    "int_div_by_zero_not_possible",
    "priv_instruction_crash_without_priv_instruction",
    "non_canonical_address_falsely_reported",
    "access_violation_when_access_allowed",
    "crashing_access_not_found_in_memory_accesses",
];
const ADJUSTED_DOC: [&str; 2] = ["non-canonical", "null-pointer"];
const TRUST_DOC: [&str; 4] = ["context", "cfi", "frame_pointer", "scan"];
const TRUST_UNDOC: [&str; 3] = ["cfi_scan", "prewalked", "non"];
const CPU_DOC: [&str; 8] = ["x86", "amd64", "ppc", "ppc64", "sparc", "arm", "arm64", "unknown"];
const CPU_UNDOC: [&str; 2] = ["mips", "mips64"];
const OS_DOC: [&str; 8] = ["Windows NT", "Mac OS X", "iOS", "Linux", "Solaris", "Android", "PS3", "NaCl"];

/// the engine's own table (not `FrameTrust::as_str`, which print_json uses)
fn trust_doc(t: &FrameTrust) -> &'static str {
    match t {
        FrameTrust::Context => TRUST_DOC[0],
        FrameTrust::CallFrameInfo => TRUST_DOC[1],
        FrameTrust::FramePointer => TRUST_DOC[2],
        FrameTrust::Scan => TRUST_DOC[3],
        FrameTrust::CfiScan => TRUST_UNDOC[0],
        FrameTrust::PreWalked => TRUST_UNDOC[1],
        FrameTrust::None => TRUST_UNDOC[2],
    }
}

fn incons_doc(c: &CrashInconsistency) -> &'static str {
    match c {
        CrashInconsistency::IntDivByZeroNotPossible => INCONS_DOC[0],
        CrashInconsistency::PrivInstructionCrashWithoutPrivInstruction => INCONS_DOC[1],
        CrashInconsistency::NonCanonicalAddressFalselyReported => INCONS_DOC[2],
        CrashInconsistency::AccessViolationWhenAccessAllowed => INCONS_DOC[3],
        CrashInconsistency::CrashingAccessNotFoundInMemoryAccesses => INCONS_DOC[4],
    }
}

/// `v` (if present and not null) must be one of the documented strings (or a tolerated one)
fn enum_check(or: &mut Oracle, v: &Value, doc: &[&str], undoc: &[&str], name: &str, path: &str) {
    if v.is_null() {
        return;
    }
    match v.as_str() {
        Some(s) if doc.contains(&s) || undoc.contains(&s) => {}
        _ => or.fail(
            &format!("schema-enum-{name}"),
            format!("{path} = {v} is not one of the values json-schema.md lists: {doc:?}{}",
                if undoc.is_empty() { String::new() } else { format!(" (nor one of the known undocumented ones {undoc:?})") }),
        ),
    }
}

struct Oracle {
    fails: Vec<(String, String)>,
}
impl Oracle {
    fn fail(&mut self, class: &str, detail: String) {
        if !self.fails.iter().any(|(c, _)| c == class) {
            self.fails.push((class.to_string(), detail));
        }
    }
    /// `v` must be null or an address hex string of the platform width; returns its value
    fn addr(&mut self, v: &Value, w: usize, path: &str) -> Option<u64> {
        if v.is_null() {
            return None;
        }
        let r = hex_ok(v, w);
        if r.is_none() {
            self.fail("hex-width", format!("{path} = {v} is not a 0x-prefixed lower-case hex string of {w} digits"));
        }
        r
    }
    fn u32f(&mut self, v: &Value, path: &str) {
        if !v.is_null() && !is_u32(v) {
            self.fail("schema-u32", format!("{path} = {v} is documented <u32>"));
        }
    }
}

fn check_thread(or: &mut Oracle, tj: &Value, t: &CallStack, w: usize, path: &str) {
    let frames = tj["frames"].as_array().cloned().unwrap_or_default();
    if tj["frame_count"].as_u64() != Some(frames.len() as u64) || frames.len() != t.frames.len() {
        or.fail("frame-count", format!("{path}.frame_count = {} but frames has {} entries ({} in the state)",
            tj["frame_count"], frames.len(), t.frames.len()));
    }
    or.u32f(&tj["frame_count"], &format!("{path}.frame_count"));
    or.u32f(&tj["thread_id"], &format!("{path}.thread_id"));
    for (i, (fj, f)) in frames.iter().zip(t.frames.iter()).enumerate() {
        let p = format!("{path}.frames[{i}]");
        if fj["frame"].as_u64() != Some(i as u64) {
            or.fail("frame-number", format!("{p}.frame = {} at position {i}", fj["frame"]));
        }
        or.u32f(&fj["line"], &format!("{p}.line"));
        let off = or.addr(&fj["offset"], w, &format!("{p}.offset"));
        if off != Some(f.instruction) {
            or.fail("offset", format!("{p}.offset = {} but the frame's instruction is {:#x}", fj["offset"], f.instruction));
        }
        let mo = or.addr(&fj["module_offset"], w, &format!("{p}.module_offset"));
        match (&f.module, mo) {
            (Some(m), Some(mo)) => {
                if f.instruction.checked_sub(m.raw.base_of_image) != Some(mo) {
                    or.fail("module-offset", format!("{p}.module_offset = {mo:#x} but offset {:#x} - base {:#x}",
                        f.instruction, m.raw.base_of_image));
                }
                if fj["module"].as_str() != Some(minidump_common::utils::basename(&m.name)) {
                    or.fail("module-name", format!("{p}.module = {}", fj["module"]));
                }
            }
            (None, None) => {
                if !fj["module"].is_null() {
                    or.fail("module-name", format!("{p}.module = {} without a module", fj["module"]));
                }
            }
            _ => or.fail("module-offset", format!("{p}.module_offset = {} (module present: {})", fj["module_offset"], f.module.is_some())),
        }
        let fo = or.addr(&fj["function_offset"], w, &format!("{p}.function_offset"));
        match (f.function_base, fo) {
            (Some(fb), Some(fo)) => {
                if f.instruction.checked_sub(fb) != Some(fo) {
                    or.fail("function-offset", format!("{p}.function_offset = {fo:#x} but offset {:#x} - base {fb:#x}", f.instruction));
                }
            }
            (None, None) => {}
            _ => or.fail("function-offset", format!("{p}.function_offset = {}", fj["function_offset"])),
        }
        enum_check(or, &fj["trust"], &TRUST_DOC, &TRUST_UNDOC, "trust", &format!("{p}.trust"));
        if fj["trust"].as_str() != Some(trust_doc(&f.trust)) {
            or.fail("trust-mirror", format!("{p}.trust = {} for a frame recovered by {:?}", fj["trust"], f.trust));
        }
        if fj["missing_symbols"].as_bool() != Some(fj["function"].is_null()) {
            or.fail("missing-symbols", format!("{p}.missing_symbols = {} function = {}", fj["missing_symbols"], fj["function"]));
        }
        if let Some(us) = fj["unloaded_modules"].as_array() {
            for (k, u) in us.iter().enumerate() {
                for (m, x) in u["offsets"].as_array().cloned().unwrap_or_default().iter().enumerate() {
                    or.addr(x, w, &format!("{p}.unloaded_modules[{k}].offsets[{m}]"));
                }
            }
        }
    }
}

/// the property's oracle, evaluated on the implementation's output and the state it was given
fn oracle(ps: &ProcessState, compact: &[u8], pretty: &[u8]) -> (Vec<(String, String)>, Option<Value>) {
    let mut or = Oracle { fails: vec![] };
    let text = match std::str::from_utf8(compact) {
        Ok(t) => t,
        Err(e) => {
            or.fail("invalid-utf8", format!("{e}"));
            return (or.fails, None);
        }
    };
    let j: Value = match serde_json::from_str(text) {
        Ok(v) => v,
        Err(e) => {
            or.fail("invalid-json", format!("{e}"));
            return (or.fails, None);
        }
    };
    match serde_json::from_slice::<Value>(pretty) {
        Ok(p) => {
            if p != j {
                or.fail("pretty-differs", "pretty output parses to a different value".into());
            }
        }
        Err(e) => or.fail("invalid-json-pretty", format!("{e}")),
    }
    let w = platform_digits(&ps.system_info.cpu);
    // --- redundant counts
    let threads = j["threads"].as_array().cloned().unwrap_or_default();
    if j["thread_count"].as_u64() != Some(threads.len() as u64) || threads.len() != ps.threads.len() {
        or.fail("thread-count", format!("thread_count = {} but threads has {} entries ({} in the state)",
            j["thread_count"], threads.len(), ps.threads.len()));
    }
    for (i, (tj, t)) in threads.iter().zip(ps.threads.iter()).enumerate() {
        check_thread(&mut or, tj, t, w, &format!("threads[{i}]"));
    }
    // --- crashing thread copy
    let want_copy = ps
        .requesting_thread
        .and_then(|i| ps.threads.get(i))
        .map_or(false, |t| !t.frames.is_empty());
    match (want_copy, j.get("crashing_thread")) {
        (false, None) => {}
        (true, Some(ct)) => {
            let i = ps.requesting_thread.unwrap();
            if ct["threads_index"].as_u64() != Some(i as u64) || j["crash_info"]["crashing_thread"].as_u64() != Some(i as u64) {
                or.fail("crashing-thread-index", format!("threads_index = {} crash_info.crashing_thread = {} requesting thread = {i}",
                    ct["threads_index"], j["crash_info"]["crashing_thread"]));
            }
            let mut stripped = ct.clone();
            let regs = stripped["frames"][0].as_object_mut().and_then(|f| f.remove("registers"));
            if let Some(o) = stripped.as_object_mut() {
                o.remove("threads_index");
            }
            if Some(&stripped) != threads.get(i) {
                or.fail("crashing-thread-copy", format!("crashing_thread minus registers/threads_index differs from threads[{i}]"));
            }
            match regs {
                Some(Value::Object(m)) => {
                    for (k, v) in &m {
                        if hex_ok(v, 1).is_none() && v.as_str().map_or(true, |s| !s.starts_with("0x")) {
                            or.fail("registers", format!("register {k} = {v}"));
                        }
                    }
                    // exactly the valid general purpose registers of frame 0's context
                    let ctx = &ps.threads[i].frames[0].context;
                    let want: BTreeSet<&str> = ctx
                        .general_purpose_registers()
                        .iter()
                        .copied()
                        .filter(|r| match &ctx.valid {
                            MinidumpContextValidity::All => true,
                            MinidumpContextValidity::Some(set) => set.contains(r),
                        })
                        .collect();
                    let got: BTreeSet<&str> = m.keys().map(|k| k.as_str()).collect();
                    if want != got {
                        or.fail("registers", format!("registers {got:?} but the valid general purpose registers are {want:?}"));
                    }
                    // each value is the register's content, padded to the register width of the context
                    for r in &want {
                        let val = ctx.get_register_always(r);
                        if hex_ok(&m[*r], ctx.register_size() * 2) != Some(val) {
                            or.fail("registers", format!("register {r} = {} but the context holds {val:#x} ({} bytes wide)", m[*r], ctx.register_size()));
                        }
                    }
                }
                _ => or.fail("registers", "crashing_thread.frames[0].registers is not an object".into()),
            }
            check_thread(&mut or, ct, &ps.threads[i], w, "crashing_thread");
        }
        (a, bb) => or.fail("crashing-thread-copy", format!("crashing_thread present: {} expected: {a}", bb.is_some())),
    }
    // --- modules mirror
    let mods = j["modules"].as_array().cloned().unwrap_or_default();
    let real: Vec<&MinidumpModule> = ps.modules.iter().collect();
    if mods.len() != real.len() {
        or.fail("modules-mirror", format!("modules has {} entries, the module list {}", mods.len(), real.len()));
    }
    for (i, (mj, m)) in mods.iter().zip(real.iter()).enumerate() {
        let p = format!("modules[{i}]");
        let base = or.addr(&mj["base_addr"], w, &format!("{p}.base_addr"));
        let end = or.addr(&mj["end_addr"], w, &format!("{p}.end_addr"));
        if base != Some(m.raw.base_of_image)
            || end != m.raw.base_of_image.checked_add(m.raw.size_of_image as u64)
            || mj["filename"].as_str() != Some(minidump_common::utils::basename(&m.name))
        {
            or.fail("modules-mirror", format!("{p} = {mj} for module {:#x}+{:#x} {:?}", m.raw.base_of_image, m.raw.size_of_image, m.name));
        }
    }
    let umods = j["unloaded_modules"].as_array().cloned().unwrap_or_default();
    let ureal: Vec<&MinidumpUnloadedModule> = ps.unloaded_modules.iter().collect();
    if umods.len() != ureal.len() {
        or.fail("modules-mirror", format!("unloaded_modules has {} entries, the list {}", umods.len(), ureal.len()));
    }
    for (i, (mj, m)) in umods.iter().zip(ureal.iter()).enumerate() {
        let p = format!("unloaded_modules[{i}]");
        let base = or.addr(&mj["base_addr"], w, &format!("{p}.base_addr"));
        let end = or.addr(&mj["end_addr"], w, &format!("{p}.end_addr"));
        if base != Some(m.raw.base_of_image)
            || end != m.raw.base_of_image.checked_add(m.raw.size_of_image as u64)
            || mj["filename"].as_str() != Some(m.name.as_str())
        {
            or.fail("modules-mirror", format!("{p} = {mj}"));
        }
    }
    // --- remaining address-typed fields
    let ci = &j["crash_info"];
    or.addr(&ci["address"], w, "crash_info.address");
    or.addr(&ci["adjusted_address"]["address"], w, "crash_info.adjusted_address.address");
    or.addr(&ci["adjusted_address"]["offset"], w, "crash_info.adjusted_address.offset");
    or.addr(&ci["instruction_pointer_update"]["address"], w, "crash_info.instruction_pointer_update.address");
    if ci["instruction_pointer_update"].get("is_likely_guard_page").map_or(false, |v| v.as_bool() != Some(true)) {
        or.fail("schema-guard-page-flag", format!("crash_info.instruction_pointer_update.is_likely_guard_page = {}", ci["instruction_pointer_update"]["is_likely_guard_page"]));
    }
    let accesses = ci["memory_accesses"].as_array().cloned().unwrap_or_default();
    for (i, a) in accesses.iter().enumerate() {
        let p = format!("crash_info.memory_accesses[{i}]");
        or.addr(&a["address"], w, &format!("{p}.address"));
        or.u32f(&a["size"], &format!("{p}.size"));
        enum_check(&mut or, &a["access_type"], &ACCESS_DOC, &[], "access_type", &format!("{p}.access_type"));
        if a.get("is_likely_guard_page").map_or(false, |v| v.as_bool() != Some(true)) {
            or.fail("schema-guard-page-flag", format!("{p}.is_likely_guard_page = {}: json-schema.md says the member may only be present when the value is true", a["is_likely_guard_page"]));
        }
    }
    // memory_accesses mirrors the state's list (address, size, guard flag, kind of access; the kind
    // is read through the derived Debug, not through the Display impl print_json uses)
    let exc = ps.exception_info.as_ref();
    match exc.and_then(|e| e.memory_access_list.as_ref()) {
        None => {
            if !ci["memory_accesses"].is_null() {
                or.fail("memory-accesses-mirror", format!("memory_accesses = {} without an access list", ci["memory_accesses"]));
            }
        }
        Some(l) => {
            let real: Vec<_> = l.iter().collect();
            if !ci["memory_accesses"].is_array() || accesses.len() != real.len() {
                or.fail("memory-accesses-mirror", format!("memory_accesses has {} entries, the access list {}", accesses.len(), real.len()));
            }
            for (i, (aj, a)) in accesses.iter().zip(real.iter()).enumerate() {
                let kind = format!("{:?}", a.access_type);
                let want_type = match kind.as_str() {
                    "Read" => Value::from("read"),
                    "Write" => Value::from("write"),
                    "ReadWrite" => Value::from("readwrite"),
                    _ => Value::Null,
                };
                let got_type = aj.get("access_type").cloned().unwrap_or(Value::Null);
                if hex_ok(&aj["address"], w) != Some(a.address_info.address)
                    || aj["size"].as_u64() != a.size.map(|v| v as u64)
                    || aj.get("is_likely_guard_page").and_then(|v| v.as_bool()).unwrap_or(false) != a.address_info.is_likely_guard_page
                    || got_type != want_type
                {
                    or.fail("memory-accesses-mirror", format!("crash_info.memory_accesses[{i}] = {aj} for {a:?}"));
                }
            }
        }
    }
    let incs = ci["crash_inconsistencies"].as_array().cloned().unwrap_or_default();
    for (i, v) in incs.iter().enumerate() {
        enum_check(&mut or, v, &INCONS_DOC, &[], "crash_inconsistencies", &format!("crash_info.crash_inconsistencies[{i}]"));
    }
    if let Some(e) = exc {
        let want: Vec<&str> = e.inconsistencies.iter().map(incons_doc).collect();
        let got: Vec<&str> = incs.iter().filter_map(|v| v.as_str()).collect();
        if want != got {
            or.fail("inconsistencies-mirror", format!("crash_inconsistencies = {got:?} for {:?}", e.inconsistencies));
        }
        let adj = &ci["adjusted_address"];
        let ok = match &e.adjusted_address {
            None => adj.is_null(),
            Some(AdjustedAddress::NonCanonical(a)) => {
                adj["kind"] == "non-canonical" && hex_ok(&adj["address"], w) == Some(a.0) && adj.get("offset").is_none()
            }
            Some(AdjustedAddress::NullPointerWithOffset(a)) => {
                adj["kind"] == "null-pointer" && hex_ok(&adj["offset"], w) == Some(a.0) && adj.get("address").is_none()
            }
        };
        if !ok {
            or.fail("adjusted-address-mirror", format!("adjusted_address = {adj} for {:?}", e.adjusted_address));
        }
        if hex_ok(&ci["address"], w) != Some(e.address.0) {
            or.fail("crash-address-mirror", format!("crash_info.address = {} for {:#x}", ci["address"], e.address.0));
        }
        let flips = ci["possible_bit_flips"].as_array().cloned().unwrap_or_default();
        if flips.len() != e.possible_bit_flips.len() || (e.possible_bit_flips.is_empty() != ci["possible_bit_flips"].is_null()) {
            or.fail("bit-flips-mirror", format!("possible_bit_flips has {} entries, the state {}", flips.len(), e.possible_bit_flips.len()));
        }
        for (i, (fj, f)) in flips.iter().zip(e.possible_bit_flips.iter()).enumerate() {
            let d = &fj["details"];
            if hex_ok(&fj["address"], w) != Some(f.address.0)
                || d["was_non_canonical"].as_bool() != Some(f.details.was_non_canonical)
                || d["is_null"].as_bool() != Some(f.details.is_null)
                || d["was_low"].as_bool() != Some(f.details.was_low)
                || d["poison_registers"].as_bool() != Some(f.details.poison_registers)
                || d["nearby_registers"].as_u64() != Some(f.details.nearby_registers as u64)
                || fj["source_register"].as_str() != f.source_register
                || !(fj["confidence"].is_null() || fj["confidence"].is_number())
            {
                or.fail("bit-flips-mirror", format!("crash_info.possible_bit_flips[{i}] = {fj} for {f:?}"));
            }
        }
    }
    if !ci["adjusted_address"].is_null() {
        enum_check(&mut or, &ci["adjusted_address"]["kind"], &ADJUSTED_DOC, &[], "adjusted_address.kind", "crash_info.adjusted_address.kind");
    }
    enum_check(&mut or, &j["system_info"]["cpu_arch"], &CPU_DOC, &CPU_UNDOC, "cpu_arch", "system_info.cpu_arch");
    for (i, a) in ci["possible_bit_flips"].as_array().cloned().unwrap_or_default().iter().enumerate() {
        or.addr(&a["address"], w, &format!("crash_info.possible_bit_flips[{i}].address"));
    }
    for (i, r) in j["mac_crash_info"]["records"].as_array().cloned().unwrap_or_default().iter().enumerate() {
        for k in ["thread", "dialog_mode", "abort_cause"] {
            or.addr(&r[k], w, &format!("mac_crash_info.records[{i}].{k}"));
        }
    }
    if j["mac_crash_info"].is_object()
        && j["mac_crash_info"]["num_records"].as_u64() != j["mac_crash_info"]["records"].as_array().map(|a| a.len() as u64)
    {
        or.fail("num-records", format!("num_records = {}", j["mac_crash_info"]["num_records"]));
    }
    // --- documented <u32> fields and closed facts
    for k in ["pid", "thread_count", "main_module", "linux_memory_map_count"] {
        or.u32f(&j[k], k);
    }
    or.u32f(&ci["crashing_thread"], "crash_info.crashing_thread");
    or.u32f(&j["system_info"]["cpu_count"], "system_info.cpu_count");
    if j["status"].as_str() != Some("OK") || !j["system_info"].is_object() || !ci.is_object() {
        or.fail("schema-shape", "status/system_info/crash_info".into());
    }
    // --- the three places where the code leaves the documented schema (known findings)
    if let Some(os) = j["system_info"]["os"].as_str() {
        if !OS_DOC.contains(&os) && hex_ok(&j["system_info"]["os"], 1).is_none() {
            or.fail("schema-os-unknown-not-hexstring", format!("system_info.os = {os:?} is neither a listed name nor a <hexstring>"));
        }
    }
    for (i, h) in j["handles"].as_array().cloned().unwrap_or_default().iter().enumerate() {
        // documented <u64> since /repo b67afac
        if !h["handle"].is_null() && h["handle"].as_u64().is_none() {
            or.fail("schema-handle-not-u64", format!("handles[{i}].handle = {} is documented <u64>", h["handle"]));
        }
    }
    // soft_errors: print_json passes the public field through; that it is a list of objects is
    // established by the processor (/repo 7c77347) and checked on the processor path (`json proc …`)
    (or.fails, Some(j))
}

/// first path at which the Lean `Conforms` is expected to object (schema order): the unknown-OS
/// spelling (known finding) and directly constructed `soft_errors` values the processor would
/// not have passed on
fn expected_conforms(j: &Value) -> String {
    if let Some(os) = j["system_info"]["os"].as_str() {
        let listed = ["Windows NT", "Mac OS X", "iOS", "Linux", "Solaris", "Android", "PS3", "NaCl"];
        if !listed.contains(&os) && hex_ok(&j["system_info"]["os"], 1).is_none() {
            return "10@$.system_info.os".into();
        }
    }
    match &j["soft_errors"] {
        Value::Null => {}
        Value::Array(a) => {
            if let Some(i) = a.iter().position(|x| !(x.is_object() || x.is_null())) {
                return format!("10@$.soft_errors[{i}]");
            }
        }
        _ => return "10@$.soft_errors".into(),
    }
    "11".into()
}

/// `cpu_arch=…` then `trust=…` (threads in order, then the crashing-thread copy; first occurrences)
fn undocumented_enums(j: &Value) -> String {
    let mut out: Vec<String> = Vec::new();
    if let Some(a) = j["system_info"]["cpu_arch"].as_str() {
        if !CPU_DOC.contains(&a) {
            out.push(format!("cpu_arch={a}"));
        }
    }
    let mut seen: Vec<String> = Vec::new();
    let mut threads: Vec<&Value> = j["threads"].as_array().map(|a| a.iter().collect()).unwrap_or_default();
    if let Some(c) = j.get("crashing_thread") {
        threads.push(c);
    }
    for t in threads {
        for f in t["frames"].as_array().map(|a| a.iter().collect::<Vec<_>>()).unwrap_or_default() {
            if let Some(tr) = f["trust"].as_str() {
                if !TRUST_DOC.contains(&tr) && !seen.iter().any(|x| x == tr) {
                    seen.push(tr.to_string());
                }
            }
        }
    }
    out.extend(seen.into_iter().map(|t| format!("trust={t}")));
    out.join(",")
}

/// states on which `Conforms` is predictable from the three detectors above: the generator's
/// deliberate departures from well-formedness (empty offset sets, counts ≥ 2^32) are excluded
fn conforms_predictable(ps: &ProcessState) -> bool {
    ps.system_info.cpu_count <= u32::MAX as usize
        && ps.linux_memory_map_count.map_or(true, |c| c <= u32::MAX as usize)
        && ps.threads.iter().all(|t| t.frames.iter().all(|f| f.unloaded_modules.values().all(|s| !s.is_empty())))
}

// ------------------------------------------------------------------------------ running a case

struct Run {
    ps: ProcessState,
    compact: Result<Vec<u8>, String>,
    pretty: Result<Vec<u8>, String>,
}

thread_local! {
    static RT: tokio::runtime::Runtime =
        tokio::runtime::Builder::new_current_thread().enable_all().build().expect("tokio runtime");
    /// `call rax` processed with rax = key (what `instruction_pointer_update` needs)
    static IPCACHE: RefCell<HashMap<u64, Option<ExceptionInfo>>> = RefCell::new(HashMap::new());
}

fn process_bytes(bytes: Vec<u8>) -> Option<ProcessState> {
    let dump = Minidump::read(bytes).ok()?;
    RT.with(|rt| {
        rt.block_on(async {
            let provider = minidump_unwind::Symbolizer::new(minidump_unwind::simple_symbol_supplier(vec![]));
            minidump_processor::process_minidump(&dump, &provider).await.ok()
        })
    })
}

/// `json proc b<hex text>`: a synthetic dump carrying a MozSoftErrors stream with that text goes
/// through `process_minidump`; the resulting state is then treated like every other one
pub(crate) fn build_proc(items: &[Sx]) -> Option<ProcessState> {
    use minidump_synth::{Memory, SynthMinidump, SystemInfo as SynthSystemInfo, Thread};
    use test_assembler::{Endian, Section};
    if items.len() != 2 {
        return None;
    }
    let text = String::from_utf8(items[1].bytes()?).ok()?;
    let context = minidump_synth::x86_context(Endian::Little, 0xabcd1234, 0x1010);
    let stack = Memory::with_section(Section::with_endian(Endian::Little).append_repeated(0, 0x1000), 0x1000);
    let thread = Thread::new(Endian::Little, 0x1234, &stack, &context);
    let dump = SynthMinidump::with_endian(Endian::Little)
        .add_thread(thread)
        .add_system_info(SynthSystemInfo::new(Endian::Little))
        .add(context)
        .add_memory(stack)
        .set_soft_errors(&text);
    process_bytes(dump.finish()?)
}

/// directly constructed states are written `json st <17 items>`: the constant second field keeps
/// the framework's per-shape cap on kept failures meaningful (the bare legacy form, whose second
/// field is the pid, is still accepted — old corpus lines and replays)
pub(crate) fn strip_shape(mut items: Vec<Sx>) -> Vec<Sx> {
    if matches!(items.first(), Some(A(a)) if a == "st") {
        items.remove(0);
    }
    items
}

pub(crate) fn is_proc_case(items: &[Sx]) -> bool {
    matches!(items.first(), Some(A(a)) if a == "proc")
}
pub(crate) fn is_procx_case(items: &[Sx]) -> bool {
    matches!(items.first(), Some(A(a)) if a == "procx")
}

// ------------------------------------------------ processor path with a crashing instruction

/// what a `json procx …` case describes: an amd64 (or other) crash dump whose exception context
/// points at code bytes held in the dump's memory
#[derive(Default)]
struct DumpSpec {
    os: String,
    /// x86 | amd64 | arm64 (context kinds minidump-synth can write)
    cpu: String,
    /// exception code, flags, number of parameters, information[0], information[1], address
    exc: [u64; 6],
    regs: Vec<(String, u64)>,
    code: Vec<u8>,
    /// memory-info regions: base, size, protection
    regions: Vec<(u64, u64, u32)>,
    /// extra memory (the target of `call [mem]`)
    data: Option<(u64, Vec<u8>)>,
    lsb: Option<Vec<u8>>,
    limits: Option<Vec<u8>>,
    maps: Option<Vec<u8>>,
    thread_name: Option<String>,
    modules: Vec<(u64, u64, String)>,
    unloaded: Vec<(u64, u64, String)>,
    stack: Vec<u8>,
    /// other threads before / after the crashing one (ids 100.., own context and stack), and
    /// which position of the thread list (if any) Breakpad names as the dump-writing thread
    before: u64,
    after: u64,
    dump_thread: Option<u64>,
}

fn reg_of(regs: &[(String, u64)], name: &str) -> u64 {
    regs.iter().rev().find(|(k, _)| k == name).map_or(0, |(_, v)| *v)
}

fn synth_dump(c: &DumpSpec) -> Option<Vec<u8>> {
    use minidump_synth as synth;
    use synth::DumpSection;
    use test_assembler::{Endian, Section};
    let le = scroll::LE;
    let g = |k: &str| reg_of(&c.regs, k);
    let (context, ip, sp, arch) = match c.cpu.as_str() {
        "amd64" => {
            let mut x = md::CONTEXT_AMD64::default();
            x.context_flags = 0x10001f;
            x.rax = g("rax");
            x.rdx = g("rdx");
            x.rcx = g("rcx");
            x.rbx = g("rbx");
            x.rsi = g("rsi");
            x.rdi = g("rdi");
            x.rbp = g("rbp");
            x.rsp = g("rsp");
            x.r8 = g("r8");
            x.r9 = g("r9");
            x.r10 = g("r10");
            x.r11 = g("r11");
            x.r12 = g("r12");
            x.r13 = g("r13");
            x.r14 = g("r14");
            x.r15 = g("r15");
            x.rip = g("rip");
            let mut bytes = vec![0u8; md::CONTEXT_AMD64::size_with(&le)];
            bytes.pwrite_with(x, 0, le).ok()?;
            (
                Section::with_endian(Endian::Little).append_bytes(&bytes),
                g("rip"),
                g("rsp"),
                md::ProcessorArchitecture::PROCESSOR_ARCHITECTURE_AMD64 as u16,
            )
        }
        "x86" => (
            synth::x86_context(Endian::Little, g("rip") as u32, g("rsp") as u32),
            g("rip") as u32 as u64,
            g("rsp") as u32 as u64,
            md::ProcessorArchitecture::PROCESSOR_ARCHITECTURE_INTEL as u16,
        ),
        "arm64" => (
            synth::arm64_context(Endian::Little, g("rip"), g("rsp")),
            g("rip"),
            g("rsp"),
            md::ProcessorArchitecture::PROCESSOR_ARCHITECTURE_ARM64 as u16,
        ),
        _ => return None,
    };
    let platform = match c.os.as_str() {
        "win" => md::PlatformId::VER_PLATFORM_WIN32_NT as u32,
        "linux" => md::PlatformId::Linux as u32,
        "mac" => md::PlatformId::MacOs as u32,
        "android" => md::PlatformId::Android as u32,
        _ => return None,
    };
    let context_label = context.file_offset();
    let context_size = context.file_size();
    let stack = synth::Memory::with_section(Section::with_endian(Endian::Little).append_bytes(&c.stack), sp);
    let thread = synth::Thread::new(Endian::Little, 1, &stack, &context);
    // the context goes first so that its file offset is known before the exception record cites it
    let mut dump = synth::SynthMinidump::with_endian(Endian::Little).add(context);
    let mut ex = synth::Exception::new(Endian::Little);
    ex.thread_id = 1;
    ex.exception_record.exception_code = c.exc[0] as u32;
    ex.exception_record.exception_flags = c.exc[1] as u32;
    ex.exception_record.number_parameters = (c.exc[2] as u32).min(15);
    ex.exception_record.exception_information[0] = c.exc[3];
    ex.exception_record.exception_information[1] = c.exc[4];
    ex.exception_record.exception_address = c.exc[5];
    ex.thread_context = (context_size.value()? as u32, context_label.value()? as u32);
    let other_ctx = synth::amd64_context(Endian::Little, 0x6000_0040, 0x7100_0008);
    let mut ids: Vec<u32> = Vec::new();
    let mut others = Vec::new();
    for k in 0..(c.before + c.after).min(8) {
        let st = synth::Memory::with_section(Section::with_endian(Endian::Little).append_repeated(0, 16), 0x7100_0000 + k * 0x1000);
        others.push((synth::Thread::new(Endian::Little, 100 + k as u32, &st, &other_ctx), st));
    }
    let mut others = others.into_iter();
    for k in 0..c.before.min(8) {
        if let Some((t, st)) = others.next() {
            dump = dump.add_thread(t).add_memory(st);
            ids.push(100 + k as u32);
        }
    }
    dump = dump.add_thread(thread);
    ids.push(1);
    for (k, (t, st)) in others.enumerate() {
        dump = dump.add_thread(t).add_memory(st);
        ids.push(100 + c.before.min(8) as u32 + k as u32);
    }
    if ids.len() > 1 {
        dump = dump.add(other_ctx);
    }
    if let Some(tid) = c.dump_thread.and_then(|k| ids.get(k as usize)) {
        // MINIDUMP_BREAKPAD_INFO: validity (dump thread | requesting thread), dump thread, requesting thread
        dump = dump.add_stream(synth::SimpleStream {
            stream_type: md::MINIDUMP_STREAM_TYPE::BreakpadInfoStream as u32,
            section: Section::with_endian(Endian::Little).D32(3).D32(*tid).D32(1),
        });
    }
    dump = dump
        .add_exception(ex)
        .add_system_info(synth::SystemInfo::new(Endian::Little).set_processor_architecture(arch).set_platform_id(platform));
    if !c.code.is_empty() {
        dump = dump.add_memory(synth::Memory::with_section(Section::with_endian(Endian::Little).append_bytes(&c.code), ip));
    }
    // (always cited by the thread entry, so always present — possibly empty)
    dump = dump.add_memory(stack);
    if let Some((addr, bytes)) = &c.data {
        dump = dump.add_memory(synth::Memory::with_section(Section::with_endian(Endian::Little).append_bytes(bytes), *addr));
    }
    for (lo, size, prot) in &c.regions {
        dump = dump.add_memory_info(synth::MemoryInfo::new(Endian::Little, *lo, *lo, 0, *size, 0x1000, *prot, 0));
    }
    if let Some(t) = &c.lsb {
        dump = dump.set_linux_lsb_release(t);
    }
    if let Some(t) = &c.limits {
        dump = dump.set_linux_proc_limits(t);
    }
    if let Some(t) = &c.maps {
        dump = dump.set_linux_maps(t);
    }
    if let Some(nm) = &c.thread_name {
        let name = synth::DumpString::new(nm, Endian::Little);
        dump = dump.add_thread_name(synth::ThreadName::new(Endian::Little, 1, Some(&name))).add(name);
    }
    for (base, size, nm) in &c.modules {
        let name = synth::DumpString::new(nm, Endian::Little);
        dump = dump.add_module(synth::Module::new(Endian::Little, *base, *size as u32, &name, 0, 0, None)).add(name);
    }
    for (base, size, nm) in &c.unloaded {
        let name = synth::DumpString::new(nm, Endian::Little);
        dump = dump.add_unloaded_module(synth::UnloadedModule::new(Endian::Little, *base, *size as u32, &name, 0, 0)).add(name);
    }
    dump.finish()
}

/// the exception info `process_minidump` derives for an amd64 Windows access violation whose
/// crashing instruction is `code`
fn harvest(code: &[u8], regs: &[(&str, u64)]) -> Option<ExceptionInfo> {
    let mut all: Vec<(String, u64)> = vec![("rip".into(), 0x40_0000), ("rsp".into(), 0x7000_0000)];
    all.extend(regs.iter().map(|(k, v)| (k.to_string(), *v)));
    let spec = DumpSpec {
        os: "win".into(),
        cpu: "amd64".into(),
        exc: [0xc000_0005, 0, 2, 0, 0x1000, 0x40_0000],
        regs: all,
        code: code.to_vec(),
        stack: vec![0; 16],
        ..Default::default()
    };
    process_bytes(synth_dump(&spec)?)?.exception_info
}

/// processed exception infos whose first memory access has each `MemoryAccessType` (the enum
/// cannot be named from outside the crate; values are copied out of these)
struct Templates {
    read: ExceptionInfo,
    write: ExceptionInfo,
    readwrite: ExceptionInfo,
    underivable: ExceptionInfo,
}

fn first_access_is(e: &ExceptionInfo, debug_name: &str) -> bool {
    e.memory_access_list
        .as_ref()
        .and_then(|l| l.accesses.first())
        // Debug is derived: independent of the Display impl that `print_json` uses
        .map_or(false, |a| format!("{:?}", a.access_type) == debug_name)
}

fn templates() -> Option<&'static Templates> {
    static T: OnceLock<Option<Templates>> = OnceLock::new();
    T.get_or_init(|| {
        let rbx = [("rbx", 0x1000u64)];
        let t = Templates {
            read: harvest(&[0x48, 0x8b, 0x03], &rbx)?,        // mov rax, [rbx]
            write: harvest(&[0x48, 0x89, 0x03], &rbx)?,       // mov [rbx], rax
            readwrite: harvest(&[0x01, 0x03], &rbx)?,         // add [rbx], eax
            underivable: harvest(&[0x31, 0x03], &rbx)?,       // xor [rbx], eax
        };
        let ok = first_access_is(&t.read, "Read")
            && first_access_is(&t.write, "Write")
            && first_access_is(&t.readwrite, "ReadWrite")
            && first_access_is(&t.underivable, "Underivable")
            && format!("{:?}", t.read.instruction_pointer_update).contains("NoUpdate");
        if ok {
            Some(t)
        } else {
            None
        }
    })
    .as_ref()
}

fn ip_update_template(addr: u64) -> Option<ExceptionInfo> {
    IPCACHE.with(|c| {
        if let Some(v) = c.borrow().get(&addr) {
            return v.clone();
        }
        let v = harvest(&[0xff, 0xd0], &[("rax", addr)]); // call rax
        let v = v.filter(|e| format!("{:?}", e.instruction_pointer_update).contains(&format!("address: {addr},")));
        c.borrow_mut().insert(addr, v.clone());
        v
    })
}

/// `json procx <os> <cpu> ( exc ) ( regs ) b<code> ( regions ) <data> <lsb> <limits> <maps> <thread name>
///  ( modules ) ( unloaded ) b<stack>` → `process_minidump`
pub(crate) fn build_procx(items: &[Sx]) -> Option<ProcessState> {
    if items.len() != 16 {
        return None;
    }
    let exc: Vec<u64> = items[3].list(|x| x.nat())?;
    let th = items[15].as_list()?;
    if th.len() != 3 {
        return None;
    }
    let triple = |x: &Sx| {
        let l = x.as_list()?;
        Some((l.first()?.nat()?, l.get(1)?.nat()?, l.get(2)?.string()?))
    };
    let spec = DumpSpec {
        os: items[1].atom()?.to_string(),
        cpu: items[2].atom()?.to_string(),
        exc: exc.try_into().ok()?,
        regs: items[4].list(|r| {
            let r = r.as_list()?;
            Some((r.first()?.string()?, r.get(1)?.nat()?))
        })?,
        code: items[5].bytes()?,
        regions: items[6].list(|r| {
            let r = r.as_list()?;
            Some((r.first()?.nat()?, r.get(1)?.nat()?, r.get(2)?.nat()? as u32))
        })?,
        data: items[7].opt(|d| {
            let d = d.as_list()?;
            Some((d.first()?.nat()?, d.get(1)?.bytes()?))
        })?,
        lsb: items[8].opt(|x| x.bytes())?,
        limits: items[9].opt(|x| x.bytes())?,
        maps: items[10].opt(|x| x.bytes())?,
        thread_name: items[11].opt(|x| x.string())?,
        modules: items[12].list(triple)?,
        unloaded: items[13].list(triple)?,
        stack: items[14].bytes()?,
        before: th[0].nat()?,
        after: th[1].nat()?,
        dump_thread: th[2].opt(|x| x.nat())?,
    };
    process_bytes(synth_dump(&spec)?)
}

fn run(case: &str) -> Option<Run> {
    let rest = case.strip_prefix("json ")?;
    let items = strip_shape(sx_parse(rest)?);
    let ps = if is_proc_case(&items) {
        catch(|| build_proc(&items)).ok()??
    } else if is_procx_case(&items) {
        catch(|| build_procx(&items)).ok()??
    } else {
        catch(|| build(&items)).ok()??
    };
    let compact = catch(|| {
        let mut v = Vec::new();
        ps.print_json(&mut v, false).map(|_| v).map_err(|e| e.to_string())
    })
    .and_then(|r| r);
    let pretty = catch(|| {
        let mut v = Vec::new();
        ps.print_json(&mut v, true).map(|_| v).map_err(|e| e.to_string())
    })
    .and_then(|r| r);
    Some(Run { ps, compact, pretty })
}

/// the well-formedness the theorems assume (`WF` in MdProofs/C15.lean), on the real state
pub(crate) fn wf(ps: &ProcessState) -> bool {
    ps.requesting_thread.map_or(true, |i| i < ps.threads.len())
        && ps.modules.iter().all(|m| m.raw.base_of_image.checked_add(m.raw.size_of_image as u64).is_some())
        && ps.unloaded_modules.iter().all(|m| m.raw.base_of_image.checked_add(m.raw.size_of_image as u64).is_some())
        && ps.threads.iter().all(|t| {
            t.frames.iter().all(|f| {
                f.module.as_ref().map_or(true, |m| m.raw.base_of_image <= f.instruction)
                    && f.function_base.map_or(true, |fb| fb <= f.instruction)
            })
        })
}

fn expected_out(r: &Run, orc_json: &Option<Value>) -> String {
    match &r.compact {
        Err(_) => "M:PANIC".to_string(),
        Ok(c) => {
            let mut out = format!("M:{}", hex(c));
            if let (true, Some(j)) = (conforms_predictable(&r.ps), orc_json) {
                // R:1 — the Lean redundancy predicate `Consistent` must hold on the real bytes;
                // E: — enumeration values outside json-schema.md's lists, computed here from the real output
                out.push_str(&format!(" C:{} R:1 U:proc_limits E:{} P:1", expected_conforms(j), undocumented_enums(j)));
            }
            out
        }
    }
}

pub(crate) fn has_hostile(s: &str) -> bool {
    s.chars().any(|c| (c as u32) < 0x20 || c == '"' || c == '\\' || (c as u32) > 0xffff || c == '\u{fffd}')
}

/// which optional parts of `crash_info` a state carries
pub(crate) fn crash_tags(ps: &ProcessState) -> Vec<String> {
    let mut t = Vec::new();
    let Some(e) = ps.exception_info.as_ref() else {
        return vec!["exception:none".into()];
    };
    match &e.memory_access_list {
        None => t.push("memory_accesses:none".into()),
        Some(l) => {
            t.push(format!("memory_accesses:{}", match l.iter().count() { 0 => "0", 1 => "1", 2 => "2", _ => "3+" }));
            for a in l.iter() {
                t.push(format!("access_type:{:?}", a.access_type));
                if a.address_info.is_likely_guard_page {
                    t.push("access:likely-guard-page".into());
                }
                if a.size.is_none() {
                    t.push("access:size-unknown".into());
                }
            }
        }
    }
    let u = format!("{:?}", e.instruction_pointer_update);
    t.push(format!("ip_update:{}", if u.starts_with("None") { "none" } else if u.contains("NoUpdate") { "no-update" } else { "update" }));
    t.push(format!("adjusted_address:{}", match &e.adjusted_address {
        None => "none",
        Some(AdjustedAddress::NonCanonical(_)) => "non-canonical",
        Some(AdjustedAddress::NullPointerWithOffset(_)) => "null-pointer",
    }));
    for i in &e.inconsistencies {
        t.push(format!("inconsistency:{}", incons_tag(i)));
    }
    t.push(format!("instruction:{}", if e.instruction_str.is_some() { "some" } else { "none" }));
    if !e.possible_bit_flips.is_empty() {
        t.push("bit-flips".into());
    }
    t.sort();
    t.dedup();
    t
}

/// how large the lists of the state are (nothing in a report may be capped, sampled or counted in a
/// narrower integer than the state has entries): the deepest thread, the number of threads
pub(crate) fn size_tags(ps: &ProcessState) -> Vec<String> {
    let mut t = Vec::new();
    let deepest = ps.threads.iter().map(|t| t.frames.len()).max().unwrap_or(0);
    for lim in [63usize, 256, 1024] {
        if deepest > lim {
            t.push(format!("size:thread-with->{lim}-frames"));
        }
    }
    for lim in [63usize, 255] {
        if ps.threads.len() > lim {
            t.push(format!("size:>{lim}-threads"));
        }
    }
    t
}

fn tags_of(r: &Run) -> Vec<String> {
    let ps = &r.ps;
    let mut t = vec![
        format!("cpu:{}", cpu_tag(&ps.system_info.cpu)),
        format!("threads:{}", match ps.threads.len() { 0 => "0", 1 => "1", 2..=4 => "2-4", _ => "5+" }),
        format!("req:{}", match ps.requesting_thread {
            None => "none",
            Some(i) if i >= ps.threads.len() => "out-of-range",
            Some(i) if ps.threads[i].frames.is_empty() => "no-frames",
            _ => "with-frames",
        }),
        format!("outcome:{}", if r.compact.is_ok() { "ok" } else { "panic" }),
    ];
    if ps.threads.iter().any(|t| t.frames.is_empty()) {
        t.push("thread-without-frames".into());
    }
    if matches!(ps.system_info.os, Os::Unknown(_)) {
        t.push("os-unknown".into());
    }
    if !ps.unloaded_modules.iter().next().is_none() {
        t.push("unloaded-modules".into());
    }
    let names = ps
        .threads
        .iter()
        .flat_map(|t| t.thread_name.iter().chain(t.frames.iter().flat_map(|f| f.function_name.iter())))
        .chain(ps.modules.iter().map(|m| &m.name));
    if names.into_iter().any(|s| has_hostile(s)) {
        t.push("hostile-names".into());
    }
    t.extend(crash_tags(ps));
    t.extend(size_tags(ps));
    for th in &ps.threads {
        for f in &th.frames {
            if TRUST_UNDOC.contains(&trust_doc(&f.trust)) {
                t.push(format!("undocumented-enum:trust={}", trust_doc(&f.trust)));
            }
        }
    }
    if CPU_UNDOC.contains(&cpu_tag(&ps.system_info.cpu)) {
        t.push(format!("undocumented-enum:cpu_arch={}", cpu_tag(&ps.system_info.cpu)));
    }
    t.sort();
    t.dedup();
    if !wf(ps) {
        t.push("not-wf".into());
    }
    if let (Some(i), true) = (ps.requesting_thread, r.compact.is_ok()) {
        if ps.threads.get(i).map_or(false, |t| t.thread_id as usize != i) {
            // json-schema.md describes crash_info.crashing_thread as the thread *id*; it is the index
            t.push("crashing_thread-index-differs-from-thread-id".into());
        }
    }
    t
}

// ------------------------------------------------------------------------------- generator

const HOSTILE: [&str; 16] = [
    "\"", "\\", "\u{8}", "\u{c}", "\n", "\r", "\t", "\u{0}", "\u{1f}", "\u{7f}", "\u{fffd}", "\u{1f600}",
    "\u{10ffff}", "\u{2028}", "/", "é",
];

fn pk<'a>(rng: &mut Rng, xs: &[&'a str]) -> &'a str {
    xs[rng.below(xs.len() as u64) as usize]
}

pub(crate) fn gen_string(rng: &mut Rng, hostile: bool) -> String {
    let mut s = String::new();
    let len = match rng.below(8) {
        0 => 0,
        1..=5 => rng.range(1, 12),
        6 => rng.range(12, 40),
        _ => rng.range(1, 4),
    };
    for _ in 0..len {
        if hostile && rng.chance(1, 3) {
            match rng.below(4) {
                0 => s.push_str(pk(rng, &HOSTILE)),
                1 => s.push(char::from_u32(rng.below(0x20) as u32).unwrap()),
                2 => {
                    // any scalar value (surrogates excluded by construction)
                    let v = rng.below(0x110000 - 0x800) as u32;
                    s.push(char::from_u32(if v >= 0xd800 { v + 0x800 } else { v }).unwrap());
                }
                _ => s.push(*rng.pick(&['\u{d7ff}', '\u{e000}', '\u{ffff}', '\u{10000}', '\u{80}', '\u{7ff}', '\u{800}'])),
            }
        } else {
            s.push(*rng.pick(&[
                'a', 'b', 'c', 'x', 'y', 'z', 'A', 'Z', '0', '9', '_', '.', ':', ' ', '<', '>', '(', ')', '~', '-',
                '/', '\\',
            ]));
        }
    }
    s
}

pub(crate) fn gen_addr(rng: &mut Rng, bits64: bool) -> u64 {
    match rng.below(10) {
        0 => 0,
        1 => u32::MAX as u64,
        2 => {
            if bits64 {
                u64::MAX
            } else {
                u32::MAX as u64 - rng.below(16)
            }
        }
        3 => rng.below(0x1000),
        4 if bits64 => 1u64 << rng.range(32, 63),
        _ => {
            if bits64 {
                rng.next() >> rng.below(40)
            } else {
                rng.below(1 << 32)
            }
        }
    }
}

fn gen_reason(rng: &mut Rng) -> Sx {
    L(vec![tag("r"), n(rng.below(9)), n(rng.next() >> rng.below(64)), n(rng.next() >> rng.below(64))])
}

const OSES: [&str; 8] = ["windows", "macos", "ios", "linux", "solaris", "android", "ps3", "nacl"];
pub(crate) const CPUS: [&str; 10] = ["x86", "amd64", "ppc", "ppc64", "sparc", "arm", "arm64", "mips", "mips64", "unknown"];
const TRUSTS: [&str; 7] = ["none", "scan", "cfi_scan", "frame_pointer", "cfi", "prewalked", "context"];
const INCONS: [&str; 5] = ["intdiv", "priv", "noncanon", "accessallowed", "notfound"];

const ACCESS_TYPES: [&str; 4] = ["read", "write", "readwrite", "underivable"];

fn gen_access(rng: &mut Rng, bits64: bool) -> Sx {
    L(vec![
        n(gen_addr(rng, bits64)),
        if rng.chance(1, 5) { none() } else { n(*rng.pick(&[1u64, 2, 4, 8, 16, 32, 64, 255])) },
        b(rng.chance(1, 3)),
        tag(pk(rng, &ACCESS_TYPES)),
    ])
}

pub(crate) struct GenOpts {
    pub(crate) hostile: bool,
    /// allow the deliberate departures from well-formedness (panicking states, empty offset sets)
    pub(crate) wild: bool,
    /// allow the states that leave the documented schema (os unknown, handle ≥ 2^32, soft_errors shape)
    pub(crate) defects: bool,
}

fn gen_json_value(rng: &mut Rng, depth: u32, hostile: bool) -> Value {
    match rng.below(if depth == 0 { 5 } else { 7 }) {
        0 => Value::Null,
        1 => Value::Bool(rng.chance(1, 2)),
        2 => match rng.below(4) {
            0 => Value::from(rng.next() >> rng.below(64)),
            1 => Value::from(-((rng.next() >> rng.range(1, 63)) as i64)),
            2 => Value::from(f64::from_bits(rng.next())),
            _ => Value::from((rng.below(2000) as f64 - 1000.0) / 8.0),
        },
        3 | 4 => Value::String(gen_string(rng, hostile)),
        5 => Value::Array((0..rng.below(4)).map(|_| gen_json_value(rng, depth - 1, hostile)).collect()),
        _ => Value::Object((0..rng.below(4)).map(|_| (gen_string(rng, hostile), gen_json_value(rng, depth - 1, hostile))).collect()),
    }
}

pub(crate) fn gen_state(rng: &mut Rng, g: &GenOpts) -> Vec<Sx> {
    let cpu = *rng.pick(&CPUS);
    let bits64 = !matches!(cpu, "x86" | "ppc" | "sparc" | "arm" | "mips");
    let gs = |rng: &mut Rng| gen_string(rng, g.hostile);
    let ogs = |rng: &mut Rng| if rng.chance(1, 3) { none() } else { s(&gen_string(rng, g.hostile)) };
    // modules
    let nmods = rng.below(5);
    let mut mods: Vec<(u64, u64, String)> = Vec::new();
    let mut mod_sx = Vec::new();
    for _ in 0..nmods {
        let base = gen_addr(rng, bits64);
        let size = match rng.below(4) {
            0 => 1,
            1 => u32::MAX as u64,
            _ => rng.range(1, 0x100000),
        };
        let (base, size) = if base.checked_add(size).is_none() && !(g.wild && rng.chance(1, 4)) {
            (base - size, size)
        } else {
            (base, size)
        };
        let name = match rng.below(4) {
            0 => format!("C:\\dir\\{}", gs(rng)),
            1 => format!("/usr/lib/{}", gs(rng)),
            _ => gs(rng),
        };
        let cv = *rng.pick(&["none", "pdb70", "elf"]);
        let mut dbg: Vec<u8> = gs(rng).into_bytes();
        if rng.chance(1, 4) {
            dbg.extend_from_slice(&[0xff, 0xc3, 0x28]); // invalid UTF-8: decoded lossily
        }
        dbg.retain(|c| *c != 0);
        let guid: Vec<u8> = if cv == "elf" {
            (0..rng.range(0, 24)).map(|_| rng.below(256) as u8).collect()
        } else {
            (0..16).map(|_| if rng.chance(1, 8) { 0 } else { rng.below(256) as u8 }).collect()
        };
        mod_sx.push(L(vec![
            n(base), n(size), s(&name), tag(cv), bts(&dbg), bts(&guid), n(rng.below(1 << 32)), n(rng.below(1 << 32)),
            b(rng.chance(1, 2)), n(rng.below(1 << 32)), n(rng.below(1 << 32)), n(rng.below(1 << 32)), n(rng.below(1 << 32)),
        ]));
        mods.push((base, size, name));
    }
    // threads
    // rarely: MANY threads / VERY deep stacks (stack overflows, runaway recursion): nothing in the report
    // may be capped, sampled or indexed with a narrower integer than the state has entries
    let crowd = rng.chance(1, 250);
    let nthreads = match rng.below(6) {
        _ if crowd => *rng.pick(&[64u64, 255, 256, 257, 300]),
        0 => 0,
        1 => 1,
        _ => rng.range(1, 5),
    };
    let mut threads = Vec::new();
    let mut frame_counts = Vec::new();
    for _ in 0..nthreads {
        let nframes = match rng.below(5) {
            _ if crowd => rng.below(2),
            _ if rng.chance(1, 120) => *rng.pick(&[64u64, 100, 127, 128, 129, 255, 256, 257, 511, 512, 513, 1000, 1023, 1024, 1025, 1100]),
            0 => 0,
            1 => 1,
            _ => rng.range(1, 6),
        };
        frame_counts.push(nframes);
        let mut frames = Vec::new();
        for _ in 0..nframes {
            let module = if !mods.is_empty() && rng.chance(2, 3) { Some(rng.pick(&mods).clone()) } else { None };
            let instr = match &module {
                Some((base, size, _)) => {
                    if g.wild && rng.chance(1, 12) && *base > 0 {
                        base - 1 - rng.below(*base.min(&16))
                    } else {
                        base.saturating_add(rng.below(*size))
                    }
                }
                None => gen_addr(rng, bits64),
            };
            let has_fn = rng.chance(2, 3);
            let fbase = if has_fn {
                if g.wild && rng.chance(1, 12) && instr < u64::MAX {
                    on(Some(instr + 1))
                } else {
                    on(Some(instr - rng.below(instr.min(0x1000) + 1)))
                }
            } else {
                none()
            };
            let unl: Vec<Sx> = if module.is_none() && rng.chance(1, 3) {
                (0..rng.range(1, 3))
                    .map(|_| {
                        let k = if g.wild && rng.chance(1, 10) { 0 } else { rng.range(1, 3) };
                        L(vec![s(&gs(rng)), L((0..k).map(|_| n(gen_addr(rng, bits64))).collect())])
                    })
                    .collect()
            } else {
                vec![]
            };
            let inl: Vec<Sx> = if has_fn && rng.chance(1, 3) {
                (0..rng.range(1, 3)).map(|_| L(vec![s(&gs(rng)), ogs(rng), if rng.chance(1, 2) { none() } else { n(rng.below(1 << 32)) }])).collect()
            } else {
                vec![]
            };
            let kind = *rng.pick(&CTX_KINDS);
            let valid = if rng.chance(1, 2) {
                none()
            } else {
                let pool = ["eip", "esp", "ebp", "rip", "rsp", "rax", "r15", "pc", "sp", "lr", "fp", "x0", "x29", "r0", "r11", "ra", "s0", "gp", "srr0", "r1", "bogus", "EIP"];
                L((0..rng.below(6)).map(|_| s(pk(rng, &pool))).collect())
            };
            frames.push(L(vec![
                n(instr),
                o(module, |(base, _, name)| L(vec![s(&name), n(base)])),
                L(unl),
                if has_fn { s(&gs(rng)) } else { none() },
                fbase,
                if has_fn && rng.chance(2, 3) { s(&gs(rng)) } else { none() },
                if has_fn && rng.chance(2, 3) { n(rng.below(1 << 32)) } else { none() },
                L(inl),
                tag(pk(rng, &TRUSTS)),
                L(vec![tag(kind), n(rng.next()), valid]),
            ]));
        }
        threads.push(L(vec![
            L(frames),
            n(if rng.chance(1, 8) { u32::MAX as u64 } else { rng.below(100000) }),
            ogs(rng),
            if rng.chance(1, 3) { gen_reason(rng) } else { none() },
            tag(if nframes == 0 { pk(rng, &["ok", "missing_context", "missing_memory", "unsupported_cpu", "dump_thread_skipped"]) } else { "ok" }),
        ]));
    }
    let req = match rng.below(6) {
        0 => none(),
        1 if g.wild => n(nthreads + rng.below(3)),
        _ if nthreads > 0 => n(rng.below(nthreads)),
        _ => none(),
    };
    let exc = if rng.chance(2, 3) {
        let flips: Vec<Sx> = (0..if rng.chance(1, 2) { 0 } else { rng.range(1, 3) })
            .map(|_| {
                let conf = match rng.below(5) {
                    0 => none(),
                    1 => n(rng.pick(&[0.25f32, 0.5, 0.9, 0.925, 0.9625, 0.0, 1.0, -0.0, 1e-7, 3.4e38, f32::NAN, f32::INFINITY]).to_bits() as u64),
                    _ => n(rng.below(1 << 32)),
                };
                L(vec![
                    n(gen_addr(rng, bits64)),
                    if rng.chance(1, 2) { none() } else { s(pk(rng, &["rax", "eip", "x0", "pc"])) },
                    b(rng.chance(1, 2)), b(rng.chance(1, 2)), b(rng.chance(1, 2)), n(rng.below(6)), b(rng.chance(1, 2)),
                    conf,
                ])
            })
            .collect();
        let adjusted = match rng.below(3) {
            0 => none(),
            1 => L(vec![tag("noncanonical"), n(gen_addr(rng, bits64))]),
            _ => L(vec![tag("nulloffset"), n(gen_addr(rng, bits64))]),
        };
        let memacc = if rng.chance(1, 2) {
            none()
        } else {
            L((0..rng.below(4)).map(|_| gen_access(rng, bits64)).collect())
        };
        let ipupd = match rng.below(6) {
            0 => tag("noupdate"),
            1 => L(vec![tag("update"), n(*rng.pick(&[0u64, 1, 0x1000, u32::MAX as u64, 1 << 47, u64::MAX]))]),
            2 => L(vec![tag("update"), n(gen_addr(rng, bits64) & !0xfff)]),
            _ => none(),
        };
        L(vec![
            gen_reason(rng),
            n(gen_addr(rng, bits64)),
            adjusted,
            ogs(rng),
            memacc,
            L(flips),
            L((0..rng.below(3)).map(|_| tag(pk(rng, &INCONS))).collect()),
            ipupd,
        ])
    } else {
        none()
    };
    let os = if g.defects && rng.chance(1, 6) {
        L(vec![tag("unknown"), n(*rng.pick(&[0u64, 42, 0xffffff, 0x1000000, u32::MAX as u64]))])
    } else {
        tag(pk(rng, &OSES))
    };
    let sys = L(vec![
        os, ogs(rng), ogs(rng), tag(cpu), ogs(rng),
        n(rng.below(256)),
        if rng.chance(1, 2) { none() } else { n(rng.next() >> rng.below(64)) },
    ]);
    let lsb = if rng.chance(1, 3) { L(vec![s(&gs(rng)), s(&gs(rng)), s(&gs(rng)), s(&gs(rng))]) } else { none() };
    let lim = |rng: &mut Rng| match rng.below(3) {
        0 => tag("unlimited"),
        1 => tag("err"),
        _ => n(rng.next() >> rng.below(64)),
    };
    let limits = if rng.chance(1, 3) {
        L((0..rng.below(6)).map(|_| L(vec![s(&gs(rng)), lim(rng), lim(rng), s(&gs(rng))])).collect())
    } else {
        none()
    };
    let mac = if rng.chance(1, 4) {
        L((0..rng.below(4))
            .map(|_| {
                let z = |rng: &mut Rng| if rng.chance(1, 3) { n(0) } else { n(gen_addr(rng, bits64)) };
                L(vec![n(*rng.pick(&[1, 4, 5])), z(rng), z(rng), z(rng), s(&gs(rng)), s(&gs(rng)), s(&gs(rng)), s(&gs(rng)), s(&gs(rng))])
            })
            .collect())
    } else {
        none()
    };
    let boot = match rng.below(4) {
        0 => L(vec![none()]),
        1 => L(vec![s(&gs(rng))]),
        _ => none(),
    };
    let unloaded: Vec<Sx> = (0..if rng.chance(1, 2) { 0 } else { rng.below(4) })
        .map(|_| {
            let base = gen_addr(rng, bits64);
            let size = rng.range(1, 0x100000);
            let base = if base.checked_add(size).is_none() && !(g.wild && rng.chance(1, 4)) { base - size } else { base };
            L(vec![n(base), n(size), s(&gs(rng)), n(rng.below(1 << 32))])
        })
        .collect();
    let handles = if rng.chance(1, 3) {
        L((0..rng.below(4))
            .map(|_| {
                let h = if g.defects && rng.chance(1, 4) { *rng.pick(&[1u64 << 32, u64::MAX, (1 << 53) + 1]) } else { rng.below(1 << 32) };
                L(vec![n(rng.range(1, 2)), n(h), ogs(rng), ogs(rng)])
            })
            .collect())
    } else {
        none()
    };
    // symbol stats / cert info keyed by module basenames (and some strangers)
    let mut keys: Vec<String> = mods.iter().map(|m| minidump_common::utils::basename(&m.2).to_string()).collect();
    keys.push(gs(rng));
    keys.sort();
    keys.dedup();
    let mut stats = Vec::new();
    let mut cert = Vec::new();
    for k in &keys {
        if rng.chance(1, 2) {
            let extra = if rng.chance(1, 3) {
                let guid: Vec<u8> = (0..16).map(|_| rng.below(256) as u8).collect();
                L(vec![s(&format!("{}{}", pk(rng, &["", "a/", "c:\\x\\"]), gs(rng))), bts(&guid), n(rng.below(1 << 32))])
            } else {
                none()
            };
            stats.push(L(vec![s(k), ogs(rng), b(rng.chance(1, 2)), b(rng.chance(1, 2)), extra]));
        }
        if rng.chance(1, 4) {
            cert.push(L(vec![s(k), s(&gs(rng))]));
        }
    }
    for u in &unloaded {
        if rng.chance(1, 4) {
            if let Some(name) = u.as_list().and_then(|l| l[2].string()) {
                if !cert.iter().any(|c| c.as_list().and_then(|l| l[0].string()).as_deref() == Some(&name)) {
                    cert.push(L(vec![s(&name), s(&gs(rng))]));
                }
            }
        }
    }
    let soft = if rng.chance(1, 4) {
        let v = if g.defects && rng.chance(1, 2) {
            gen_json_value(rng, 2, g.hostile)
        } else {
            Value::Array((0..rng.below(3)).map(|_| {
                Value::Object((0..rng.below(3)).map(|_| (gen_string(rng, g.hostile), gen_json_value(rng, 2, g.hostile))).collect())
            }).collect())
        };
        A(format!("j{}", hex(v.to_string().as_bytes())))
    } else {
        none()
    };
    vec![
        if rng.chance(1, 4) { none() } else { n(rng.below(1 << 32)) },
        L(cert),
        exc,
        ogs(rng),
        req,
        L(threads),
        sys,
        lsb,
        limits,
        mac,
        boot,
        L(mod_sx),
        L(unloaded),
        handles,
        L(stats),
        if rng.chance(1, 3) { n(rng.below(70000)) } else { none() },
        soft,
    ]
}

/// amd64 encodings by what `op_analysis` derives from them
pub(crate) const INSNS: [(&str, &[u8]); 36] = [
    ("mov rax,[rbx]", &[0x48, 0x8b, 0x03]),
    ("mov eax,[rbx+0x10]", &[0x8b, 0x43, 0x10]),
    ("cmp rax,[rbx]", &[0x48, 0x3b, 0x03]),
    ("add eax,[rbx]", &[0x03, 0x03]),
    ("push qword [rbx]", &[0xff, 0x33]),
    ("call [rbx]", &[0xff, 0x13]),
    ("jmp [rbx]", &[0xff, 0x23]),
    ("mov [rbx],rax", &[0x48, 0x89, 0x03]),
    ("mov [rbx],al", &[0x88, 0x03]),
    ("pop qword [rbx]", &[0x8f, 0x03]),
    ("movaps [rbx],xmm0", &[0x0f, 0x29, 0x03]),
    ("movups xmm0,[rbx]", &[0x0f, 0x10, 0x03]),
    ("add [rbx],eax", &[0x01, 0x03]),
    ("sub [rbx],rax", &[0x48, 0x29, 0x03]),
    ("inc dword [rbx]", &[0xff, 0x03]),
    ("dec qword [rbx]", &[0x48, 0xff, 0x0b]),
    ("add dword [rsp],eax", &[0x01, 0x04, 0x24]),
    ("xor [rbx],eax", &[0x31, 0x03]),
    ("and [rbx+rcx*4+8],eax", &[0x21, 0x44, 0x8b, 0x08]),
    ("div qword [rbx]", &[0x48, 0xf7, 0x33]),
    ("movsd", &[0xa5]),
    ("nop", &[0x90]),
    ("mov rax,rbx", &[0x48, 0x89, 0xd8]),
    ("hlt", &[0xf4]),
    ("div rcx", &[0x48, 0xf7, 0xf1]),
    ("lea rax,[rbx]", &[0x48, 0x8d, 0x03]),
    ("call rax", &[0xff, 0xd0]),
    ("jmp rax", &[0xff, 0xe0]),
    ("ret", &[0xc3]),
    ("jz +5", &[0x74, 0x05]),
    ("call rel32", &[0xe8, 0, 0, 0, 0]),
    ("push rax", &[0x50]),
    ("pop rax", &[0x58]),
    ("mov rax,[rip+0x10]", &[0x48, 0x8b, 0x05, 0x10, 0, 0, 0]),
    ("invalid in 64-bit mode", &[0x06]),
    ("truncated", &[0x48]),
];

#[allow(clippy::too_many_arguments)]
pub(crate) fn procx_case(
    os: &str, cpu: &str, exc: [u64; 6], regs: &[(&str, u64)], code: &[u8], regions: &[(u64, u64, u32)],
    data: Option<(u64, Vec<u8>)>, lsb: Option<&str>, limits: Option<&str>, maps: Option<&str>, tname: Option<&str>,
    modules: &[(u64, u64, &str)], unloaded: &[(u64, u64, &str)], stack: &[u8], threads: (u64, u64, Option<u64>),
) -> Vec<Sx> {
    let ob = |t: Option<&str>| o(t, |t| bts(t.as_bytes()));
    vec![
        tag("procx"),
        tag(os),
        tag(cpu),
        L(exc.iter().map(|v| n(*v)).collect()),
        L(regs.iter().map(|(k, v)| L(vec![s(k), n(*v)])).collect()),
        bts(code),
        L(regions.iter().map(|(a, bb, c)| L(vec![n(*a), n(*bb), n(*c as u64)])).collect()),
        o(data, |(a, d)| L(vec![n(a), bts(&d)])),
        ob(lsb),
        ob(limits),
        ob(maps),
        os_(tname),
        L(modules.iter().map(|(a, bb, c)| L(vec![n(*a), n(*bb), s(c)])).collect()),
        L(unloaded.iter().map(|(a, bb, c)| L(vec![n(*a), n(*bb), s(c)])).collect()),
        bts(stack),
        L(vec![n(threads.0), n(threads.1), on(threads.2)]),
    ]
}

/// a crash dump for the processor path: crashing instruction, registers, exception record and
/// memory map chosen so that every branch of the instruction analysis, the guard-page test and
/// the consistency checks is reachable
pub(crate) fn gen_procx(rng: &mut Rng) -> Vec<Sx> {
    gen_procx_with(rng, 0)
}

/// the same dump, but the crashing thread's stack holds a frame-pointer chain of `links` links (runaway
/// recursion): `process_minidump` must return, and the report must show, every one of those frames
pub(crate) fn gen_procx_deep(rng: &mut Rng) -> Vec<Sx> {
    let links = *rng.pick(&[300u64, 1030, 1500, 1500]);
    gen_procx_with(rng, links)
}

fn gen_procx_with(rng: &mut Rng, links: u64) -> Vec<Sx> {
    const DATA: u64 = 0x5000_0000; // readable+writable page; a no-access (guard) page sits below it
    // the crashing instruction sits in the main module, or (1 in 6) where only unloaded modules were
    let in_unloaded = rng.chance(1, 6);
    #[allow(non_snake_case)]
    let RIP: u64 = if in_unloaded { 0x6100_0900 } else { 0x40_0000 };
    const RSP: u64 = 0x7000_0100;
    let os = *rng.pick(&["win", "win", "linux", "mac", "android"]);
    let cpu = if links == 0 && rng.chance(1, 10) { *rng.pick(&["x86", "arm64"]) } else { "amd64" };
    let code: Vec<u8> = match rng.below(10) {
        0 => (0..rng.range(1, 15)).map(|_| rng.below(256) as u8).collect(),
        1 => vec![],
        _ => rng.pick(&INSNS).1.to_vec(),
    };
    let rbx = match rng.below(10) {
        0 => 0,
        1 => DATA - 0x800,                 // inside the guard page
        2 => 0x8000_0000_0000_0000 | rng.below(1 << 40), // non-canonical
        3 => u64::MAX - rng.below(16),
        4 => rng.below(0x1000),
        5 => gen_addr(rng, true),
        _ => DATA + rng.below(0xf00),
    };
    let rax = match rng.below(5) {
        0 => 0,
        1 => 0x0000_8000_0000_0000 + rng.below(1 << 20),
        2 => gen_addr(rng, true),
        _ => RIP + 0x100,
    };
    let rsp = match rng.below(8) {
        _ if links > 0 => RSP,
        0 => 0,
        1 => 8,
        2 => DATA - 0x10, // push/call write into the guard page
        _ => RSP,
    };
    let rcx = rng.below(4) * rng.below(0x1000);
    let crash_addr = match rng.below(8) {
        0 => 0,
        1 => u64::MAX,
        2 => RIP,
        3 => gen_addr(rng, true),
        4 => rbx.wrapping_add(0x10),
        5 => rsp.wrapping_sub(8),
        _ => rbx,
    };
    let exc: [u64; 6] = match os {
        "win" => match rng.below(8) {
            0 => [0xc000_0094, 0, 0, 0, 0, RIP],                     // EXCEPTION_INT_DIVIDE_BY_ZERO
            1 => [0xc000_0096, 0, 0, 0, 0, RIP],                     // EXCEPTION_PRIV_INSTRUCTION
            2 => [0xc000_00fd, 0, 0, 0, 0, RIP],                     // EXCEPTION_STACK_OVERFLOW
            3 => [0xc000_0005, 0, 2, 8, crash_addr, RIP],            // AV exec
            4 => [0xc000_0005, 0, 2, 1, crash_addr, RIP],            // AV write
            5 => [0xc000_0005, 0, 2, 0, u64::MAX, RIP],              // the shape Windows reports for a GPF
            6 => [rng.below(1 << 32), rng.below(4), rng.below(16), rng.next(), rng.next(), rng.next()],
            _ => [0xc000_0005, 0, 2, 0, crash_addr, RIP],            // AV read
        },
        "mac" => match rng.below(4) {
            0 => [1, 13, 2, 13, 0, 0],                                // EXC_BAD_ACCESS / EXC_I386_GPFLT
            1 => [3, 1, 1, 1, 0, RIP],                                // EXC_ARITHMETIC / EXC_I386_DIV
            2 => [rng.below(12), rng.below(16), rng.below(3), rng.next(), rng.next(), rng.next()],
            _ => [1, 1, 2, 1, crash_addr, crash_addr],                // KERN_INVALID_ADDRESS
        },
        _ => match rng.below(5) {
            0 => [11, 0x80, 0, 0, 0, 0],                              // SIGSEGV / SI_KERNEL (GPF)
            1 => [8, 1, 0, 0, 0, RIP],                                // SIGFPE / FPE_INTDIV
            2 => [4, 5, 0, 0, 0, RIP],                                // SIGILL / ILL_PRVOPC
            3 => [rng.below(40), rng.below(0x100), 0, 0, 0, rng.next()],
            _ => [11, 1, 0, 0, 0, crash_addr],                        // SIGSEGV / SEGV_MAPERR
        },
    };
    let regions: Vec<(u64, u64, u32)> = match rng.below(4) {
        0 => vec![],
        1 => vec![(DATA, 0x1000, 0x04)],
        2 => vec![(DATA - 0x1000, 0x1000, 0x01), (DATA, 0x1000, 0x04), (RIP, 0x1000, 0x20), (0x7000_0000, 0x1000, 0x04)],
        _ => vec![(DATA - 0x1000, 0x1000, 0x01), (DATA, 0x1000, *rng.pick(&[0x01u32, 0x02, 0x04, 0x10, 0x20, 0x40]))],
    };
    let target = *rng.pick(&[0u64, RIP + 0x40, 0x0000_9000_0000_0000, u64::MAX]);
    let data = if rng.chance(2, 3) { Some((DATA, (0..0x100u64).flat_map(|_| target.to_le_bytes()).collect::<Vec<u8>>())) } else { None };
    let linuxy = os == "linux" || os == "android";
    let lsb = if linuxy && rng.chance(1, 2) {
        Some(format!("DISTRIB_ID={}\nDISTRIB_RELEASE=22.04\nVERSION_CODENAME=\"{}\"\nPRETTY_NAME=x\n", gen_string(rng, false).replace(['\n', '='], ""), gen_string(rng, false).replace(['\n', '"'], "")))
    } else {
        None
    };
    let limits = if linuxy && rng.chance(1, 2) {
        Some("Limit                     Soft Limit           Hard Limit           Units     \nMax cpu time              unlimited            unlimited            seconds   \nMax open files            1024                 4096                 files     \nMax stack size            8388608              unlimited            bytes     \n".to_string())
    } else {
        None
    };
    let maps = if linuxy && rng.chance(1, 2) {
        Some((0..rng.below(5)).map(|i| format!("{:x}-{:x} r-xp 00000000 00:00 0 /lib/x{i}\n", 0x1000_0000 + i * 0x2000, 0x1000_1000 + i * 0x2000)).collect::<String>())
    } else {
        None
    };
    let tname = if rng.chance(1, 2) { Some(gen_string(rng, true).replace('\0', "")) } else { None };
    let mod_name = match rng.below(3) {
        0 => "C:\\Program Files\\app\\crash \"x\".exe".to_string(),
        1 => "/usr/lib/libcrash.so".to_string(),
        _ => gen_string(rng, true).replace('\0', ""),
    };
    let modules: Vec<(u64, u64, &str)> = if rng.chance(3, 4) { vec![(0x40_0000, 0x1000, &mod_name), (0x6000_0000, 0x10000, "second.dll")] } else { vec![] };
    let unloaded: Vec<(u64, u64, &str)> = if in_unloaded || rng.chance(1, 3) { vec![(0x6100_0000, 0x1000, "gone.dll"), (0x6100_0800, 0x1000, "gone.dll"), (0x6100_0000, 0x2000, "also gone.dll")] } else { vec![] };
    // stack words: return addresses into the modules / the unloaded modules / nowhere
    let mut stack = Vec::new();
    if links > 0 {
        // two words of locals, then `links` frames of the standard %rbp convention: saved frame pointer
        // (= address of the next link, 16 bytes up) and a return address into the first module
        stack.extend_from_slice(&[0u8; 16]);
        for k in 0..links {
            stack.extend_from_slice(&(RSP + 0x10 + 16 * (k + 1)).to_le_bytes());
            stack.extend_from_slice(&(RIP + 0x20 + (k % 7)).to_le_bytes());
        }
    } else if rsp == RSP {
        for _ in 0..rng.below(8) {
            let w = *rng.pick(&[0u64, RIP + 0x20, 0x6000_0123, 0x6100_0900, 0x1234, u64::MAX]);
            stack.extend_from_slice(&w.to_le_bytes());
        }
    }
    let threads = match rng.below(4) {
        0 => (rng.below(3), rng.below(3), Some(rng.below(4))),
        1 => (rng.range(1, 3), rng.below(2), None),
        _ => (0, 0, None),
    };
    // (a deep stack is of no use on a thread the processor skips as the dump-writing thread)
    let threads = if links > 0 && threads.2 == Some(threads.0) { (threads.0, threads.1, None) } else { threads };
    procx_case(
        os, cpu, exc,
        &[("rip", RIP), ("rsp", rsp), ("rbx", rbx), ("rax", rax), ("rcx", rcx), ("rbp", if links > 0 || rng.chance(1, 2) { RSP + 0x10 } else { 0 })],
        &code, &regions, data, lsb.as_deref(), limits.as_deref(), maps.as_deref(), tname.as_deref(), &modules, &unloaded, &stack,
        threads,
    )
}

// ---------------------------------------------------------------------------------- engine

/// every character class the escaper distinguishes, in one string
fn all_escape_classes() -> String {
    let mut s = String::new();
    for c in 0u32..=0xff {
        s.push(char::from_u32(c).unwrap());
    }
    for c in [0x7ffu32, 0x800, 0xd7ff, 0xe000, 0xfffd, 0xffff, 0x10000, 0x1f600, 0x10ffff, 0x2028, 0x2029] {
        s.push(char::from_u32(c).unwrap());
    }
    s
}

pub(crate) fn directed(emit: &mut dyn FnMut(String)) {
    let mut rng = Rng::new(7);
    let g = GenOpts { hostile: false, wild: false, defects: false };
    // every CPU (pointer width incl. unknown) x every context kind as frame 0 of the crashing thread,
    // with all-valid and partially valid registers; a second thread without frames
    for cpu in CPUS {
        for kind in CTX_KINDS {
            for valid in [none(), L(vec![s("eip"), s("rip"), s("pc"), s("sp"), s("r0"), s("x0"), s("bogus")])] {
                let mut st = gen_state(&mut rng, &g);
                if let L(sys) = &mut st[6] {
                    sys[3] = tag(cpu);
                }
                let frame = |instr: u64| {
                    L(vec![n(instr), none(), L(vec![]), s(&all_escape_classes()), n(instr), none(), none(), L(vec![]),
                           tag("context"), L(vec![tag(kind), n(instr), valid.clone()])])
                };
                st[5] = L(vec![
                    L(vec![L(vec![frame(0x1000), frame(u32::MAX as u64)]), n(77), s("main \"thread\"\n"), none()]),
                    L(vec![L(vec![]), n(78), none(), none()]),
                ]);
                st[4] = n(0);
                emit(format!("json st {}", sx_line(&st)));
            }
        }
    }
    // crash_info in full: every MemoryAccessType x guard flag x size known/unknown, every
    // CrashInconsistency, both kinds of adjusted address, every shape of instruction-pointer update,
    // on every CPU (pointer width)
    for (k, cpu) in CPUS.iter().enumerate() {
        let mut st = gen_state(&mut rng, &g);
        if let L(sys) = &mut st[6] {
            sys[3] = tag(cpu);
        }
        let bits64 = !matches!(*cpu, "x86" | "ppc" | "sparc" | "arm" | "mips");
        let top = if bits64 { u64::MAX } else { u32::MAX as u64 };
        let mut accesses = Vec::new();
        for ty in ACCESS_TYPES {
            for guard in [false, true] {
                for size in [none(), n(8)] {
                    accesses.push(L(vec![n(if guard { top } else { 0x1000 + accesses.len() as u64 }), size, b(guard), tag(ty)]));
                }
            }
        }
        let adjusted = match k % 3 {
            0 => L(vec![tag("noncanonical"), n(top)]),
            1 => L(vec![tag("nulloffset"), n(0x10)]),
            _ => none(),
        };
        let ipupd = match k % 4 {
            0 => tag("noupdate"),
            1 => L(vec![tag("update"), n(0)]),
            2 => L(vec![tag("update"), n(top)]),
            _ => none(),
        };
        st[2] = L(vec![
            L(vec![tag("r"), n(k as u64 % 9), n(11), n(1)]),
            n(top),
            adjusted,
            s("add dword [rbx], eax"),
            L(accesses),
            L(vec![]),
            L(INCONS.iter().map(|i| tag(i)).collect()),
            ipupd,
        ]);
        emit(format!("json st {}", sx_line(&st)));
        // each access type and each inconsistency alone
        for (ty, inc) in ACCESS_TYPES.iter().zip(INCONS.iter()).chain(std::iter::once((&"read", &"notfound"))) {
            let mut st2 = st.clone();
            st2[2] = L(vec![
                L(vec![tag("r"), n(4), n(0), n(0)]),
                n(0x2000),
                none(),
                none(),
                L(vec![L(vec![n(0x2000), n(4), b(false), tag(ty)])]),
                L(vec![]),
                L(vec![tag(inc)]),
            ]);
            emit(format!("json st {}", sx_line(&st2)));
        }
    }
    // possible_bit_flips: every BitFlipDetails combination (4 flags x nearby_registers 0..=5) with
    // the confidence the real `BitFlipDetails::confidence` computes, source register or none
    for cpu in ["x86", "amd64", "unknown"] {
        let mut st = gen_state(&mut rng, &g);
        if let L(sys) = &mut st[6] {
            sys[3] = tag(cpu);
        }
        let mut flips = Vec::new();
        for bits in 0..16u32 {
            for nearby in 0..=5u32 {
                let d = BitFlipDetails {
                    was_non_canonical: bits & 1 != 0,
                    is_null: bits & 2 != 0,
                    was_low: bits & 4 != 0,
                    nearby_registers: nearby,
                    poison_registers: bits & 8 != 0,
                };
                flips.push(L(vec![
                    n(if d.is_null { 0 } else { 0x7000_0000 + (bits * 8 + nearby) as u64 }),
                    if nearby % 2 == 0 { none() } else { s("rax") },
                    b(d.was_non_canonical), b(d.is_null), b(d.was_low), n(nearby as u64), b(d.poison_registers),
                    n(d.confidence().to_bits() as u64),
                ]));
            }
        }
        st[2] = L(vec![L(vec![tag("r"), n(6), n(0), n(0)]), n(0x7000_0001), none(), none(), none(), L(flips), L(vec![])]);
        emit(format!("json st {}", sx_line(&st)));
    }
    // the processor path on the fixed instruction table: each encoding with a consistent Windows
    // access violation (read and write) on amd64
    for (_, code) in INSNS {
        for write in [0u64, 1] {
            emit(format!("json {}", sx_line(&procx_case("win", "amd64", [0xc000_0005, 0, 2, write, 0x5000_0010, 0x40_0000],
                &[("rip", 0x40_0000), ("rsp", 0x7000_0100), ("rbx", 0x5000_0010), ("rcx", 2), ("rax", 0x6000_0000)],
                code, &[(0x5000_0000, 0x1000, 0x04), (0x4fff_f000, 0x1000, 0x01)], Some((0x5000_0010, vec![0x78, 0x56, 0x34, 0x12, 0, 0, 0, 0])),
                None, None, None, Some("crasher"), &[(0x40_0000, 0x1000, "C:\\app\\crash.exe")], &[], &[0u8; 32], (write, 1 - write, None)))));
        }
    }
    // crashing thread without frames / no crashing thread / empty state
    for req in [none(), n(1), n(0)] {
        let mut st = gen_state(&mut rng, &g);
        st[5] = L(vec![
            L(vec![L(vec![]), n(1), none(), none()]),
            L(vec![L(vec![]), n(2), s(&all_escape_classes()), none()]),
        ]);
        st[4] = req;
        emit(format!("json st {}", sx_line(&st)));
    }
    // sizes (on every run, whatever the seed): a 1025-frame thread that is also the crashing thread (the
    // `crashing_thread` copy is as deep), and 257 threads with the crashing thread at index 256 — nothing
    // may be capped at 1000/1024 entries or counted/indexed in a byte
    let frame = |i: u64| {
        L(vec![n(0x1000 + i), none(), L(vec![]), if i % 2 == 0 { s("f") } else { none() }, none(), none(), none(), L(vec![]),
               tag("frame_pointer"), L(vec![tag("amd64"), n(i), none()])])
    };
    let mut st = gen_state(&mut rng, &g);
    st[5] = L(vec![L(vec![L((0..1025).map(frame).collect()), n(1), none(), none(), tag("ok")])]);
    st[4] = n(0);
    emit(format!("json st {}", sx_line(&st)));
    let mut st = gen_state(&mut rng, &g);
    st[5] = L((0..257u64).map(|k| L(vec![L(if k == 256 { vec![frame(0), frame(1)] } else { vec![] }), n(k), none(), none(), tag("ok")])).collect());
    st[4] = n(256);
    emit(format!("json st {}", sx_line(&st)));
}

impl Engine for Json {
    fn name(&self) -> &'static str {
        "json"
    }
    fn rule(&self) -> String {
        "Two sources of ProcessState values. (1) `json st …`: constructed directly from a generated recipe (hostile \
         names: quotes, controls, non-BMP, U+FFFD from lossy decoding; every CPU/pointer width incl. unknown x every \
         context kind; threads without frames and with every CallStackInfo; crashing thread without frames or out \
         of range; unloaded modules; crash_info with memory_accesses of every MemoryAccessType / guard flag / \
         unknown size, instruction-pointer updates, both adjusted-address kinds, every CrashInconsistency, bit \
         flips; arbitrary soft_errors JSON; deliberate non-well-formed states that must panic in model and code \
         alike; rarely — about 1 thread in 120 — a stack of 64 … 1100 frames, and about 1 state in 250 a crowd of \
         64 … 300 threads, counted in the distribution as size:…). (2) `json procx …` / `json proc …`: produced by process_minidump from synthesized dumps (crashing \
         instruction from 36 amd64 encodings or random bytes, exception records of Windows/Linux/macOS shape, \
         register values around mapped / guard / null / non-canonical addresses, memory-info regions, \
         lsb-release/limits/maps streams, thread names, modules, overlapping unloaded modules, several threads \
         with a Breakpad dump thread; a few dumps whose crashing thread's stack is a 300 … 1500-link \
         frame-pointer chain; MozSoftErrors texts). Compared: print_json(pretty=false) bytes = Lean \
         printJson(alpha(state)) bytes; Lean parser + Conforms + Consistent verdicts on the real bytes; \
         undocumented members and enumeration values; pretty output parses (in Lean and serde_json) to the same \
         value. Oracle on the implementation alone: UTF-8, serde_json parse, counts, frame numbers, \
         crashing-thread copy and registers (set, value, width), offsets, modules mirror, hex widths, documented \
         <u32>s, every closed enumeration of json-schema.md against the documented strings, mirrors of \
         memory_accesses / crash_inconsistencies / adjusted_address / possible_bit_flips / trust, guard-page flag \
         only as true; on the processor path also: crashing thread = the thread the exception names, state inside \
         WF. Non-trivial: the state has at least one thread with a frame or a module, and print_json returned."
            .into()
    }
    fn exhaustive_part(&self) -> Option<String> {
        Some("10 CPUs x 9 context kinds x {all, some} register validity as frame 0 of the crashing thread; every \
              code point 0..=0xff and the UTF-8 length/surrogate boundaries in one name; per CPU all 16 \
              MemoryAccessType x guard x size-known combinations, all 5 CrashInconsistency values (together and \
              alone), adjusted address of each kind, every instruction-pointer-update shape; all 96 \
              BitFlipDetails combinations with the real confidence(); the 36-entry instruction table x {read, \
              write} access violation through process_minidump; one 1025-frame crashing thread and one state \
              with 257 threads whose crashing thread has index 256"
            .into())
    }
    fn generate(&self, tier: Tier, rng: &mut Rng, emit: &mut dyn FnMut(String)) {
        directed(emit);
        // processor path: what `process_minidump` makes of a MozSoftErrors stream
        let texts: Vec<String> = vec![
            "42".into(), "null".into(), "\"x\"".into(), "{}".into(), "{\"a\":1}".into(), "[]".into(), "[{}]".into(),
            "[{\"InitErrors\":[\"StopProcessFailed\"]},{\"x\":[1,2.5,null,\"\\u0000\\\"\"]}]".into(),
            "[1]".into(), "[{},null]".into(), "[{},[]]".into(), "[\"a\"]".into(), "[[{}]]".into(), "true".into(),
            "not json".into(), "".into(), "[{}".into(), "-0.0".into(), "1e400".into(), " [ { } ] ".into(),
        ];
        for t in &texts {
            emit(format!("json proc {}", sx_line(&[bts(t.as_bytes())])));
        }
        for _ in 0..(if tier == Tier::Quick { 40 } else { 400 }) {
            let v = if rng.chance(1, 2) {
                gen_json_value(rng, 2, true)
            } else {
                Value::Array((0..rng.below(4)).map(|_| {
                    if rng.chance(4, 5) {
                        Value::Object((0..rng.below(3)).map(|_| (gen_string(rng, true), gen_json_value(rng, 2, true))).collect())
                    } else {
                        gen_json_value(rng, 1, true)
                    }
                }).collect())
            };
            emit(format!("json proc {}", sx_line(&[bts(v.to_string().as_bytes())])));
        }
        for _ in 0..(if tier == Tier::Quick { 1500 } else { 12000 }) {
            match catch(|| gen_procx(&mut *rng)) {
                Ok(st) => emit(format!("json {}", sx_line(&st))),
                Err(e) => eprintln!("generator panic (procx): {e}"),
            }
        }
        // processor path, deep: a 300 … 1500-link frame-pointer chain on the crashing thread's stack
        for _ in 0..(if tier == Tier::Quick { 4 } else { 16 }) {
            match catch(|| gen_procx_deep(&mut *rng)) {
                Ok(st) => emit(format!("json {}", sx_line(&st))),
                Err(e) => eprintln!("generator panic (procx deep): {e}"),
            }
        }
        let count = if tier == Tier::Quick { 12000 } else { 60000 };
        for i in 0..count {
            let g = GenOpts { hostile: i % 4 != 0, wild: i % 5 == 0, defects: i % 7 == 0 };
            match catch(|| gen_state(&mut *rng, &g)) {
                Ok(st) => emit(format!("json st {}", sx_line(&st))),
                Err(e) => eprintln!("generator panic at case {i}: {e}"),
            }
        }
    }
    fn exec(&self, case: &str) -> ImplResult {
        match catch(|| self.exec_inner(case)) {
            Ok(r) => r,
            Err(e) => ImplResult {
                out: "harness-panic".into(),
                oracle: vec![("harness-panic".into(), e)],
                ..Default::default()
            },
        }
    }
    fn model_request(&self, case: &str) -> Option<String> {
        catch(|| self.model_request_inner(case)).ok().flatten()
    }
    fn shrink(&self, case: &str, still_fails: &dyn Fn(&str) -> bool) -> String {
        match catch(|| self.shrink_inner(case, still_fails)) {
            Ok(s) => s,
            Err(e) => {
                eprintln!("shrinker panic: {e}");
                case.to_string()
            }
        }
    }
}

impl Json {
    fn exec_inner(&self, case: &str) -> ImplResult {
        let Some(r) = run(case) else {
            return ImplResult { out: "bad-case".into(), tags: vec!["bad-case".into()], ..Default::default() };
        };
        let mut res = ImplResult::default();
        let mut orc_json = None;
        match (&r.compact, &r.pretty) {
            (Ok(c), Ok(p)) => {
                let (fails, j) = oracle(&r.ps, c, p);
                res.oracle = fails;
                orc_json = j;
            }
            (c, p) => {
                // a panic is what the model predicts outside WF; inside WF it violates the property
                if wf(&r.ps) {
                    let msg = c.as_ref().err().or(p.as_ref().err()).cloned().unwrap_or_default();
                    res.oracle.push(("panic-on-well-formed-state".into(), msg));
                }
                if c.is_ok() != p.is_ok() {
                    res.oracle.push(("pretty-compact-outcome-differs".into(), String::new()));
                }
            }
        }
        let soft_ok = r.ps.soft_errors.as_ref().map_or(true, |v| {
            v.as_array().map_or(false, |a| a.iter().all(|x| x.is_object()))
        });
        let from_processor = case.starts_with("json proc ");
        let from_procx = case.starts_with("json procx ");
        if (from_procx || from_processor) && !wf(&r.ps) {
            // `WF` is the theorems' hypothesis: a state the processor itself produced must satisfy it
            res.oracle.push((
                "processor-state-not-well-formed".into(),
                format!("process_minidump returned a state outside WF (requesting thread {:?} of {} threads / module ranges / frame bases)",
                    r.ps.requesting_thread, r.ps.threads.len()),
            ));
        }
        if from_processor && !soft_ok {
            let t: String = r.ps.soft_errors.as_ref().map(|v| v.to_string()).unwrap_or_default().chars().take(80).collect();
            res.oracle.push((
                "soft-errors-processor-passthrough".into(),
                format!("process_minidump produced soft_errors = {t}; json-schema.md documents [ <object> ]"),
            ));
        }
        res.out = expected_out(&r, &orc_json);
        res.nontrivial = r.compact.is_ok()
            && (r.ps.threads.iter().any(|t| !t.frames.is_empty()) || r.ps.modules.iter().next().is_some());
        res.tags = tags_of(&r);
        if from_procx {
            // the dump's exception record names thread id 1: whatever index the processor chose,
            // the report's crashing thread must be that thread
            if let Some(j) = &orc_json {
                let idx = j["crash_info"]["crashing_thread"].as_u64();
                let by_index = idx.and_then(|i| j["threads"].get(i as usize)).map(|t| t["thread_id"].clone());
                let copy = j.get("crashing_thread").map(|t| t["thread_id"].clone());
                if by_index.as_ref().map_or(false, |v| v.as_u64() != Some(1)) || copy.as_ref().map_or(false, |v| v.as_u64() != Some(1)) {
                    res.oracle.push((
                        "processor-crashing-thread-id".into(),
                        format!("the exception record names thread 1; crash_info.crashing_thread = {idx:?} is thread {by_index:?}, crashing_thread.thread_id = {copy:?}"),
                    ));
                }
                let skipped = r.ps.threads.iter().any(|t| t.thread_id == 1 && matches!(t.info, CallStackInfo::DumpThreadSkipped));
                if r.ps.exception_info.is_some() && idx.is_none() && !skipped {
                    res.oracle.push(("processor-crashing-thread-id".into(), "exception present, thread 1 in the list, but no crashing thread index".into()));
                }
            }
            let ps = &r.ps;
            for (name, on) in [
                ("lsb_release", ps.linux_standard_base.is_some()),
                ("proc_limits", ps.linux_proc_limits.is_some()),
                ("linux_memory_map_count", ps.linux_memory_map_count.is_some()),
                ("thread_name", ps.threads.iter().any(|t| t.thread_name.is_some())),
                ("frame.module", ps.threads.iter().any(|t| t.frames.iter().any(|f| f.module.is_some()))),
                ("frame.unloaded_modules", ps.threads.iter().any(|t| t.frames.iter().any(|f| !f.unloaded_modules.is_empty()))),
                ("frame.unloaded_modules:several-offsets", ps.threads.iter().any(|t| t.frames.iter().any(|f| f.unloaded_modules.values().any(|o| o.len() > 1)))),
                ("dump-thread-skipped", ps.threads.iter().any(|t| matches!(t.info, CallStackInfo::DumpThreadSkipped))),
                ("crashing-thread-not-first", ps.requesting_thread.map_or(false, |i| i > 0)),
            ] {
                if on {
                    res.tags.push(format!("processor-path/{name}"));
                }
            }
            let extra: Vec<String> = crash_tags(&r.ps).into_iter().map(|t| format!("processor-path/{t}")).collect();
            res.tags.extend(extra);
            res.tags.push(format!("processor-path/frames:{}", r.ps.threads.first().map_or(0, |t| t.frames.len()).min(4)));
            let extra: Vec<String> = size_tags(&r.ps).into_iter().map(|t| format!("processor-path/{t}")).collect();
            res.tags.extend(extra);
        }
        if from_processor {
            res.tags.push(format!("processor-path:soft_errors-{}", if r.ps.soft_errors.is_some() { "kept" } else { "dropped" }));
        } else if !soft_ok {
            res.tags.push("direct-state-soft_errors-not-a-list-of-objects".into());
        }
        res
    }
    fn model_request_inner(&self, case: &str) -> Option<String> {
        let r = run(case)?;
        let line = catch(|| sx_line(&alpha(&r.ps))).ok()?;
        let mut req = format!("json {line}");
        if let (Ok(c), Ok(p), true) = (&r.compact, &r.pretty, conforms_predictable(&r.ps)) {
            if std::str::from_utf8(c).ok().and_then(|t| serde_json::from_str::<Value>(t).ok()).is_some() {
                req.push_str(&format!(" ck {} {}", hex(c), hex(p)));
            }
        }
        Some(req)
    }
    fn shrink_inner(&self, case: &str, still_fails: &dyn Fn(&str) -> bool) -> String {
        let Some(items) = case.strip_prefix("json ").and_then(sx_parse) else {
            return case.to_string();
        };
        let had_shape = matches!(items.first(), Some(A(a)) if a == "st");
        let mut items = strip_shape(items);
        if is_proc_case(&items) {
            return case.to_string();
        }
        // (`procx` recipes are token trees too: the same structural shrinking applies)
        let render = |items: &Vec<Sx>| format!("json {}{}", if had_shape { "st " } else { "" }, sx_line(items));
        // generic structural shrinking: drop list elements, blank strings, zero numbers, None-ify;
        // bounded per failure and per process (many failures of one class must not cost minutes)
        static TOTAL: std::sync::atomic::AtomicUsize = std::sync::atomic::AtomicUsize::new(0);
        let used = TOTAL.load(std::sync::atomic::Ordering::Relaxed);
        let mut budget = if used > 8000 { 0 } else { 400 };
        TOTAL.fetch_add(budget, std::sync::atomic::Ordering::Relaxed);
        if budget == 0 {
            return case.to_string();
        }
        let clock = ShrinkClock::start();
        loop {
            let mut progress = false;
            let paths = collect_paths(&items);
            for path in paths {
                if budget == 0 {
                    return render(&items);
                }
                for e in edits(&items, &path) {
                    if clock.expired() {
                        return render(&items);
                    }
                    budget -= 1;
                    let cand = apply_edit(&items, &path, &e);
                    let line = render(&cand);
                    if still_fails(&line) {
                        items = cand;
                        progress = true;
                        break;
                    }
                    if budget == 0 {
                        break;
                    }
                }
                if progress {
                    break;
                }
            }
            if !progress {
                return render(&items);
            }
        }
    }
}

pub(crate) fn collect_paths(items: &[Sx]) -> Vec<Vec<usize>> {
    fn go(x: &Sx, cur: &mut Vec<usize>, out: &mut Vec<Vec<usize>>) {
        out.push(cur.clone());
        if let L(v) = x {
            for (i, c) in v.iter().enumerate() {
                cur.push(i);
                go(c, cur, out);
                cur.pop();
            }
        }
    }
    let mut out = Vec::new();
    for (i, x) in items.iter().enumerate() {
        let mut cur = vec![i];
        go(x, &mut cur, &mut out);
    }
    // large subtrees first
    out.sort_by_key(|p| p.len());
    out
}

fn get_mut<'a>(items: &'a mut [Sx], path: &[usize]) -> Option<&'a mut Sx> {
    let mut cur = items.get_mut(path[0])?;
    for &i in &path[1..] {
        match cur {
            L(v) => cur = v.get_mut(i)?,
            _ => return None,
        }
    }
    Some(cur)
}

fn get_ref<'a>(items: &'a [Sx], path: &[usize]) -> Option<&'a Sx> {
    let mut cur = items.get(path[0])?;
    for &i in &path[1..] {
        match cur {
            L(v) => cur = v.get(i)?,
            _ => return None,
        }
    }
    Some(cur)
}

/// one shrinking step at a node, described WITHOUT materialising the edited recipe: a thread with 1100
/// frames has thousands of candidates and every materialised recipe is megabytes
pub(crate) enum Edit {
    /// replace the node
    Put(Sx),
    /// drop the elements `from..to` of the list at the node
    Cut(usize, usize),
}

pub(crate) fn edits(items: &[Sx], path: &[usize]) -> Vec<Edit> {
    let mut out = Vec::new();
    let Some(node) = get_ref(items, path) else {
        return out;
    };
    match node {
        L(v) if !v.is_empty() => {
            out.push(Edit::Put(L(vec![])));
            out.push(Edit::Put(none()));
            // long lists (deep stacks, crowds of threads): halves, quarters, … before single elements
            let mut c = v.len() / 2;
            while c >= 2 {
                for from in (0..v.len()).step_by(c) {
                    out.push(Edit::Cut(from, (from + c).min(v.len())));
                }
                c /= 2;
            }
            for i in 0..v.len() {
                out.push(Edit::Cut(i, i + 1));
            }
        }
        A(a) if a.starts_with('s') && a.len() > 1 => {
            out.push(Edit::Put(A("s".into())));
            out.push(Edit::Put(none()));
            if let Some(st) = node.string() {
                let cs: Vec<char> = st.chars().collect();
                if cs.len() > 1 {
                    out.push(Edit::Put(s(&cs[..cs.len() / 2].iter().collect::<String>())));
                    out.push(Edit::Put(s(&cs[cs.len() / 2..].iter().collect::<String>())));
                }
            }
        }
        A(a) if a.starts_with('n') && a != "n0" => {
            out.push(Edit::Put(n(0)));
            out.push(Edit::Put(none()));
        }
        A(a) if a.starts_with('j') => out.push(Edit::Put(none())),
        _ => {}
    }
    out
}

pub(crate) fn apply_edit(items: &[Sx], path: &[usize], e: &Edit) -> Vec<Sx> {
    let mut c = items.to_vec();
    if let Some(node) = get_mut(&mut c, path) {
        match e {
            Edit::Put(x) => *node = x.clone(),
            Edit::Cut(from, to) => {
                if let L(v) = node {
                    v.drain(*from..(*to).min(v.len()));
                }
            }
        }
    }
    c
}

/// wall-clock allowance of the structural shrinker: per failure, and per process — a failing deep state
/// costs about a second per candidate (two prints, the oracle, a 2 MB model request)
pub(crate) struct ShrinkClock {
    started: std::time::Instant,
    until: std::time::Instant,
}
static SHRINK_SPENT_MS: std::sync::atomic::AtomicU64 = std::sync::atomic::AtomicU64::new(0);
impl ShrinkClock {
    pub(crate) fn start() -> ShrinkClock {
        let spent = SHRINK_SPENT_MS.load(std::sync::atomic::Ordering::Relaxed);
        let allow = if spent >= 150_000 { 0 } else { 25_000 };
        let now = std::time::Instant::now();
        ShrinkClock { started: now, until: now + std::time::Duration::from_millis(allow) }
    }
    pub(crate) fn expired(&self) -> bool {
        std::time::Instant::now() >= self.until
    }
}
impl Drop for ShrinkClock {
    fn drop(&mut self) {
        SHRINK_SPENT_MS.fetch_add(self.started.elapsed().as_millis() as u64, std::sync::atomic::Ordering::Relaxed);
    }
}
