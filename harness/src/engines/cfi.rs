//! Engine `cfi` (C06): `SymbolFile::walk_frame` on a CFI-only symbol file with a mock
//! `FrameWalker` (the Rust twin of the Lean record `MdModel.Cfi.Walker`) against the Lean model,
//! plus the property's own oracle: an independent evaluation written from the module
//! documentation of `breakpad-symbols/src/sym_file/walker.rs` (expression *trees* built from the
//! postfix text right-to-left and evaluated recursively — not the implementation's stack machine).
//!
//! case line:
//! `cfi walk base:<n> instr:<n> ptr:<4|8> init:<addr>:<size>:<hex rules> adds:<addr>:<hex>;..|-
//!           known:<name,..|-> alias:<a=c,..|-> callee:<name=val,..|-> fwd:<name=val,..|-> mem:<base>:<hex>`
//! answer: `none` | `some cfa=<n> ra=<n> regs:<name=val,..>` | `PANIC`

use crate::common::*;
use breakpad_symbols::{FrameWalker, SymbolFile};
use minidump::MinidumpModule;

pub struct Cfi;

/// `cfi cw …` cases: the real `CfiStackWalker` driven call by call (see the module docs there)
#[path = "cfi_cw.rs"]
mod cw;

// ------------------------------------------------------------------------------------ case

#[derive(Clone, Debug, Default)]
struct Case {
    base: u64,
    instr: u64,
    ptr: u32,
    init_addr: u64,
    init_size: u64,
    init: Vec<u8>,
    adds: Vec<(u64, Vec<u8>)>,
    known: Vec<String>,
    alias: Vec<(String, String)>,
    callee: Vec<(String, u64)>,
    fwd: Vec<(String, u64)>,
    mem_base: u64,
    mem: Vec<u8>,
    /// `stack` cases: (arch, callee sp, leaf allowed, pointer-auth mask)
    stack: Option<(String, u64, bool, Option<u64>)>,
    /// `xwalk` cases (a `stack` payload answered by one of the two Lean models of the evaluator):
    /// `c06` = `MdModel.Cfi` (`cfi stack` entry), `wlk` = `MdModel.Walk` (`walk` entry)
    xwalk: Option<String>,
}

fn strip<'a>(s: &'a str, key: &str) -> Option<&'a str> {
    s.strip_prefix(key)
}

fn parse_pairs(s: &str) -> Option<Vec<(String, u64)>> {
    if s == "-" {
        return Some(vec![]);
    }
    s.split(',')
        .map(|p| {
            let (n, v) = p.split_once('=')?;
            if n.is_empty() || v.contains('=') {
                return None;
            }
            Some((n.to_string(), v.parse().ok()?))
        })
        .collect()
}

fn parse_case(line: &str) -> Option<Case> {
    let mut f: Vec<&str> = line.split(' ').filter(|s| !s.is_empty()).collect();
    if f.len() < 2 || f[0] != "cfi" {
        return None;
    }
    let mut stack = None;
    let mut xwalk = None;
    if f[1] == "xwalk" {
        if f.len() != 17 || (f[2] != "c06" && f[2] != "wlk") {
            return None;
        }
        xwalk = Some(f[2].to_string());
        f.remove(2);
        f[1] = "stack";
    }
    if f[1] == "stack" {
        if f.len() != 16 {
            return None;
        }
        let arch = strip(f[2], "arch:")?.to_string();
        let sp: u64 = strip(f[13], "sp:")?.parse().ok()?;
        let leaf = match strip(f[14], "leaf:")? {
            "0" => false,
            "1" => true,
            _ => return None,
        };
        let st = strip(f[15], "strip:")?;
        let st = if st == "-" { None } else { Some(st.parse::<u64>().ok()?) };
        stack = Some((arch, sp, leaf, st));
        f.remove(2);
        f.truncate(12);
    } else if f[1] != "walk" || f.len() != 12 {
        return None;
    }
    let mut c = Case {
        base: strip(f[2], "base:")?.parse().ok()?,
        instr: strip(f[3], "instr:")?.parse().ok()?,
        ptr: strip(f[4], "ptr:")?.parse().ok()?,
        ..Default::default()
    };
    if c.ptr != 4 && c.ptr != 8 {
        return None;
    }
    let init: Vec<&str> = strip(f[5], "init:")?.split(':').collect();
    if init.len() != 3 {
        return None;
    }
    c.init_addr = init[0].parse().ok()?;
    c.init_size = init[1].parse().ok()?;
    if c.init_size > u32::MAX as u64 {
        return None;
    }
    c.init = unhex(init[2])?;
    let adds = strip(f[6], "adds:")?;
    if adds != "-" {
        for p in adds.split(';') {
            let q: Vec<&str> = p.split(':').collect();
            if q.len() != 2 {
                return None;
            }
            c.adds.push((q[0].parse().ok()?, unhex(q[1])?));
        }
    }
    let known = strip(f[7], "known:")?;
    if known != "-" {
        for n in known.split(',') {
            if n.is_empty() {
                return None;
            }
            c.known.push(n.to_string());
        }
    }
    let alias = strip(f[8], "alias:")?;
    if alias != "-" {
        for p in alias.split(',') {
            let (a, k) = p.split_once('=')?;
            if a.is_empty() || k.is_empty() || k.contains('=') {
                return None;
            }
            c.alias.push((a.to_string(), k.to_string()));
        }
    }
    c.callee = parse_pairs(strip(f[9], "callee:")?)?;
    c.fwd = parse_pairs(strip(f[10], "fwd:")?)?;
    let mem: Vec<&str> = strip(f[11], "mem:")?.split(':').collect();
    if mem.len() != 2 {
        return None;
    }
    c.mem_base = mem[0].parse().ok()?;
    c.mem = unhex(mem[1])?;
    c.stack = stack;
    c.xwalk = xwalk;
    Some(c)
}

fn render_pairs(v: &[(String, u64)]) -> String {
    if v.is_empty() {
        "-".into()
    } else {
        v.iter().map(|(n, x)| format!("{n}={x}")).collect::<Vec<_>>().join(",")
    }
}

fn render(c: &Case) -> String {
    let head = match (&c.stack, &c.xwalk) {
        (None, _) => "cfi walk".to_string(),
        (Some((arch, ..)), None) => format!("cfi stack arch:{arch}"),
        (Some((arch, ..)), Some(v)) => format!("cfi xwalk {v} arch:{arch}"),
    };
    let tail = match &c.stack {
        None => String::new(),
        Some((_, sp, leaf, st)) => format!(
            " sp:{sp} leaf:{} strip:{}",
            *leaf as u8,
            st.map(|m| m.to_string()).unwrap_or_else(|| "-".into())
        ),
    };
    format!(
        "{head} base:{} instr:{} ptr:{} init:{}:{}:{} adds:{} known:{} alias:{} callee:{} fwd:{} mem:{}:{}{tail}",
        c.base,
        c.instr,
        c.ptr,
        c.init_addr,
        c.init_size,
        hex(&c.init),
        if c.adds.is_empty() {
            "-".to_string()
        } else {
            c.adds.iter().map(|(a, r)| format!("{a}:{}", hex(r))).collect::<Vec<_>>().join(";")
        },
        if c.known.is_empty() { "-".to_string() } else { c.known.join(",") },
        if c.alias.is_empty() {
            "-".to_string()
        } else {
            c.alias.iter().map(|(a, k)| format!("{a}={k}")).collect::<Vec<_>>().join(",")
        },
        render_pairs(&c.callee),
        render_pairs(&c.fwd),
        c.mem_base,
        hex(&c.mem)
    )
}

// ------------------------------------------------------------------------------------ mock

/// The mock `FrameWalker`: shaped after `CfiStackWalker` (minidump-unwind/src/lib.rs).
struct Mock<'a> {
    c: &'a Case,
    cfa: Option<u64>,
    ra: Option<u64>,
    regs: Vec<(String, u64)>,
    /// calls seen (for distribution tags only)
    sets: u32,
    clears: u32,
}

impl<'a> Mock<'a> {
    fn new(c: &'a Case) -> Self {
        Mock { c, cfa: None, ra: None, regs: c.fwd.clone(), sets: 0, clears: 0 }
    }
    fn memo(&self, name: &str) -> Option<&'a str> {
        if let Some(k) = self.c.known.iter().find(|k| *k == name) {
            return Some(k.as_str());
        }
        let (_, canon) = self.c.alias.iter().find(|(a, _)| a == name)?;
        self.c.known.iter().find(|k| *k == canon).map(|k| k.as_str())
    }
    fn fits(&self, v: u64) -> bool {
        self.c.ptr == 8 || v <= u32::MAX as u64
    }
}

impl<'a> FrameWalker for Mock<'a> {
    fn get_instruction(&self) -> u64 {
        self.c.instr
    }
    fn has_grand_callee(&self) -> bool {
        false
    }
    fn get_grand_callee_parameter_size(&self) -> u32 {
        0
    }
    fn get_register_at_address(&self, address: u64) -> Option<u64> {
        let off = address.checked_sub(self.c.mem_base)? as u128;
        let n = self.c.ptr as u128;
        if off + n > self.c.mem.len() as u128 {
            return None;
        }
        let off = off as usize;
        let mut v = 0u64;
        for (i, b) in self.c.mem[off..off + self.c.ptr as usize].iter().enumerate() {
            v |= (*b as u64) << (8 * i);
        }
        Some(v)
    }
    fn get_callee_register(&self, name: &str) -> Option<u64> {
        let m = self.memo(name)?;
        self.c.callee.iter().find(|(n, _)| n == m).map(|(_, v)| *v)
    }
    fn set_caller_register(&mut self, name: &str, val: u64) -> Option<()> {
        let m = self.memo(name)?;
        if !self.fits(val) {
            return None;
        }
        self.sets += 1;
        self.regs.retain(|(n, _)| n != m);
        self.regs.insert(0, (m.to_string(), val));
        Some(())
    }
    fn clear_caller_register(&mut self, name: &str) {
        if let Some(m) = self.memo(name) {
            self.clears += 1;
            self.regs.retain(|(n, _)| n != m);
        }
    }
    fn set_cfa(&mut self, val: u64) -> Option<()> {
        if !self.fits(val) {
            return None;
        }
        self.cfa = Some(val);
        Some(())
    }
    fn set_ra(&mut self, val: u64) -> Option<()> {
        if !self.fits(val) {
            return None;
        }
        self.ra = Some(val);
        Some(())
    }
}

fn show_state(cfa: Option<u64>, ra: Option<u64>, regs: &[(String, u64)]) -> String {
    let mut regs = regs.to_vec();
    regs.sort_by(|a, b| a.0.as_bytes().cmp(b.0.as_bytes()));
    let f = |o: Option<u64>| o.map(|v| v.to_string()).unwrap_or_else(|| "-".into());
    format!(
        "some cfa={} ra={} regs:{}",
        f(cfa),
        f(ra),
        regs.iter().map(|(n, v)| format!("{n}={v}")).collect::<Vec<_>>().join(",")
    )
}

fn symbol_file_text(c: &Case) -> Vec<u8> {
    let mut t = Vec::new();
    t.extend_from_slice(b"MODULE Linux x86_64 000000000000000000000000000000000 mod\n");
    t.extend_from_slice(format!("STACK CFI INIT {:x} {:x} ", c.init_addr, c.init_size).as_bytes());
    t.extend_from_slice(&c.init);
    t.push(b'\n');
    for (a, r) in &c.adds {
        t.extend_from_slice(format!("STACK CFI {:x} ", a).as_bytes());
        t.extend_from_slice(r);
        t.push(b'\n');
    }
    t
}

// ------------------------------------------------------------------------------------ oracle
// Written from the documentation (walker.rs module docs, sections "STACK CFI", "STACK CFI
// registers", "STACK CFI expressions"), as trees.

#[derive(Clone, Debug)]
enum DTok {
    Bin(u8),
    Deref,
    Cfa,
    Undef,
    Lit(u64),
    Reg(String),
    /// certainly not a value of the documented language and not a register the walker could know
    Junk,
    /// the documentation does not say what this token means: the oracle abstains
    Undoc,
}

#[derive(Debug)]
enum Tree {
    Bin(u8, Box<Tree>, Box<Tree>),
    Deref(Box<Tree>),
    Leaf(DTok),
}

fn is_alnum_name(s: &str) -> bool {
    !s.is_empty() && s.bytes().all(|b| b.is_ascii_alphanumeric() || b == b'_')
}

fn doc_token(t: &str) -> DTok {
    match t {
        "+" | "-" | "*" | "/" | "%" | "@" => return DTok::Bin(t.as_bytes()[0]),
        "^" => return DTok::Deref,
        ".cfa" => return DTok::Cfa,
        ".undef" => return DTok::Undef,
        _ => {}
    }
    // <a signed decimal integer> (limited to i64 precision)
    let digits = t.strip_prefix(['+', '-']).unwrap_or(t);
    if !digits.is_empty() && digits.bytes().all(|b| b.is_ascii_digit()) {
        let mut v: i128 = 0;
        let mut big = false;
        for b in digits.bytes() {
            v = v * 10 + (b - b'0') as i128;
            if v > (1i128 << 70) {
                big = true;
                v = 1i128 << 70;
            }
        }
        if t.starts_with('-') {
            v = -v;
        }
        if !big && v >= i64::MIN as i128 && v <= i64::MAX as i128 {
            return DTok::Lit(v as i64 as u64);
        }
        return DTok::Junk; // out of range: neither a literal nor (all digits) a register name
    }
    if let Some(name) = t.strip_prefix('$') {
        if is_alnum_name(name) {
            return DTok::Reg(name.to_string());
        }
        return DTok::Undoc;
    }
    if t.contains('$') {
        return DTok::Undoc;
    }
    if is_alnum_name(t) {
        return DTok::Reg(t.to_string());
    }
    // not alphanumeric: not a documented value; only a walker knowing such a name could give it a value
    DTok::Undoc
}

/// the tree whose postfix form ends at `end` (exclusive); returns it with its start index
fn build_tree(toks: &[DTok], end: usize) -> Option<(Tree, usize)> {
    if end == 0 {
        return None;
    }
    match &toks[end - 1] {
        DTok::Bin(o) => {
            let (r, s1) = build_tree(toks, end - 1)?;
            let (l, s2) = build_tree(toks, s1)?;
            Some((Tree::Bin(*o, Box::new(l), Box::new(r)), s2))
        }
        DTok::Deref => {
            let (p, s) = build_tree(toks, end - 1)?;
            Some((Tree::Deref(Box::new(p)), s))
        }
        t => Some((Tree::Leaf(t.clone()), end - 1)),
    }
}

struct DocEnv<'a> {
    mock: &'a Mock<'a>,
    cfa: Option<u64>,
    abstain: std::cell::Cell<bool>,
}

fn eval_tree(t: &Tree, e: &DocEnv) -> Option<u64> {
    match t {
        Tree::Leaf(DTok::Lit(v)) => Some(*v),
        Tree::Leaf(DTok::Cfa) => e.cfa,
        Tree::Leaf(DTok::Reg(n)) => e.mock.get_callee_register(n),
        Tree::Leaf(_) => None,
        Tree::Deref(p) => {
            let a = eval_tree(p, e)?;
            e.mock.get_register_at_address(a)
        }
        Tree::Bin(o, l, r) => {
            // both operands are evaluated: a failure anywhere fails the rule
            let lv = eval_tree(l, e);
            let rv = eval_tree(r, e);
            let (lv, rv) = (lv?, rv?);
            match o {
                b'+' => Some(lv.wrapping_add(rv)),
                b'-' => Some(lv.wrapping_sub(rv)),
                b'*' => Some(lv.wrapping_mul(rv)),
                b'/' | b'%' => {
                    if rv == 0 {
                        return None;
                    }
                    // values are unsigned 64-bit words ("64-bit wrapping"): `/` and `%` are the
                    // unsigned operations on them
                    Some(if *o == b'/' { lv / rv } else { lv % rv })
                }
                b'@' => {
                    // "truncate lhs to be a multiple of rhs", rhs a power of two
                    if rv == 0 || rv.count_ones() != 1 {
                        return None;
                    }
                    Some(lv - lv % rv)
                }
                _ => None,
            }
        }
    }
}

/// `Err(())`: the oracle abstains. `Ok(None)`: the rule fails. `Ok(Some(v))`: its value.
fn doc_eval(expr: &[&str], mock: &Mock, cfa: Option<u64>) -> Result<Option<u64>, ()> {
    let toks: Vec<DTok> = expr.iter().map(|t| doc_token(t)).collect();
    if toks.iter().any(|t| matches!(t, DTok::Undoc)) {
        return Err(());
    }
    if toks.iter().any(|t| matches!(t, DTok::Undef | DTok::Junk)) {
        return Ok(None);
    }
    let Some((tree, start)) = build_tree(&toks, toks.len()) else { return Ok(None) };
    if start != 0 {
        return Ok(None); // leftover operands
    }
    let env = DocEnv { mock, cfa, abstain: std::cell::Cell::new(false) };
    let v = eval_tree(&tree, &env);
    if env.abstain.get() {
        return Err(());
    }
    Ok(v)
}

#[derive(PartialEq, Eq, Hash, Clone, Debug)]
enum DReg {
    Cfa,
    Ra,
    Other(String),
}

/// `REG: EXPR REG: EXPR ...`; `Ok(None)`: malformed line. `Err`: abstain.
fn doc_parse_line<'a>(line: &'a str, into: &mut Vec<(DReg, Vec<&'a str>)>) -> Result<Option<()>, ()> {
    let toks: Vec<&str> = line.split_ascii_whitespace().collect();
    let mut cur: Option<(DReg, Vec<&str>)> = None;
    let mut commit = |cur: Option<(DReg, Vec<&'a str>)>, into: &mut Vec<(DReg, Vec<&'a str>)>| -> bool {
        match cur {
            None => true,
            Some((_, e)) if e.is_empty() => false,
            Some((r, e)) => {
                into.retain(|(k, _)| *k != r);
                into.push((r, e));
                true
            }
        }
    };
    for t in toks {
        if let Some(label) = t.strip_suffix(':') {
            if !commit(cur.take(), into) {
                return Ok(None);
            }
            let reg = if label == ".cfa" {
                DReg::Cfa
            } else if label == ".ra" {
                DReg::Ra
            } else {
                let name = label.strip_prefix('$').unwrap_or(label);
                if !is_alnum_name(name) {
                    return Err(()); // REG is `.cfa`, `.ra`, `$<alphanumeric>` or `<alphanumeric>`
                }
                DReg::Other(name.to_string())
            };
            cur = Some((reg, vec![]));
        } else {
            match cur.as_mut() {
                None => return Ok(None), // a line must start with a REG:
                Some((_, e)) => e.push(t),
            }
        }
    }
    if cur.is_none() || !commit(cur.take(), into) {
        return Ok(None);
    }
    Ok(Some(()))
}

/// What the documentation prescribes for this case. `Err(why)`: the oracle abstains.
/// (cfa, ra, registers as the property prescribes, registers when a value that does not fit the
/// register is left alone — the defect fixed by 15b778b; a result equal to it gets its own class)
type DocState = Option<(u64, u64, Vec<(String, u64)>, Vec<(String, u64)>)>;

fn doc_expect(c: &Case, mock0: &Mock) -> Result<DocState, &'static str> {
    if c.instr < c.base {
        return Ok(None);
    }
    let a = c.instr - c.base;
    // the INIT record covers `num_bytes` from its address
    let covered = c.init_size != 0
        && c.init_addr.checked_add(c.init_size).is_some()
        && a >= c.init_addr
        && a - c.init_addr < c.init_size;
    if !covered {
        return Ok(None);
    }
    // "start with its STACK CFI INIT and then apply all the applicable STACK CFI diffs in order"
    let mut app: Vec<&(u64, Vec<u8>)> = c.adds.iter().filter(|(x, _)| *x <= a).collect();
    app.sort_by_key(|(x, _)| *x);
    // Several delta records at ONE address: the documentation says "apply all the applicable STACK CFI
    // diffs in order" but gives no order among records of one address. Whatever that order is, every
    // one of them is applied: a malformed one makes the whole STACK CFI malformed, and records that
    // give rules to different registers commute. Only when two of them give DIFFERENT rules to the
    // same register does the result depend on the undocumented order - the oracle abstains there.
    for (i, x) in app.iter().enumerate() {
        for y in app.iter().skip(i + 1) {
            if x.0 != y.0 || x.1 == y.1 {
                continue;
            }
            let (Ok(lx), Ok(ly)) = (std::str::from_utf8(&x.1), std::str::from_utf8(&y.1)) else { return Err("utf8") };
            let (mut rx, mut ry) = (vec![], vec![]);
            match (doc_parse_line(lx, &mut rx), doc_parse_line(ly, &mut ry)) {
                (Err(()), _) | (_, Err(())) => return Err("undocumented-label"),
                (Ok(None), _) | (_, Ok(None)) => continue, // malformed either way round
                _ => {}
            }
            if rx.iter().any(|(k, e)| ry.iter().any(|(k2, e2)| k == k2 && e != e2)) {
                return Err("two-deltas-one-address-same-register");
            }
        }
    }
    let mut lines: Vec<&str> = vec![std::str::from_utf8(&c.init).map_err(|_| "utf8")?];
    for (_, r) in app {
        lines.push(std::str::from_utf8(r).map_err(|_| "utf8")?);
    }
    let mut rules: Vec<(DReg, Vec<&str>)> = vec![];
    for l in lines {
        match doc_parse_line(l, &mut rules) {
            Err(()) => return Err("undocumented-label"),
            Ok(None) => return Ok(None),
            Ok(Some(())) => {}
        }
    }
    let find = |r: &DReg| rules.iter().find(|(k, _)| k == r).map(|(_, e)| e.clone());
    // ".cfa and .ra must always have defined rules, or the STACK CFI is malformed."
    let (Some(cfa_e), Some(ra_e)) = (find(&DReg::Cfa), find(&DReg::Ra)) else { return Ok(None) };
    let Some(cfa) = doc_eval(&cfa_e, mock0, None).map_err(|_| "undocumented-token")? else { return Ok(None) };
    let Some(ra) = doc_eval(&ra_e, mock0, Some(cfa)).map_err(|_| "undocumented-token")? else { return Ok(None) };
    if !mock0.fits(cfa) || !mock0.fits(ra) {
        return Ok(None);
    }
    let mut regs: Vec<(String, u64)> = c.fwd.clone();
    let mut lenient: Vec<(String, u64)> = c.fwd.clone();
    // Two labels may denote one register through an alias (`fp:` and `x29:`): the rules are then
    // applied in the order of their names (walker.rs:526-535, "make it the order of the names").
    let mut named: Vec<(&str, &Vec<&str>)> = rules
        .iter()
        .filter_map(|(r, e)| match r {
            DReg::Other(n) => Some((n.as_str(), e)),
            _ => None,
        })
        .collect();
    named.sort_by(|a, b| a.0.as_bytes().cmp(b.0.as_bytes()));
    for (name, e) in named {
        let Some(m) = mock0.memo(name) else { continue }; // a register the walker does not have
        match doc_eval(e, mock0, Some(cfa)).map_err(|_| "undocumented-token")? {
            Some(v) if mock0.fits(v) => {
                regs.retain(|(n, _)| n != m);
                regs.push((m.to_string(), v));
                lenient.retain(|(n, _)| n != m);
                lenient.push((m.to_string(), v));
            }
            // a value the register cannot hold is not a value of the register: unknown
            Some(_) => regs.retain(|(n, _)| n != m),
            None => {
                regs.retain(|(n, _)| n != m);
                lenient.retain(|(n, _)| n != m);
            }
        }
    }
    Ok(Some((cfa, ra, regs, lenient)))
}

// ------------------------------------------------------------------------------------ generator

const REGS64: &[&str] = &["rsp", "rbp", "rbx", "rip", "r12"];
const OPS: &[&str] = &["+", "-", "*", "/", "%", "@", "^"];

fn lit_pool(rng: &mut Rng) -> String {
    const FIXED: &[&str] = &[
        "0", "1", "2", "3", "4", "8", "16", "24", "7", "-1", "-8", "-16", "+5", "007", "-0", "4294967295", "4294967296",
        "9223372036854775807", "9223372036854775808", "-9223372036854775808", "-9223372036854775809",
        "18446744073709551615", "99999999999999999999999", "4096", "32",
    ];
    if rng.chance(3, 4) {
        rng.pick(FIXED).to_string()
    } else {
        let v = rng.next() as i64 >> rng.below(64);
        v.to_string()
    }
}

fn junk_pool(rng: &mut Rng) -> String {
    const J: &[&str] = &[
        "0x10", "1e3", "--", "+-", "é", "foo", ".ra", "ab$rax", "$", "$$rbx", "rbx$", "5$", "-", ".cfa.", ".undefx", "^^",
        "+1+", "1_0", " ", "\t", "\u{c}", "@@", "$.cfa", "٣", "1:", "$rsp$rbp",
        // not ASCII whitespace: stays inside its token (non-breaking / em / ideographic space, NEL, VT)
        "8\u{a0}8", "\u{a0}", "4\u{2003}+", "\u{3000}", "8\u{85}", "8\u{b}8", "\u{10000}", "$\u{ff5e}", "+0", "-00", "１",
    ];
    rng.pick(J).to_string()
}

fn reg_token(c: &Case, rng: &mut Rng) -> String {
    let mut names: Vec<String> = c.known.clone();
    names.extend(c.alias.iter().map(|(a, _)| a.clone()));
    names.push("nosuch".into());
    let n = rng.pick(&names).clone();
    if rng.chance(1, 2) {
        format!("${n}")
    } else {
        n
    }
}

/// a random expression in postfix: a tree rendered, then possibly damaged
fn gen_expr(c: &Case, rng: &mut Rng, depth: u32, allow_cfa: bool, out: &mut Vec<String>) {
    let leaf = depth == 0 || rng.chance(2, 5);
    if leaf {
        match rng.below(20) {
            0..=6 => out.push(lit_pool(rng)),
            7..=12 => out.push(reg_token(c, rng)),
            13..=16 => out.push(if allow_cfa || rng.chance(1, 8) { ".cfa".into() } else { reg_token(c, rng) }),
            17 => out.push(".undef".into()),
            18 => out.push(junk_pool(rng)),
            _ => out.push(lit_pool(rng)),
        }
        return;
    }
    if rng.chance(1, 4) {
        gen_expr(c, rng, depth - 1, allow_cfa, out);
        out.push("^".into());
    } else {
        gen_expr(c, rng, depth - 1, allow_cfa, out);
        // the right operand is often a small constant / power of two so that `/ % @` succeed
        if rng.chance(1, 2) {
            out.push(rng.pick(&["8", "4", "16", "1", "2", "0", "3", "-8", "32"]).to_string());
        } else {
            gen_expr(c, rng, depth - 1, allow_cfa, out);
        }
        out.push(rng.pick(&["+", "+", "-", "-", "*", "/", "%", "@", "@"]).to_string());
    }
}

fn damage(toks: &mut Vec<String>, c: &Case, rng: &mut Rng) {
    match rng.below(6) {
        0 if !toks.is_empty() => {
            let i = rng.below(toks.len() as u64) as usize;
            toks.remove(i);
        }
        1 => {
            let i = rng.below(toks.len() as u64 + 1) as usize;
            toks.insert(i, rng.pick(OPS).to_string());
        }
        2 => {
            let i = rng.below(toks.len() as u64 + 1) as usize;
            toks.insert(i, lit_pool(rng));
        }
        3 if toks.len() >= 2 => {
            let i = rng.below(toks.len() as u64 - 1) as usize;
            toks.swap(i, i + 1);
        }
        4 => {
            let i = rng.below(toks.len() as u64 + 1) as usize;
            toks.insert(i, junk_pool(rng));
        }
        _ => {
            let i = rng.below(toks.len() as u64 + 1) as usize;
            toks.insert(i, reg_token(c, rng));
        }
    }
}

fn join_ws(toks: &[String], rng: &mut Rng) -> String {
    let mut s = String::new();
    for (i, t) in toks.iter().enumerate() {
        if i > 0 {
            match rng.below(12) {
                0 => s.push_str("  "),
                1 => s.push('\t'),
                2 => s.push_str(" \u{c} "),
                _ => s.push(' '),
            }
        }
        s.push_str(t);
    }
    s
}

/// a typical 64-bit walker: registers, aliases, a stack image around rsp
fn walker64(rng: &mut Rng) -> Case {
    let mut c = Case { ptr: 8, ..Default::default() };
    c.known = REGS64.iter().map(|s| s.to_string()).collect();
    c.known.push("x29".into());
    c.alias = vec![("fp".into(), "x29".into()), ("sp".into(), "rsp".into())];
    let sp = match rng.below(8) {
        0 => 0,
        1 => u64::MAX - 15,
        2 => 0x1000,
        _ => 0x1000 + 8 * rng.below(8),
    };
    c.mem_base = match rng.below(6) {
        0 => sp.wrapping_add(8),
        1 => sp.saturating_sub(16),
        _ => sp,
    };
    let len = match rng.below(6) {
        0 => 0,
        1 => 7,
        2 => 12,
        _ => 16 + 8 * rng.below(8),
    };
    for i in 0..len {
        let b = match rng.below(4) {
            0 => 0,
            1 => 0xff,
            _ => rng.below(256) as u8,
        };
        // mostly small little-endian words
        c.mem.push(if i % 8 >= 2 && rng.chance(3, 4) { 0 } else { b });
    }
    let val = |rng: &mut Rng| match rng.below(8) {
        0 => 0,
        1 => u64::MAX,
        2 => 1 << 63,
        3 => 0xffff_ffff,
        4 => 0x1_0000_0000,
        _ => 0x1000 + rng.below(0x100),
    };
    c.callee.push(("rsp".into(), sp));
    for r in ["rbp", "rbx", "rip", "r12", "x29"] {
        if rng.chance(4, 5) {
            c.callee.push((r.into(), val(rng)));
        }
    }
    for (n, v) in c.callee.clone() {
        if n != "rsp" && n != "rip" && rng.chance(2, 3) {
            c.fwd.push((n, v));
        }
    }
    c
}

fn walker32(rng: &mut Rng) -> Case {
    let mut c = walker64(rng);
    c.ptr = 4;
    for (_, v) in c.callee.iter_mut().chain(c.fwd.iter_mut()) {
        *v &= 0xffff_ffff;
    }
    c
}

fn label(c: &Case, rng: &mut Rng) -> String {
    match rng.below(24) {
        0 => ":".into(),
        1 => "$:".into(),
        2 => "$.cfa:".into(),
        3 => "5:".into(),
        4 => "nosuch:".into(),
        5 => ".undef:".into(),
        6 => "$.ra:".into(),
        _ => {
            let mut names: Vec<String> = c.known.clone();
            names.extend(c.alias.iter().map(|(a, _)| a.clone()));
            let n = rng.pick(&names).clone();
            if rng.chance(1, 2) {
                format!("${n}:")
            } else {
                format!("{n}:")
            }
        }
    }
}

/// one rules line: some of `.cfa:`, `.ra:` and other registers
fn gen_line(c: &Case, rng: &mut Rng, want_cfa: bool, want_ra: bool, others: u64) -> String {
    let mut parts: Vec<Vec<String>> = vec![];
    if want_cfa {
        let mut e = vec![];
        if rng.chance(3, 4) {
            e = vec!["$rsp".into(), rng.pick(&["8", "16", "0", "24"]).to_string(), "+".into()];
        } else {
            gen_expr(c, rng, 2, false, &mut e);
        }
        e.insert(0, ".cfa:".into());
        parts.push(e);
    }
    if want_ra {
        let mut e = vec![];
        if rng.chance(1, 2) {
            e = vec![".cfa".into(), rng.pick(&["-8", "-16", "0", "8"]).to_string(), "+".into(), "^".into()];
        } else {
            gen_expr(c, rng, 3, true, &mut e);
        }
        e.insert(0, ".ra:".into());
        parts.push(e);
    }
    for _ in 0..others {
        let mut e = vec![];
        let d = 1 + rng.below(3) as u32;
        gen_expr(c, rng, d, true, &mut e);
        if rng.chance(1, 4) {
            damage(&mut e, c, rng);
        }
        e.insert(0, label(c, rng));
        parts.push(e);
    }
    // order of the rules inside a line is free
    if rng.chance(1, 3) && parts.len() > 1 {
        let i = rng.below(parts.len() as u64) as usize;
        let p = parts.remove(i);
        parts.push(p);
    }
    let mut toks: Vec<String> = parts.into_iter().flatten().collect();
    if rng.chance(1, 10) {
        damage(&mut toks, c, rng);
    }
    join_ws(&toks, rng)
}

fn lookups_around(c: &Case) -> Vec<u64> {
    let mut v: Vec<u64> = vec![];
    let mut push = |x: Option<u64>| {
        if let Some(x) = x {
            if !v.contains(&x) {
                v.push(x);
            }
        }
    };
    push(c.init_addr.checked_sub(1));
    push(Some(c.init_addr));
    push(c.init_addr.checked_add(c.init_size).and_then(|e| e.checked_sub(1)));
    push(c.init_addr.checked_add(c.init_size));
    for (a, _) in &c.adds {
        push(a.checked_sub(1));
        push(Some(*a));
        push(a.checked_add(1));
    }
    v
}

impl Cfi {
    /// exhaustive: every program over `alphabet` of length 1..=len, placed as the cfa rule, the ra
    /// rule and an ordinary register's rule, against a fixed walker
    fn gen_exhaustive_exprs(&self, len: usize, emit: &mut dyn FnMut(String)) {
        const ALPHA: &[&str] = &["+", "-", "*", "/", "%", "@", "^", ".cfa", ".undef", "$rsp", "8", "0", "-3", "rbx"];
        let mut c = Case { ptr: 8, base: 0x4000, init_addr: 0x10, init_size: 0x10, instr: 0x4012, ..Default::default() };
        c.known = vec!["rsp".into(), "rbx".into(), "rbp".into()];
        c.callee = vec![("rsp".into(), 0x1008), ("rbx".into(), 0x1010)];
        c.fwd = vec![("rbx".into(), 0x1010), ("rbp".into(), 77)];
        c.mem_base = 0x1000;
        for i in 0..6u64 {
            c.mem.extend_from_slice(&(0x1000 + 8 * ((i * 5) % 6)).to_le_bytes());
        }
        let mut idx = vec![0usize; 0];
        for l in 1..=len {
            idx.clear();
            idx.resize(l, 0);
            loop {
                let e = idx.iter().map(|i| ALPHA[*i]).collect::<Vec<_>>().join(" ");
                for shape in 0..3 {
                    let mut k = c.clone();
                    k.init = match shape {
                        0 => format!(".cfa: {e} .ra: .cfa ^"),
                        1 => format!(".cfa: $rsp 8 + .ra: {e}"),
                        _ => format!(".cfa: $rsp 8 + .ra: .cfa ^ $rbx: {e}"),
                    }
                    .into_bytes();
                    emit(render(&k));
                }
                // next
                let mut p = l;
                loop {
                    if p == 0 {
                        break;
                    }
                    p -= 1;
                    idx[p] += 1;
                    if idx[p] < ALPHA.len() {
                        break;
                    }
                    idx[p] = 0;
                    if p == 0 {
                        p = usize::MAX;
                        break;
                    }
                }
                if p == usize::MAX {
                    break;
                }
            }
        }
    }

    /// exhaustive: every line over a label/value alphabet up to `len` tokens (parse paths)
    fn gen_exhaustive_lines(&self, len: usize, emit: &mut dyn FnMut(String)) {
        const ALPHA: &[&str] = &[".cfa:", ".ra:", "$rbx:", "rbx:", "8", "$rsp", "+", ".cfa", "^"];
        let mut c = Case { ptr: 8, base: 0, init_addr: 0x10, init_size: 0x10, instr: 0x12, ..Default::default() };
        c.known = vec!["rsp".into(), "rbx".into()];
        c.callee = vec![("rsp".into(), 0x1008), ("rbx".into(), 5)];
        c.fwd = vec![("rbx".into(), 5)];
        c.mem_base = 0x1000;
        for i in 0..4u64 {
            c.mem.extend_from_slice(&(0x2000 + i).to_le_bytes());
        }
        let n = ALPHA.len();
        for l in 0..=len {
            let total = n.pow(l as u32);
            for mut code in 0..total {
                let mut toks = vec![];
                for _ in 0..l {
                    toks.push(ALPHA[code % n]);
                    code /= n;
                }
                let mut k = c.clone();
                k.init = toks.join(" ").into_bytes();
                emit(render(&k));
                // the same line as a delta over a complete INIT
                if l <= len.saturating_sub(1) {
                    let mut k = c.clone();
                    k.init = b".cfa: $rsp 8 + .ra: .cfa ^".to_vec();
                    k.adds = vec![(0x11, toks.join(" ").into_bytes())];
                    emit(render(&k));
                }
            }
        }
    }

    /// exhaustive: up to two delta records from a small set × addresses × every lookup address
    fn gen_exhaustive_deltas(&self, emit: &mut dyn FnMut(String)) {
        const RULES: &[&str] = &[".cfa: $rsp 16 +", "$rbx: .cfa 16 - ^", "$rbx: .undef", ".ra: 1", "$rbx: 1 .cfa: $rsp", "rbx: 2"];
        let mut c = Case { ptr: 8, base: 0x100, init_addr: 0x10, init_size: 4, ..Default::default() };
        c.known = vec!["rsp".into(), "rbx".into()];
        c.callee = vec![("rsp".into(), 0x1008), ("rbx".into(), 5)];
        c.fwd = vec![("rbx".into(), 5)];
        c.mem_base = 0x1000;
        for i in 0..6u64 {
            c.mem.extend_from_slice(&(0x2000 + i).to_le_bytes());
        }
        c.init = b".cfa: $rsp 8 + .ra: .cfa 8 - ^ $rbx: 1".to_vec();
        let addrs = [0xfu64, 0x10, 0x11, 0x12, 0x14];
        let mut deltas: Vec<(u64, Vec<u8>)> = vec![];
        for a in addrs {
            for r in RULES {
                deltas.push((a, r.as_bytes().to_vec()));
            }
        }
        let mut sets: Vec<Vec<(u64, Vec<u8>)>> = vec![vec![]];
        for d in &deltas {
            sets.push(vec![d.clone()]);
        }
        for d in &deltas {
            for e in &deltas {
                sets.push(vec![d.clone(), e.clone()]);
            }
        }
        for s in sets {
            for look in 0xeu64..=0x15 {
                let mut k = c.clone();
                k.adds = s.clone();
                k.instr = k.base + look;
                emit(render(&k));
            }
        }
    }

    fn gen_random(&self, rng: &mut Rng) -> String {
        let mut c = if rng.chance(1, 4) { walker32(rng) } else { walker64(rng) };
        c.base = match rng.below(6) {
            0 => 0,
            1 => u64::MAX - 0x100,
            _ => 0x4000 * (1 + rng.below(4)),
        };
        c.init_addr = match rng.below(10) {
            0 => 0,
            1 => u64::MAX - 7,
            2 => u64::MAX - 8,
            _ => 0x10 * (1 + rng.below(16)),
        };
        c.init_size = match rng.below(10) {
            0 => 0,
            1 => 1,
            2 => u32::MAX as u64,
            _ => 1 + rng.below(0x20),
        };
        if c.init_addr > u64::MAX - 0x100 && rng.chance(1, 2) {
            c.init_size = 8;
        }
        let n_others = rng.below(4);
        // sometimes leave out a mandatory rule
        let (wc, wr) = (!rng.chance(1, 16), !rng.chance(1, 16));
        c.init = gen_line(&c, rng, wc, wr, n_others).into_bytes();
        let n_adds = match rng.below(6) {
            0 | 1 => 0,
            2 | 3 => 1,
            4 => 2,
            _ => 3 + rng.below(3),
        };
        for _ in 0..n_adds {
            let a = match rng.below(8) {
                0 => c.init_addr.wrapping_sub(1),
                1 => c.init_addr,
                2 => c.init_addr.wrapping_add(c.init_size),
                3 if !c.adds.is_empty() => c.adds[rng.below(c.adds.len() as u64) as usize].0,
                _ => c.init_addr.wrapping_add(rng.below(c.init_size.max(1).min(0x40))),
            };
            let (dc, dr, dn) = (rng.chance(1, 2), rng.chance(1, 6), rng.below(3));
            let line = if !dc && !dr && dn == 0 {
                gen_line(&c, rng, true, false, 0)
            } else {
                gen_line(&c, rng, dc, dr, dn)
            };
            c.adds.push((a, line.into_bytes()));
        }
        let looks = lookups_around(&c);
        let look = if rng.chance(5, 6) {
            *rng.pick(&looks)
        } else {
            c.init_addr.wrapping_add(rng.below(c.init_size.max(1).min(0x40)))
        };
        c.instr = if rng.chance(1, 40) { c.base.wrapping_sub(1) } else { c.base.wrapping_add(look) };
        render(&c)
    }

    /// expressions that need MANY pending operands (`v1 v2 .. vk op .. op`: k values on the stack at
    /// once) or MANY tokens (`v1 v2 op v3 op ..`): the documented language bounds neither
    fn gen_deep_expr(&self, rng: &mut Rng) -> String {
        let mut c = walker64(rng);
        c.base = 0x4000;
        c.init_addr = 0x20;
        c.init_size = 0x10;
        c.instr = 0x4020 + rng.below(0x10);
        const KS: &[u64] = &[2, 3, 5, 7, 8, 9, 10, 12, 15, 16, 17, 24, 31, 32, 33, 48, 63, 64, 65, 100, 127, 128, 129, 200, 255, 256, 257, 400];
        let k = *rng.pick(KS) as usize;
        let val = |rng: &mut Rng| -> String {
            match rng.below(6) {
                0 => "$rsp".into(),
                1 => ".cfa".into(),
                _ => rng.pick(&["1", "2", "3", "4", "8", "16", "-1", "0", "7"]).to_string(),
            }
        };
        let op = |rng: &mut Rng| rng.pick(&["+", "+", "+", "-", "*"]).to_string();
        let mut e: Vec<String> = vec![];
        match rng.below(3) {
            // k operands pending at once
            0 => {
                for _ in 0..k {
                    e.push(val(rng));
                }
                for _ in 1..k {
                    e.push(op(rng));
                }
            }
            // a long left-leaning chain: two pending operands, 2k-1 tokens
            1 => {
                e.push(val(rng));
                for _ in 1..k {
                    e.push(val(rng));
                    e.push(op(rng));
                }
            }
            // blocks of pending operands, each reduced before the next starts
            _ => {
                let b = 1 + rng.below(12) as usize;
                e.push(val(rng));
                let mut left = k;
                while left > 0 {
                    let n = b.min(left);
                    for _ in 0..n {
                        e.push(val(rng));
                    }
                    for _ in 0..n {
                        e.push(op(rng));
                    }
                    left -= n;
                }
            }
        }
        let e = e.join(" ");
        c.init = match rng.below(4) {
            0 => format!(".cfa: {} .ra: .cfa 8 - ^", e.replace(".cfa", "$rsp")),
            1 => format!(".cfa: $rsp 8 + .ra: {e}"),
            2 => format!(".cfa: $rsp 8 + .ra: .cfa 8 - ^ $rbx: {e}"),
            _ => format!(".cfa: $rsp 8 + .ra: .cfa 8 - ^ $rbx: {e} $r12: $rbx"),
        }
        .into_bytes();
        render(&c)
    }

    /// a long single expression (beyond the exhaustive bound)
    fn gen_long_expr(&self, rng: &mut Rng) -> String {
        let mut c = if rng.chance(1, 5) { walker32(rng) } else { walker64(rng) };
        c.base = 0x4000;
        c.init_addr = 0x20;
        c.init_size = 0x10;
        c.instr = 0x4020 + rng.below(0x10);
        let mut e = vec![];
        let d = 2 + rng.below(4) as u32;
        gen_expr(&c, rng, d, true, &mut e);
        e.truncate(24);
        for _ in 0..rng.below(3) {
            if rng.chance(1, 3) {
                damage(&mut e, &c, rng);
            }
        }
        let e = join_ws(&e, rng);
        c.init = match rng.below(3) {
            0 => format!(".cfa: $rsp 8 + .ra: {e}"),
            1 => format!(".cfa: $rsp 8 + .ra: .cfa 8 - ^ $rbx: {e}"),
            _ => format!(".cfa: $rsp 8 + .ra: .cfa 8 - ^ fp: {e} x29: $rbx"),
        }
        .into_bytes();
        render(&c)
    }
}

// ------------------------------------------------------------------------------------ engine

impl Engine for Cfi {
    fn name(&self) -> &'static str {
        "cfi"
    }
    fn rule(&self) -> String {
        "SymbolFile::walk_frame on a generated CFI-only symbol file with a mock FrameWalker vs the Lean model \
         (MdModel.Cfi.walkFrameO) and vs an independent tree evaluation written from the walker.rs documentation; \
         non-trivial = the record covers the lookup address, the rules parse, and some rule has an operator; \
         `cfi cw` cases: the REAL CfiStackWalker<C> of minidump-unwind, received as &mut dyn FrameWalker by a SymbolProvider \
         of the harness inside walk_stack, driven by a script of trait-method calls (incl. the real walk_with_stack_cfi) on \
         x86/amd64/arm/arm64/arm64old/mips32/mips64 vs MdModel.CfiWalker and vs the mock twin; non-trivial = walk_frame was \
         reached with a non-empty script"
            .into()
    }
    fn exhaustive_part(&self) -> Option<String> {
        Some(
            "every program of 1..=4 (quick) / 1..=5 (thorough) tokens over {+,-,*,/,%,@,^,.cfa,.undef,$rsp,8,0,-3,rbx} as \
             the cfa rule, the ra rule and an ordinary register's rule; every rules line of 0..=5 (quick) / 0..=6 \
             (thorough) tokens over {.cfa:,.ra:,$rbx:,rbx:,8,$rsp,+,.cfa,^} as INIT and as a delta; every choice of <=2 \
             delta records from 6 rule texts x 5 addresses x every lookup address from init-2 to init+size+1"
                .into(),
        )
    }
    fn generate(&self, tier: Tier, rng: &mut Rng, emit: &mut dyn FnMut(String)) {
        let (elen, llen, nrand) = match tier {
            Tier::Quick => (4, 5, 120_000),
            Tier::Thorough => (5, 6, 1_500_000),
        };
        self.gen_exhaustive_deltas(emit);
        self.gen_exhaustive_lines(llen, emit);
        self.gen_exhaustive_exprs(elen, emit);
        let nstack = match tier {
            Tier::Quick => 30_000,
            Tier::Thorough => 300_000,
        };
        for _ in 0..nstack {
            emit(gen_stack(rng));
        }
        // the same `stack` payload to BOTH Lean models of the evaluator (and, each time, to the
        // real walk_stack): MdModel.Cfi answers the `c06` line, MdModel.Walk the `wlk` line
        let nx = match tier {
            Tier::Quick => 12_000,
            Tier::Thorough => 120_000,
        };
        let mut made = 0;
        let mut tries = 0;
        while made < nx && tries < 4 * nx {
            tries += 1;
            let line = gen_stack(rng);
            let Some(mut c) = parse_case(&line) else { continue };
            if to_walk_case(&c).is_none() {
                continue;
            }
            c.xwalk = Some("c06".into());
            emit(render(&c));
            c.xwalk = Some("wlk".into());
            emit(render(&c));
            made += 1;
        }
        // the real CfiStackWalker<C>, call by call, on all seven context kinds (`cfi cw` cases)
        cw::gen_directed(emit);
        let ncw = match tier {
            Tier::Quick => 60_000,
            Tier::Thorough => 600_000,
        };
        for _ in 0..ncw {
            emit(cw::gen_case(rng));
        }
        for i in 0..nrand {
            if i % 40 == 1 {
                emit(self.gen_deep_expr(rng));
            } else if i % 3 == 0 {
                emit(self.gen_long_expr(rng));
            } else {
                emit(self.gen_random(rng));
            }
        }
    }

    fn exec(&self, case: &str) -> ImplResult {
        if case.starts_with("cfi cw ") {
            return cw::exec(case);
        }
        let mut res = ImplResult::default();
        let Some(c) = parse_case(case) else {
            res.out = "bad-op".into();
            return res;
        };
        let text_ok = |r: &[u8]| std::str::from_utf8(r).is_ok() && !r.iter().any(|b| *b == b'\r' || *b == b'\n');
        if !text_ok(&c.init) || !c.adds.iter().all(|(_, r)| text_ok(r)) {
            res.out = "bad-op".into();
            return res;
        }
        if c.stack.is_some() {
            return match c.xwalk.as_deref() {
                Some("wlk") => exec_xwalk_wlk(&c),
                Some(_) => {
                    let mut r = exec_stack(&c);
                    r.tags.push("xwalk:c06-model".into());
                    r
                }
                None => exec_stack(&c),
            };
        }
        let sym = match catch(|| SymbolFile::from_bytes(&symbol_file_text(&c))) {
            Ok(Ok(s)) => s,
            Ok(Err(e)) => {
                res.out = format!("symfile-error {e:?}").replace(' ', "_");
                return res;
            }
            Err(msg) => {
                res.out = "PANIC".into();
                res.oracle.push(("parse-panics".into(), msg));
                return res;
            }
        };
        let module = MinidumpModule::new(c.base, 0x10000, "mod");
        let mut mock = Mock::new(&c);
        let r = catch(|| sym.walk_frame(&module, &mut mock));
        let pristine = Mock::new(&c);
        // the result may not depend on the iteration order of the rule map (a fresh map, with a
        // fresh hash seed, is built by every call)
        if let Ok(first) = &r {
            let first_state = (first.is_some(), mock.cfa, mock.ra, mock.regs.clone());
            for _ in 0..3 {
                let mut again = Mock::new(&c);
                if let Ok(r2) = catch(|| sym.walk_frame(&module, &mut again)) {
                    let st = (r2.is_some(), again.cfa, again.ra, again.regs.clone());
                    if r2.is_some() && st != first_state {
                        res.oracle.push((
                            "nondeterministic-result".into(),
                            format!("{} vs {}", show_state(mock.cfa, mock.ra, &mock.regs), show_state(again.cfa, again.ra, &again.regs)),
                        ));
                        break;
                    }
                }
            }
        }
        match r {
            Err(msg) => {
                res.out = "PANIC".into();
                res.oracle.push(("walk-panics".into(), msg));
                return res;
            }
            Ok(None) => res.out = "none".into(),
            Ok(Some(())) => {
                res.out = show_state(mock.cfa, mock.ra, &mock.regs);
                // cfa and ra are mandatory: a successful walk has set both
                if mock.cfa.is_none() || mock.ra.is_none() {
                    res.oracle.push(("success-without-cfa-or-ra".into(), res.out.clone()));
                }
            }
        }
        // tags / non-triviality
        let covered = c.instr >= c.base && {
            let a = c.instr - c.base;
            c.init_size != 0 && c.init_addr.checked_add(c.init_size).is_some() && a >= c.init_addr && a - c.init_addr < c.init_size
        };
        let all_text: Vec<&[u8]> = std::iter::once(&c.init[..]).chain(c.adds.iter().map(|(_, r)| &r[..])).collect();
        let has_op = all_text.iter().any(|t| {
            std::str::from_utf8(t).unwrap().split_ascii_whitespace().any(|k| OPS.contains(&k))
        });
        res.tags.push(if res.out == "none" { "result:none".into() } else { "result:some".into() });
        res.tags.push(format!("ptr:{}", c.ptr));
        res.tags.push(format!("adds:{}", c.adds.len().min(4)));
        if !covered {
            res.tags.push("lookup-outside-record".into());
        }
        if mock.sets > 0 {
            res.tags.push("other-reg-set".into());
        }
        if mock.clears > 0 {
            res.tags.push("other-reg-cleared".into());
        }
        let applicable = c.adds.iter().filter(|(a, _)| c.instr >= c.base && *a <= c.instr - c.base).count();
        if applicable > 0 {
            res.tags.push("delta-applied".into());
        }
        if applicable < c.adds.len() {
            res.tags.push("delta-ignored".into());
        }
        res.nontrivial = covered && has_op && (res.out != "none" || mock.sets + mock.clears > 0 || applicable > 0);
        // ---- the documented semantics, evaluated independently
        match doc_expect(&c, &pristine).map(|w| match w {
            None => ("none".to_string(), "none".to_string()),
            Some((cfa, ra, regs, len)) => (show_state(Some(cfa), Some(ra), &regs), show_state(Some(cfa), Some(ra), &len)),
        }) {
            Ok((want, lenient)) => {
                if want != res.out {
                    // a rule whose value does not fit the register: neither set nor marked unknown
                    let class = if res.out == lenient {
                        "reg-neither-set-nor-cleared"
                    } else {
                        "differs-from-documented-semantics"
                    };
                    res.oracle.push((class.into(), format!("documented: {want}  implementation: {}", res.out)));
                }
                res.tags.push("oracle:decided".into());
            }
            Err(why) => res.tags.push(format!("oracle:abstains:{why}")),
        }
        res
    }

    fn model_request(&self, case: &str) -> Option<String> {
        // fast path: everything but the xwalk cases goes to the model verbatim
        if !case.starts_with("cfi xwalk ") {
            return Some(case.to_string());
        }
        let Some(mut c) = parse_case(case) else { return Some(case.to_string()) };
        match c.xwalk.as_deref() {
            Some("c06") => {
                c.xwalk = None;
                Some(render(&c))
            }
            Some("wlk") => to_walk_case(&c).map(|w| w.render()),
            _ => Some(case.to_string()),
        }
    }

    fn shrink(&self, case: &str, still_fails: &dyn Fn(&str) -> bool) -> String {
        if case.starts_with("cfi cw ") {
            return cw::shrink(case, still_fails);
        }
        let Some(mut c) = parse_case(case) else { return case.to_string() };
        let toks = |r: &[u8]| -> Vec<String> {
            String::from_utf8_lossy(r).split_ascii_whitespace().map(|s| s.to_string()).collect()
        };
        let mut progress = true;
        let mut rounds = 0;
        while progress && rounds < 20 {
            progress = false;
            rounds += 1;
            // drop delta records
            let mut i = 0;
            while i < c.adds.len() {
                let mut k = c.clone();
                k.adds.remove(i);
                if still_fails(&render(&k)) {
                    c = k;
                    progress = true;
                } else {
                    i += 1;
                }
            }
            // drop tokens of every line (normalising whitespace)
            for line in 0..=c.adds.len() {
                let cur = if line == 0 { c.init.clone() } else { c.adds[line - 1].1.clone() };
                let mut t = toks(&cur);
                let mut i = 0;
                while i < t.len() {
                    let mut u = t.clone();
                    u.remove(i);
                    let mut k = c.clone();
                    let bytes = u.join(" ").into_bytes();
                    if line == 0 {
                        k.init = bytes
                    } else {
                        k.adds[line - 1].1 = bytes
                    }
                    if still_fails(&render(&k)) {
                        c = k;
                        t = u;
                        progress = true;
                    } else {
                        i += 1;
                    }
                }
            }
            // simplify the walker
            macro_rules! try_drop {
                ($field:ident) => {
                    let mut i = 0;
                    while i < c.$field.len() {
                        let mut k = c.clone();
                        k.$field.remove(i);
                        if still_fails(&render(&k)) {
                            c = k;
                            progress = true;
                        } else {
                            i += 1;
                        }
                    }
                };
            }
            if c.stack.is_none() {
                try_drop!(fwd);
                try_drop!(callee);
                try_drop!(alias);
                try_drop!(known);
            }
            if !c.mem.is_empty() && c.stack.is_none() {
                let mut k = c.clone();
                k.mem.clear();
                if still_fails(&render(&k)) {
                    c = k;
                    progress = true;
                }
            }
        }
        render(&c)
    }
}

// ------------------------------------------------------------------------------------ walk_stack
// `stack` cases: the real `CfiStackWalker` through `minidump_unwind::walk_stack` on a CFI-only
// symbol file; the case line carries the walker description (derived from the tables below) so
// that the Lean model answers it like a `walk` case followed by `stackGlue`.

struct Arch {
    name: &'static str,
    ptr: u32,
    regs: &'static [&'static str],
    alias: &'static [(&'static str, &'static str)],
    saved: &'static [&'static str],
    sp: &'static str,
    ip: &'static str,
    leaf: bool,
    strip: Option<u64>,
}

const ARCHS: &[Arch] = &[
    Arch {
        name: "x86",
        ptr: 4,
        regs: &["eip", "esp", "ebp", "ebx", "esi", "edi", "eax", "ecx", "edx", "eflags"],
        alias: &[],
        saved: &["ebp", "ebx", "edi", "esi"],
        sp: "esp",
        ip: "eip",
        leaf: false,
        strip: None,
    },
    Arch {
        name: "amd64",
        ptr: 8,
        regs: &[
            "rax", "rdx", "rcx", "rbx", "rsi", "rdi", "rbp", "rsp", "r8", "r9", "r10", "r11", "r12", "r13", "r14", "r15",
            "rip",
        ],
        alias: &[],
        saved: &["rbx", "rbp", "r12", "r13", "r14", "r15"],
        sp: "rsp",
        ip: "rip",
        leaf: false,
        strip: None,
    },
    Arch {
        name: "arm64",
        ptr: 8,
        regs: &[
            "x0", "x1", "x2", "x3", "x4", "x5", "x6", "x7", "x8", "x9", "x10", "x11", "x12", "x13", "x14", "x15", "x16",
            "x17", "x18", "x19", "x20", "x21", "x22", "x23", "x24", "x25", "x26", "x27", "x28", "fp", "lr", "sp", "pc",
        ],
        alias: &[("x29", "fp"), ("x30", "lr")],
        saved: &["x19", "x20", "x21", "x22", "x23", "x24", "x25", "x26", "x27", "x28", "fp"],
        sp: "sp",
        ip: "pc",
        leaf: true,
        strip: Some((1 << 47) - 1),
    },
];

const MODULE_SIZE: u32 = 0x10000;

/// the walker description an architecture's glue gives `walk_frame` for a context with the
/// register values `callee` (all valid) — what the `stack` case line must carry
fn arch_walker(a: &Arch, callee: &[(String, u64)]) -> Case {
    let mut c = Case { ptr: a.ptr, ..Default::default() };
    c.known = a.regs.iter().map(|s| s.to_string()).collect();
    c.alias = a.alias.iter().map(|(x, y)| (x.to_string(), y.to_string())).collect();
    c.callee = callee.to_vec();
    for r in a.saved {
        if let Some((n, v)) = callee.iter().find(|(n, _)| n == r) {
            c.fwd.push((n.clone(), *v));
        }
    }
    let sp = callee.iter().find(|(n, _)| n == a.sp).map(|(_, v)| *v).unwrap_or(0);
    c.stack = Some((a.name.to_string(), sp, a.leaf, a.strip));
    c
}

fn run_walk_stack(a: &Arch, c: &Case) -> Result<String, String> {
    use minidump::format as md;
    use minidump::system_info::{Cpu, Os};
    use minidump::{CpuContext, MinidumpContext, MinidumpContextValidity, MinidumpMemory, MinidumpModuleList, MinidumpRawContext, UnifiedMemory};
    use minidump_unwind::{string_symbol_supplier, walk_stack, CallStack, FrameTrust, Symbolizer, SystemInfo};
    fn fill<C: CpuContext>(ctx: &mut C, callee: &[(String, u64)])
    where
        C::Register: TryFrom<u64>,
    {
        for (n, v) in callee {
            if let Ok(x) = C::Register::try_from(*v) {
                ctx.set_register(n, x);
            }
        }
    }
    let (raw, cpu) = match a.name {
        "x86" => {
            let mut ctx = md::CONTEXT_X86::default();
            fill(&mut ctx, &c.callee);
            (MinidumpRawContext::X86(ctx), Cpu::X86)
        }
        "amd64" => {
            let mut ctx = md::CONTEXT_AMD64::default();
            fill(&mut ctx, &c.callee);
            (MinidumpRawContext::Amd64(ctx), Cpu::X86_64)
        }
        _ => {
            let mut ctx = md::CONTEXT_ARM64::default();
            fill(&mut ctx, &c.callee);
            (MinidumpRawContext::Arm64(ctx), Cpu::Arm64)
        }
    };
    let context = MinidumpContext { raw, valid: MinidumpContextValidity::All };
    let modules = MinidumpModuleList::from_modules(vec![MinidumpModule::new(c.base, MODULE_SIZE, "mod")]);
    let mut symbols = std::collections::HashMap::new();
    symbols.insert("mod".to_string(), String::from_utf8(symbol_file_text(c)).map_err(|_| "utf8".to_string())?);
    let memory = MinidumpMemory {
        desc: Default::default(),
        base_address: c.mem_base,
        size: c.mem.len() as u64,
        bytes: &c.mem,
        endian: scroll::LE,
    };
    let system_info = SystemInfo {
        os: Os::Linux,
        os_version: None,
        os_build: None,
        cpu,
        cpu_info: None,
        cpu_microcode_version: None,
        cpu_count: 1,
    };
    let symbolizer = Symbolizer::new(string_symbol_supplier(symbols));
    let mut stack = CallStack::with_context(context);
    let rt = tokio::runtime::Builder::new_current_thread().build().map_err(|e| e.to_string())?;
    catch(|| {
        rt.block_on(walk_stack(
            0,
            (),
            &mut stack,
            Some(UnifiedMemory::Memory(&memory)),
            &modules,
            &system_info,
            &symbolizer,
        ))
    })?;
    let Some(f1) = stack.frames.get(1) else { return Ok("nocfi".into()) };
    if f1.trust != FrameTrust::CallFrameInfo {
        return Ok("nocfi".into());
    }
    let regs: Vec<(String, u64)> = f1
        .context
        .valid_registers()
        .filter(|(n, _)| *n != a.sp && *n != a.ip)
        .map(|(n, v)| (n.to_string(), v))
        .collect();
    Ok(show_state(
        f1.context.get_register(a.sp),
        f1.context.get_register(a.ip),
        &regs,
    ))
}

/// the glue around `walk_frame` (see `MdModel.Cfi.stackGlue` and the `stack` branch of its `handle`),
/// applied to the documented result. `st`: (cfa, ra, caller registers) where the registers were
/// computed with the CFA and the return address stored in the stack-pointer / instruction-pointer
/// registers first (that is where `CfiStackWalker::set_cfa` / `set_ra` put them, so a rule
/// labelled `$rsp:` overwrites or clears the value the frame reports).
fn glue(c: &Case, a: &Arch, st: Option<(u64, u64, Vec<(String, u64)>)>) -> String {
    let Some((_, sp, leaf, strip)) = &c.stack else { return "bad-op".into() };
    // `memory_range()`: None for an empty memory and when `base.checked_add(size)` overflows (a region
    // ending exactly at 2^64 included)
    let in_stack = !c.mem.is_empty()
        && c.mem_base.checked_add(c.mem.len() as u64).is_some()
        && *sp >= c.mem_base
        && *sp - c.mem_base < c.mem.len() as u64;
    let Some((cfa0, ra0, mut regs)) = st else { return "nocfi".into() };
    if !in_stack {
        return "nocfi".into();
    }
    let sp_v = regs.iter().find(|(n, _)| n == a.sp).map(|(_, v)| *v);
    let ip_v = regs.iter().find(|(n, _)| n == a.ip).map(|(_, v)| *v);
    regs.retain(|(n, _)| n != a.sp && n != a.ip);
    // the unwinders read both raw: a cleared register keeps its last value
    let cfa = sp_v.unwrap_or(cfa0);
    let mut ra = ip_v.unwrap_or(ra0);
    if let Some(m) = strip {
        ra &= m;
        for (n, v) in regs.iter_mut() {
            if n == "fp" || n == "lr" {
                *v &= m;
            }
        }
    }
    if ra < 4096 || (cfa <= *sp && !(*leaf && cfa == *sp)) {
        return "nocfi".into();
    }
    show_state(sp_v.map(|_| cfa), ip_v.map(|_| ra), &regs)
}

/// the documented result of a `stack` case: `doc_expect` once for the CFA and the return address,
/// then again with the two stored as caller registers
fn doc_expect_stack(c: &Case, a: &Arch) -> Result<(Option<(u64, u64, Vec<(String, u64)>)>, Option<(u64, u64, Vec<(String, u64)>)>), &'static str> {
    let pristine = Mock::new(c);
    let Some((cfa, ra, _, _)) = doc_expect(c, &pristine)? else { return Ok((None, None)) };
    let mut c2 = c.clone();
    c2.fwd.retain(|(n, _)| n != a.sp && n != a.ip);
    c2.fwd.push((a.sp.to_string(), cfa));
    c2.fwd.push((a.ip.to_string(), ra));
    let p2 = Mock::new(&c2);
    match doc_expect(&c2, &p2)? {
        None => Ok((None, None)),
        Some((cfa, ra, regs, lenient)) => Ok((Some((cfa, ra, regs)), Some((cfa, ra, lenient)))),
    }
}

fn exec_stack(c: &Case) -> ImplResult {
    let mut res = ImplResult::default();
    let Some((arch, ..)) = &c.stack else { unreachable!() };
    let Some(a) = ARCHS.iter().find(|a| a.name == arch) else {
        res.out = "bad-op".into();
        return res;
    };
    // the walker description on the line must be the one the architecture's glue produces
    let want = arch_walker(a, &c.callee);
    let in_module = c.instr >= c.base && c.instr - c.base < MODULE_SIZE as u64;
    let ip = c.callee.iter().find(|(n, _)| n == a.ip).map(|(_, v)| *v);
    if want.known != c.known
        || want.alias != c.alias
        || want.fwd != c.fwd
        || want.ptr != c.ptr
        || want.stack != c.stack
        || c.callee.len() != a.regs.len()
        || !c.callee.iter().zip(a.regs).all(|((n, v), r)| n == r && (a.ptr == 8 || *v <= u32::MAX as u64))
        || ip != Some(c.instr)
        || !in_module
        || c.base.checked_add(MODULE_SIZE as u64).is_none()
    {
        res.out = "bad-op".into();
        return res;
    }
    res.tags.push(format!("stack:{}", a.name));
    match run_walk_stack(a, c) {
        Ok(out) => res.out = out,
        Err(msg) => {
            res.out = "PANIC".into();
            res.oracle.push(("walk-stack-panics".into(), msg));
            return res;
        }
    }
    res.tags.push(if res.out == "nocfi" { "stack-result:nocfi".into() } else { "stack-result:cfi-frame".into() });
    res.nontrivial = res.out != "nocfi";
    // the CFA and the return address live in the stack-pointer / instruction-pointer registers:
    // rules labelled with those registers act on them (`doc_expect_stack`)
    match doc_expect_stack(c, a) {
        Ok((st, len)) => {
            let lenient = glue(c, a, len);
            let want = glue(c, a, st);
            if want != res.out {
                let class = if res.out == lenient {
                    "reg-neither-set-nor-cleared"
                } else {
                    "differs-from-documented-semantics"
                };
                res.oracle.push((class.into(), format!("documented: {want}  implementation: {}", res.out)));
            }
            res.tags.push("oracle:decided".into());
        }
        Err(why) => res.tags.push(format!("oracle:abstains:{why}")),
    }
    res
}

fn gen_stack(rng: &mut Rng) -> String {
    let a = &ARCHS[rng.below(ARCHS.len() as u64) as usize];
    let base: u64 = 0x4000_0000;
    let sp: u64 = if a.ptr == 4 { 0x8000_0000 } else { 0x7ffd_0000_1000 } + 8 * rng.below(4);
    let word = a.ptr as u64;
    let nwords = 4 + rng.below(12);
    let off = rng.below(0x100) + 0x10;
    let instr = base + off;
    // stack image: small values, code addresses, stack addresses, a few extremes
    let mut mem: Vec<u8> = vec![];
    for _ in 0..nwords {
        let v: u64 = match rng.below(8) {
            0 => 0,
            1 => base + 0x1000 + rng.below(0x100),
            2 => sp + word * rng.below(nwords),
            3 => {
                if a.ptr == 4 {
                    0xffff_fff0 + rng.below(16)
                } else {
                    u64::MAX - rng.below(16)
                }
            }
            4 => rng.below(5000),
            _ => base + rng.below(MODULE_SIZE as u64),
        };
        mem.extend_from_slice(&v.to_le_bytes()[..a.ptr as usize]);
    }
    let mem_base = if rng.chance(1, 12) { sp + word } else { sp - word * rng.below(2) };
    let mask = if a.ptr == 4 { 0xffff_ffffu64 } else { u64::MAX };
    let callee: Vec<(String, u64)> = a
        .regs
        .iter()
        .map(|r| {
            let v = if *r == a.sp {
                sp
            } else if *r == a.ip {
                instr
            } else {
                match rng.below(6) {
                    0 => 0,
                    1 => mask,
                    2 => sp + word * rng.below(nwords),
                    3 => 4,
                    _ => rng.below(0x10000),
                }
            };
            (r.to_string(), v & mask)
        })
        .collect();
    let mut c = arch_walker(a, &callee);
    c.base = base;
    c.instr = instr;
    c.mem_base = mem_base;
    c.mem = mem;
    c.init_addr = off - rng.below(4).min(off);
    c.init_size = 4 + rng.below(0x20);
    let dollar = a.name != "arm64";
    let regname = |n: &str, rng: &mut Rng| -> String {
        if dollar != rng.chance(1, 10) {
            format!("${n}")
        } else {
            n.to_string()
        }
    };
    let spn = regname(a.sp, rng);
    // other registers: callee-saved ones, a scratch register, aliases, an unknown one
    let mut pool: Vec<String> = a.saved.iter().map(|s| s.to_string()).collect();
    pool.push(a.regs.iter().find(|r| ["eax", "rax", "x0"].contains(r)).unwrap().to_string());
    pool.extend(a.alias.iter().map(|(x, _)| x.to_string()));
    pool.push("nosuch".into());
    let gen_other = |c: &Case, rng: &mut Rng| -> String {
        // now and then a rule for the stack pointer / instruction pointer register itself: it acts
        // on the CFA / return address the frame reports (they are stored in those registers)
        let n = if rng.chance(1, 16) { rng.pick(&[a.sp, a.ip]).to_string() } else { rng.pick(&pool[..]).clone() };
        let mut e = vec![];
        match rng.below(8) {
            0 => e.push(".undef".to_string()),
            1 => e = vec![".cfa".into(), (word * rng.below(6)).to_string(), "-".into(), "^".into()],
            2 => e = vec![lit_pool(rng)],
            3 => {
                let r = rng.pick(&pool[..]).clone();
                e = vec![regname(&r, rng), lit_pool(rng), rng.pick(&["+", "-", "*", "@"]).to_string()]
            }
            _ => {
                let d = 1 + rng.below(3) as u32;
                gen_expr(c, rng, d, true, &mut e);
                if rng.chance(1, 5) {
                    damage(&mut e, c, rng);
                }
            }
        }
        format!("{}: {}", regname(&n, rng), e.join(" "))
    };
    let cfa_rule = |rng: &mut Rng| format!(".cfa: {spn} {} +", word * (1 + rng.below(nwords)));
    let mut init = vec![cfa_rule(rng)];
    init.push(match rng.below(6) {
        0 => format!(".ra: {}", base + 0x2000 + rng.below(0x100)),
        1 => ".ra: 0".to_string(),
        _ => format!(".ra: .cfa {} - ^", word * (1 + rng.below(3))),
    });
    for _ in 0..rng.below(4) {
        init.push(gen_other(&c, rng));
    }
    if rng.chance(1, 20) {
        init.remove(rng.below(2) as usize);
    }
    c.init = init.join(" ").into_bytes();
    for _ in 0..rng.below(3) {
        let addr = c.init_addr + rng.below(c.init_size + 1);
        let mut parts = vec![];
        if rng.chance(1, 3) {
            parts.push(cfa_rule(rng));
        }
        for _ in 0..(1 + rng.below(2)) {
            parts.push(gen_other(&c, rng));
        }
        c.adds.push((addr, parts.join(" ").into_bytes()));
    }
    // texts written the way only hex transport carries them to the `walk` protocol: leading blanks /
    // tabs (swallowed by the symbol-file parser), tabs and form feeds between tokens, a leading form
    // feed (kept), `_ ; | ,` inside tokens
    if rng.chance(1, 8) {
        let odd = |t: &mut Vec<u8>, rng: &mut Rng| {
            match rng.below(6) {
                0 => t.insert(0, b' '),
                1 => t.insert(0, b'\t'),
                2 => {
                    t.insert(0, b'\t');
                    t.insert(0, b' ');
                }
                3 => t.insert(0, 0x0c),
                4 => {
                    for b in t.iter_mut() {
                        if *b == b' ' && rng.chance(1, 3) {
                            *b = *rng.pick(&[b'\t', 0x0c]);
                        }
                    }
                }
                _ => {
                    const TAILS: &[&str] = &[" r_x: 1", " $rbx: r_x", " a|b: 2", " x;y: 3", " p,q: 4", " \t"];
                    t.extend_from_slice(rng.pick(TAILS).as_bytes())
                }
            }
        };
        odd(&mut c.init, rng);
        for (_, t) in c.adds.iter_mut() {
            if rng.chance(1, 2) {
                odd(t, rng);
            }
        }
    }
    if rng.chance(1, 16) {
        // two deltas at one address giving one register different values, one of them written with
        // leading blanks: the order of the STORED texts decides which applies last
        let addr = c.init_addr + rng.below(c.init_size + 1);
        let r = a.saved[rng.below(a.saved.len() as u64) as usize];
        let lead = *rng.pick(&[" ", "\t", "  ", " \t"]);
        let (t1, t2) = (format!("{lead}{r}: {}", 5 + rng.below(4)), format!("{r}: {}", 1 + rng.below(4)));
        if rng.chance(1, 2) {
            c.adds.push((addr, t1.into_bytes()));
            c.adds.push((addr, t2.into_bytes()));
        } else {
            c.adds.push((addr, t2.into_bytes()));
            c.adds.push((addr, t1.into_bytes()));
        }
    }
    render(&c)
}


// ------------------------------------------------------------------------------------ xwalk
// The framework has two Lean models of the one STACK CFI evaluator: `MdModel.Cfi` (C06's subject)
// and the one inside the stack-walk model `MdModel.Walk` (C03/C04/C05). `MdProofs.C06Walk` proves
// them equal; the `xwalk` cases exercise that bridge at run time, three ways: one `stack` payload
// is run through the real `walk_stack` and sent to `MdModel.Cfi` (line `cfi xwalk c06 …`, request
// `cfi stack …`) and to `MdModel.Walk` (line `cfi xwalk wlk …`, request `walk …`, the whole call
// stack compared). The `wlk` execution also re-derives the `stack` answer from the very call stack
// it shows, so a slip of the translation between the two case formats cannot hide.

/// rule text the `walk` protocol can carry: since rule text travels hex-encoded there
/// (`walk::render_recs`) this is every text a symbol-file line can hold — valid UTF-8 without CR / LF
fn transportable(r: &[u8]) -> bool {
    let Ok(t) = std::str::from_utf8(r) else { return false };
    !t.contains('\n') && !t.contains('\r')
}

/// the `walk`-engine case with the same context, stack memory, module and STACK CFI records
fn to_walk_case(c: &Case) -> Option<super::walk::Case> {
    use super::walk;
    let (arch, ..) = c.stack.as_ref()?;
    if !transportable(&c.init) || !c.adds.iter().all(|(_, r)| transportable(r)) {
        return None;
    }
    if c.init_size > u32::MAX as u64 {
        return None;
    }
    let mut recs = vec![walk::Rec::C {
        addr: c.init_addr,
        size: c.init_size as u32,
        rules: String::from_utf8(c.init.clone()).ok()?,
    }];
    for (a, r) in &c.adds {
        recs.push(walk::Rec::A { addr: *a, rules: String::from_utf8(r.clone()).ok()? });
    }
    Some(walk::Case {
        engine: "walk".into(),
        arch: arch.clone(),
        os: "linux".into(),
        regs: c.callee.clone(),
        valid: None,
        stack: Some((c.mem_base, c.mem.clone())),
        mods: vec![(c.base, MODULE_SIZE, "mod".into())],
        syms: vec![("mod".into(), recs)],
        symraw: vec![],
        be: false,
        extra: vec![],
    })
}

/// the `stack` answer read off a call stack: frame 1 if it was found by CFI
fn frame1_summary(a: &Arch, stack: &minidump_unwind::CallStack) -> String {
    use minidump_unwind::FrameTrust;
    let Some(f1) = stack.frames.get(1) else { return "nocfi".into() };
    if f1.trust != FrameTrust::CallFrameInfo {
        return "nocfi".into();
    }
    let regs: Vec<(String, u64)> = f1
        .context
        .valid_registers()
        .filter(|(n, _)| *n != a.sp && *n != a.ip)
        .map(|(n, v)| (n.to_string(), v))
        .collect();
    show_state(f1.context.get_register(a.sp), f1.context.get_register(a.ip), &regs)
}

fn exec_xwalk_wlk(c: &Case) -> ImplResult {
    use super::walk;
    // validation, tags and the documented-semantics oracle of the `stack` reading of the payload
    let st = exec_stack(c);
    if st.out == "bad-op" || st.out == "PANIC" {
        return st;
    }
    let mut res = ImplResult { tags: st.tags.clone(), oracle: st.oracle.clone(), nontrivial: st.nontrivial, ..Default::default() };
    res.tags.push("xwalk:walk-model".into());
    let Some(w) = to_walk_case(c) else {
        res.out = "bad-op".into();
        return res;
    };
    let Some((arch, ..)) = &c.stack else { unreachable!() };
    let Some(a) = ARCHS.iter().find(|a| a.name == arch) else { unreachable!() };
    match walk::run_walk(&w) {
        Err(msg) => {
            res.out = "PANIC".into();
            res.oracle.push(("walk-stack-panics".into(), msg));
        }
        Ok(stack) => {
            res.out = walk::show_stack(&w, &stack);
            res.tags.push(format!("xwalk-frames:{}", stack.frames.len().min(4)));
            // both readings of the payload ran the same real code: they must tell the same story
            let again = frame1_summary(a, &stack);
            if again != st.out {
                res.oracle.push((
                    "xwalk-readings-differ".into(),
                    format!("as `cfi stack`: {}  as `walk`: {}", st.out, again),
                ));
            }
        }
    }
    res
}
