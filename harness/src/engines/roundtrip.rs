//! Engine `roundtrip` (C02): parsed streams reproduce exactly what the dump encodes, in either
//! byte order.
//!
//! A case line is an abstract dump model (compact text, see `Model::parse`):
//!   roundtrip fl=<flags> pad=<0|1> T=<threads> M=<modules> R=<regions> I=<meminfo> N=<thread names>
//!             U=<unloaded> X=<exception|-> S=<system info|-> D=<extra raw streams>
//!             [Y=<misc info|->] [H=<handle data|->] [L=<Linux maps|->] [C=<Crashpad info|->]
//!             (optional trailing fields: absent = the model has no such stream)
//!
//! `exec` serializes the model with **minidump-synth** (a foreign serializer: directory last, data
//! interleaved with the streams) in {LE, BE} x {MemoryList, Memory64List}, reads each dump with the
//! real crate and renders what it reports (`real_report`). The oracle, on the implementation alone:
//!   * every report equals `expected_report` — an independent re-derivation, written here from the
//!     documented rules, of what a reader must report for the model (items in file order, blobs
//!     byte-identical, identifiers per the documented derivation);
//!   * every address of every isolated region reads back the model's byte through
//!     `memory_at_address` + `get_memory_at_address::<u8>` (all addresses up to 4 KiB, sampled above);
//!   * the LE and BE reports agree;
//!   * raw streams listed earlier in the directory under a type that occurs again later are never
//!     served (`get_raw_stream` returns the last one).
//! The Lean side is asked `roundtrip all <hex x4> <model>`: it decodes the very same four files with
//! the model decoder (compared verbatim with `real_report`), and returns its own four encodings, which
//! `same` reads with the REAL crate and compares with `expected_report`, plus `report m e f`
//! (the right-hand side of the round-trip theorem), compared with `expected_report` too.

use crate::common::*;
use minidump::format as md;
use minidump::system_info::Os;
use minidump::*;
use minidump_synth as synth;
use std::fmt::Write as _;
use minidump::Module as _;
use synth::SectionExtra;
use test_assembler::{Endian as TEndian, Section};

pub struct Roundtrip;

// ------------------------------------------------------------------------------------- the model

#[derive(Clone, Debug, PartialEq)]
struct Blob {
    text: String,
    data: Vec<u8>,
}

fn pattern_byte(seed: u64, i: u64) -> u8 {
    ((seed + i * 167 + i / 256 * 13 + i / 7) % 256) as u8
}

impl Blob {
    fn parse(s: &str) -> Option<Blob> {
        let data = if let Some(rest) = s.strip_prefix('g') {
            let (seed, len) = rest.split_once('x')?;
            let (seed, len): (u64, u64) = (seed.parse().ok()?, len.parse().ok()?);
            if len > (1 << 20) {
                return None;
            }
            (0..len).map(|i| pattern_byte(seed, i)).collect()
        } else {
            unhex(s)?
        };
        Some(Blob { text: s.to_string(), data })
    }
    fn raw(data: Vec<u8>) -> Blob {
        Blob { text: hex(&data), data }
    }
    fn pat(seed: u64, len: usize) -> Blob {
        Blob::parse(&format!("g{seed}x{len}")).unwrap()
    }
}

#[derive(Clone, Debug, PartialEq)]
struct Thread {
    id: u32,
    suspend: u32,
    pclass: u32,
    prio: u32,
    teb: u64,
    sbase: u64,
    stack: Blob,
    ctx: Blob,
}

#[derive(Clone, Debug, PartialEq)]
enum Cv {
    P7 { d1: u32, d2: u16, d3: u16, d4: Blob, age: u32, file: Blob },
    P2 { off: u32, sig: u32, age: u32, file: Blob },
    Elf(Blob),
    Unk(u32, Blob),
}

#[derive(Clone, Debug, PartialEq)]
struct Module {
    base: u64,
    size: u32,
    chk: u32,
    time: u32,
    ver: [u32; 13],
    name: Vec<u32>,
    cv: Option<Cv>,
}

#[derive(Clone, Debug, PartialEq)]
struct Region {
    base: u64,
    bytes: Blob,
}

#[derive(Clone, Debug, PartialEq)]
struct Unloaded {
    base: u64,
    size: u32,
    chk: u32,
    time: u32,
    name: Vec<u32>,
}

#[derive(Clone, Debug, PartialEq)]
struct Exc {
    tid: u32,
    code: u32,
    flags: u32,
    rec: u64,
    addr: u64,
    np: u32,
    info: [u64; 15],
    ctx: Blob,
}

#[derive(Clone, Debug, PartialEq)]
struct Sys {
    arch: u16,
    level: u16,
    rev: u16,
    nproc: u8,
    ptype: u8,
    major: u32,
    minor: u32,
    build: u32,
    plat: u32,
    suite: u16,
    cpu: Blob,
    csd: Vec<u32>,
}

/// `MINIDUMP_MISC_INFO*`: revision 1..5, every scalar of that revision in declaration order, and
/// bytes that follow the struct inside the stream
#[derive(Clone, Debug, PartialEq)]
struct Misc {
    ver: u8,
    tail: Blob,
    vals: Vec<u64>,
}

/// field widths of MINIDUMP_MISC_INFO_5, flattened, written from the documented struct
/// (minidumpapiset.h): 15 u32; TIME_ZONE_INFORMATION = LONG, WCHAR[32], SYSTEMTIME (8 WORD), LONG,
/// WCHAR[32], SYSTEMTIME, LONG; WCHAR[260]; WCHAR[40]; XSTATE_CONFIG_FEATURE_MSC_INFO = ULONG, ULONG,
/// ULONG64, XSTATE_FEATURE[64] (ULONG, ULONG); ULONG
fn misc_widths() -> Vec<usize> {
    let mut w = vec![4usize; 15];
    for _ in 0..2 {
        w.push(4);
        w.extend(std::iter::repeat(2).take(32 + 8));
    }
    w.push(4);
    w.extend(std::iter::repeat(2).take(260 + 40));
    w.extend([4, 4, 8]);
    w.extend(std::iter::repeat(4).take(128));
    w.push(4);
    w
}
/// number of scalars in revision 1..5
const MISC_COUNTS: [usize; 5] = [6, 11, 98, 398, 530];
/// wire size of revision 1..5
const MISC_SIZES: [usize; 5] = [24, 44, 232, 832, 1364];

/// (accessor, first revision, guarding Flags1 bit, first scalar, number of scalars) — the documented
/// validity rules of MINIDUMP_MISC_INFO_N
const MISC_FIELDS: [(&str, u8, u32, usize, usize); 20] = [
    ("size_of_info", 1, 0, 0, 1),
    ("flags1", 1, 0, 1, 1),
    ("process_id", 1, 0x1, 2, 1),
    ("process_create_time", 1, 0x2, 3, 1),
    ("process_user_time", 1, 0x2, 4, 1),
    ("process_kernel_time", 1, 0x2, 5, 1),
    ("processor_max_mhz", 2, 0x4, 6, 1),
    ("processor_current_mhz", 2, 0x4, 7, 1),
    ("processor_mhz_limit", 2, 0x4, 8, 1),
    ("processor_max_idle_state", 2, 0x4, 9, 1),
    ("processor_current_idle_state", 2, 0x4, 10, 1),
    ("process_integrity_level", 3, 0x10, 11, 1),
    ("process_execute_flags", 3, 0x20, 12, 1),
    ("protected_process", 3, 0x80, 13, 1),
    ("time_zone_id", 3, 0x40, 14, 1),
    ("time_zone", 3, 0x40, 15, 83),
    ("build_string", 4, 0x100, 98, 260),
    ("dbg_bld_str", 4, 0x100, 358, 40),
    ("xstate_data", 5, 0, 398, 131),
    ("process_cookie", 5, 0x200, 529, 1),
];

/// numbers separated by '.', `z<n>` = n zeros
fn nums_z(s: &str) -> Option<Vec<u64>> {
    let mut v = Vec::new();
    if s.is_empty() {
        return Some(v);
    }
    for t in s.split('.') {
        if let Some(n) = t.strip_prefix('z') {
            let n: usize = n.parse().ok()?;
            if n > 4096 {
                return None;
            }
            v.extend(std::iter::repeat(0).take(n));
        } else {
            v.push(t.parse().ok()?);
        }
    }
    Some(v)
}
fn dotted_z(xs: &[u64]) -> String {
    let mut out: Vec<String> = Vec::new();
    let mut i = 0;
    while i < xs.len() {
        if xs[i] == 0 {
            let mut j = i;
            while j < xs.len() && xs[j] == 0 {
                j += 1;
            }
            if j - i >= 3 {
                out.push(format!("z{}", j - i));
                i = j;
                continue;
            }
        }
        out.push(xs[i].to_string());
        i += 1;
    }
    out.join(".")
}

impl Misc {
    fn text(&self) -> String {
        format!("{},{},{}", self.ver, self.tail.text, dotted_z(&self.vals))
    }
    fn parse(s: &str) -> Option<Option<Misc>> {
        if s == "-" {
            return Some(None);
        }
        let p: Vec<&str> = s.split(',').collect();
        match p.as_slice() {
            [ver, tail, vals] => {
                let ver: u8 = ver.parse().ok()?;
                let vals = nums_z(vals)?;
                let w = misc_widths();
                // the harness only builds models the wire format can carry
                if !(1..=5).contains(&ver) || vals.len() != MISC_COUNTS[ver as usize - 1] {
                    return None;
                }
                if vals.iter().zip(w.iter()).any(|(v, w)| *w < 8 && *v >> (8 * *w) != 0) {
                    return None;
                }
                let tail = Blob::parse(tail)?;
                if ver < 5 && MISC_SIZES[ver as usize - 1] + tail.data.len() >= MISC_SIZES[ver as usize] {
                    return None;
                }
                Some(Some(Misc { ver, tail, vals }))
            }
            _ => None,
        }
    }
    /// the stream bytes, written field by field
    fn bytes(&self, be: bool) -> Vec<u8> {
        let mut out = Vec::new();
        for (v, w) in self.vals.iter().zip(misc_widths()) {
            let le = v.to_le_bytes();
            if be {
                out.extend(le[..w].iter().rev());
            } else {
                out.extend(&le[..w]);
            }
        }
        out.extend(&self.tail.data);
        out
    }
    /// The same model through minidump-synth's `MiscStream` — possible when the model is what that
    /// writer can express (flags consistent with the revision, unguarded fields zero, size_of_info =
    /// the stream length, zero padding); `None` otherwise.
    fn synth_bytes(&self, be: bool) -> Option<Vec<u8>> {
        let v = &self.vals;
        let fl = v[1] as u32;
        let g = |i: usize| v.get(i).copied().unwrap_or(0);
        let mut s = synth::MiscStream::new(tend(be));
        if fl & 1 != 0 {
            s.process_id = Some(g(2) as u32);
        }
        if fl & 2 != 0 {
            s.process_times = Some(synth::MiscFieldsProcessTimes {
                process_create_time: g(3) as u32,
                process_user_time: g(4) as u32,
                process_kernel_time: g(5) as u32,
            });
        }
        if fl & 4 != 0 {
            s.power_info = Some(synth::MiscFieldsPowerInfo {
                processor_max_mhz: g(6) as u32,
                processor_current_mhz: g(7) as u32,
                processor_mhz_limit: g(8) as u32,
                processor_max_idle_state: g(9) as u32,
                processor_current_idle_state: g(10) as u32,
            });
        }
        if fl & 0x10 != 0 {
            s.process_integrity_level = Some(g(11) as u32);
        }
        if fl & 0x20 != 0 {
            s.process_execute_flags = Some(g(12) as u32);
        }
        if fl & 0x80 != 0 {
            s.protected_process = Some(g(13) as u32);
        }
        if fl & 0x40 != 0 {
            let name = |at: usize| -> [u16; 32] { std::array::from_fn(|i| g(at + i) as u16) };
            let date = |at: usize| md::SYSTEMTIME {
                year: g(at) as u16,
                month: g(at + 1) as u16,
                day_of_week: g(at + 2) as u16,
                day: g(at + 3) as u16,
                hour: g(at + 4) as u16,
                minute: g(at + 5) as u16,
                second: g(at + 6) as u16,
                milliseconds: g(at + 7) as u16,
            };
            s.time_zone = Some(synth::MiscFieldsTimeZone {
                time_zone_id: g(14) as u32,
                time_zone: md::TIME_ZONE_INFORMATION {
                    bias: g(15) as u32 as i32,
                    standard_name: name(16),
                    standard_date: date(48),
                    standard_bias: g(56) as u32 as i32,
                    daylight_name: name(57),
                    daylight_date: date(89),
                    daylight_bias: g(97) as u32 as i32,
                },
            });
        }
        if fl & 0x100 != 0 {
            s.build_strings = Some(synth::MiscFieldsBuildString {
                build_string: std::array::from_fn(|i| g(98 + i) as u16),
                dbg_bld_str: std::array::from_fn(|i| g(358 + i) as u16),
            });
        }
        if self.ver == 5 {
            s.misc_5 = Some(synth::MiscInfo5Fields {
                xstate_data: md::XSTATE_CONFIG_FEATURE_MSC_INFO {
                    size_of_info: g(398) as u32,
                    context_size: g(399) as u32,
                    enabled_features: g(400),
                    features: std::array::from_fn(|i| md::XSTATE_FEATURE { offset: g(401 + 2 * i) as u32, size: g(402 + 2 * i) as u32 }),
                },
                process_cookie: if fl & 0x200 != 0 { Some(g(529) as u32) } else { None },
            });
        }
        s.pad_to_size = Some(MISC_SIZES[self.ver as usize - 1] + self.tail.data.len());
        let got = catch(|| Section::from(s).get_contents()).ok().flatten()?;
        (got == self.bytes(be)).then_some(got)
    }
}

/// one handle descriptor; `infos` = the object-information chain (info_type, size_of_info), which
/// only the second kind of descriptor carries
#[derive(Clone, Debug, PartialEq)]
struct Handle {
    handle: u64,
    type_name: Option<Vec<u32>>,
    object_name: Option<Vec<u32>>,
    attributes: u32,
    access: u32,
    hcount: u32,
    pcount: u32,
    infos: Vec<(u32, u32)>,
}

#[derive(Clone, Debug, PartialEq)]
struct Handles {
    v2: bool,
    items: Vec<Handle>,
}

fn opt_name_text(n: &Option<Vec<u32>>) -> String {
    match n {
        None => "~".into(),
        Some(n) => name_text(n),
    }
}
fn parse_opt_name(s: &str) -> Option<Option<Vec<u32>>> {
    if s == "~" {
        Some(None)
    } else {
        parse_name(s).map(Some)
    }
}

impl Handles {
    fn text(&self) -> String {
        let items: Vec<String> = self
            .items
            .iter()
            .map(|h| {
                let infos: Vec<String> = h.infos.iter().map(|(t, s)| format!("{t}:{s}")).collect();
                format!(
                    "{},{},{},{},{},{},{},{}",
                    h.handle,
                    opt_name_text(&h.type_name),
                    opt_name_text(&h.object_name),
                    h.attributes,
                    h.access,
                    h.hcount,
                    h.pcount,
                    infos.join("/")
                )
            })
            .collect();
        format!("{}|{}", if self.v2 { 2 } else { 1 }, items.join(";"))
    }
    fn parse(s: &str) -> Option<Option<Handles>> {
        if s == "-" {
            return Some(None);
        }
        let (v, rest) = s.split_once('|')?;
        let v2 = match v {
            "1" => false,
            "2" => true,
            _ => return None,
        };
        let items = list(rest, |p| match p {
            [h, tn, on, at, ga, hc, pc, infos] => Some(Handle {
                handle: h.parse().ok()?,
                type_name: parse_opt_name(tn)?,
                object_name: parse_opt_name(on)?,
                attributes: at.parse().ok()?,
                access: ga.parse().ok()?,
                hcount: hc.parse().ok()?,
                pcount: pc.parse().ok()?,
                infos: if infos.is_empty() {
                    vec![]
                } else {
                    infos
                        .split('/')
                        .map(|t| {
                            let (a, b) = t.split_once(':')?;
                            Some((a.parse().ok()?, b.parse().ok()?))
                        })
                        .collect::<Option<Vec<_>>>()?
                },
            }),
            _ => None,
        })?;
        Some(Some(Handles { v2, items }))
    }
}

/// the path column of a `/proc/<pid>/maps` line
#[derive(Clone, Debug, PartialEq)]
enum MapPath {
    Path(Vec<u8>),
    Heap,
    Stack,
    TStack(u32),
    Vdso,
    Vvar,
    Vsyscall,
    Rollup,
    Anonymous,
    Vsys(u32),
    Other(Vec<u8>),
}

#[derive(Clone, Debug, PartialEq)]
struct MapEntry {
    lo: u64,
    hi: u64,
    /// READ 1, WRITE 2, EXECUTE 4, SHARED 8, PRIVATE 16
    perms: u8,
    offset: u64,
    major: u32,
    minor: u32,
    inode: u64,
    path: MapPath,
}

impl MapPath {
    fn text(&self) -> String {
        match self {
            MapPath::Path(p) => format!("p{}", hex(p)),
            MapPath::Heap => "h".into(),
            MapPath::Stack => "s".into(),
            MapPath::TStack(t) => format!("t{t}"),
            MapPath::Vdso => "d".into(),
            MapPath::Vvar => "v".into(),
            MapPath::Vsyscall => "y".into(),
            MapPath::Rollup => "r".into(),
            MapPath::Anonymous => "a".into(),
            MapPath::Vsys(k) => format!("k{k}"),
            MapPath::Other(o) => format!("o{}", hex(o)),
        }
    }
    fn parse(s: &str) -> Option<MapPath> {
        Some(match s {
            "h" => MapPath::Heap,
            "s" => MapPath::Stack,
            "d" => MapPath::Vdso,
            "v" => MapPath::Vvar,
            "y" => MapPath::Vsyscall,
            "r" => MapPath::Rollup,
            "a" => MapPath::Anonymous,
            _ => {
                let (k, rest) = s.split_at(1);
                match k {
                    "t" => MapPath::TStack(rest.parse().ok()?),
                    "k" => MapPath::Vsys(rest.parse().ok()?),
                    "o" => MapPath::Other(unhex(rest)?),
                    "p" => MapPath::Path(unhex(rest)?),
                    _ => return None,
                }
            }
        })
    }
    /// the column as a writer of `/proc/<pid>/maps` spells it
    fn column(&self) -> Vec<u8> {
        match self {
            MapPath::Path(p) => p.clone(),
            MapPath::Heap => b"[heap]".to_vec(),
            MapPath::Stack => b"[stack]".to_vec(),
            MapPath::TStack(t) => format!("[stack:{t}]").into_bytes(),
            MapPath::Vdso => b"[vdso]".to_vec(),
            MapPath::Vvar => b"[vvar]".to_vec(),
            MapPath::Vsyscall => b"[vsyscall]".to_vec(),
            MapPath::Rollup => b"[rollup]".to_vec(),
            MapPath::Anonymous => vec![],
            MapPath::Vsys(k) => format!("/SYSV{k:08x}").into_bytes(),
            MapPath::Other(o) => [b"[".as_slice(), o, b"]"].concat(),
        }
    }
    /// is the column spelled unambiguously (a file path that does not look like a pseudo-path, no white
    /// space at either end, no line break, UTF-8)?
    fn well_formed(&self) -> bool {
        let col = self.column();
        if col.contains(&b'\n') || std::str::from_utf8(&col).is_err() {
            return false;
        }
        let fixed: [&[u8]; 6] = [b"[heap]", b"[stack]", b"[vdso]", b"[vvar]", b"[vsyscall]", b"[rollup]"];
        match self {
            MapPath::Path(p) => {
                let printable = |c: u8| (0x21..=0x7e).contains(&c);
                !p.is_empty()
                    && printable(p[0])
                    && printable(*p.last().unwrap())
                    && !fixed.contains(&&p[..])
                    && !p.starts_with(b"[stack:")
                    && !(p[0] == b'[' && *p.last().unwrap() == b']')
                    && !p.starts_with(b"/SYSV")
            }
            MapPath::Other(_) => !fixed.contains(&&col[..]) && !col.starts_with(b"[stack:"),
            _ => true,
        }
    }
}

fn maps_text(ms: &[MapEntry]) -> String {
    let items: Vec<String> = ms
        .iter()
        .map(|x| format!("{},{},{},{},{},{},{},{}", x.lo, x.hi, x.perms, x.offset, x.major, x.minor, x.inode, x.path.text()))
        .collect();
    format!("[{}]", items.join(";"))
}
fn parse_maps(s: &str) -> Option<Option<Vec<MapEntry>>> {
    if s == "-" {
        return Some(None);
    }
    let inner = s.strip_prefix('[')?.strip_suffix(']')?;
    let v = list(inner, |p| match p {
        [lo, hi, perms, off, maj, min, ino, path] => {
            let e = MapEntry {
                lo: lo.parse().ok()?,
                hi: hi.parse().ok()?,
                perms: perms.parse().ok().filter(|p| *p < 32)?,
                offset: off.parse().ok()?,
                major: maj.parse().ok().filter(|v| *v < 1 << 31)?,
                minor: min.parse().ok().filter(|v| *v < 1 << 31)?,
                inode: ino.parse().ok()?,
                path: MapPath::parse(path)?,
            };
            e.path.well_formed().then_some(e)
        }
        _ => None,
    })?;
    Some(Some(v))
}

fn perms_text(p: u8) -> String {
    let mut s = String::new();
    s.push(if p & 1 != 0 { 'r' } else { '-' });
    s.push(if p & 2 != 0 { 'w' } else { '-' });
    s.push(if p & 4 != 0 { 'x' } else { '-' });
    if p & 8 != 0 {
        s.push('s');
    }
    if p & 16 != 0 {
        s.push('p');
    }
    if p & 24 == 0 {
        s.push('-');
    }
    s
}

/// The maps text as a FOREIGN writer produces it — the kernel's `%08lx-%08lx %c%c%c%c %08llx %02x:%02x %lu `
/// with the path padded to column 73 — varied per line (deterministically from the entry) within what
/// the format allows: upper-case hex, an explicit `+`, leading zeros, other padding, CRLF, a missing
/// final newline.
fn foreign_maps(ms: &[MapEntry]) -> Vec<u8> {
    let mut out = Vec::new();
    for (i, x) in ms.iter().enumerate() {
        let style = fnv64(format!("{i}:{}:{}:{}", x.lo, x.hi, x.inode).as_bytes());
        let hexn = |v: u64, width: usize, k: u64| -> String {
            // (a line that BEGINS with an upper-case letter is an smaps attribute to the parser: the first
            // field keeps the kernel's lower case and has no sign)
            match (style >> k) & 3 {
                0 => format!("{:0w$x}", v, w = width),
                1 => format!("{:x}", v),
                2 if k != 0 => format!("{:0w$X}", v, w = width),
                3 if k != 0 => format!("+{:x}", v),
                _ => format!("{:0w$x}", v, w = 2 * width),
            }
        };
        let mut line = format!(
            "{}-{} {} {} {}:{} {}{} ",
            hexn(x.lo, 8, 0),
            hexn(x.hi, 8, 2),
            perms_text(x.perms),
            hexn(x.offset, 8, 4),
            hexn(x.major as u64, 2, 6),
            hexn(x.minor as u64, 2, 8),
            if (style >> 10) & 3 == 0 { "+" } else { "" },
            x.inode
        )
        .into_bytes();
        let col = x.path.column();
        if !col.is_empty() {
            match (style >> 12) & 3 {
                0 => {
                    while line.len() < 73 {
                        line.push(b' ');
                    }
                }
                1 => line.extend(b"\t  "),
                _ => {}
            }
        }
        line.extend(&col);
        if (style >> 14) & 3 == 0 && !col.is_empty() {
            line.extend(b"  ");
        }
        out.extend(line);
        let last = i + 1 == ms.len();
        match (style >> 16) & 7 {
            0 => out.extend(b"\r\n"),
            1 if last => {}
            _ => out.push(b'\n'),
        }
    }
    out
}

/// a Crashpad annotation object
#[derive(Clone, Debug, PartialEq)]
enum Ann {
    Invalid(Vec<u8>),
    Str(Vec<u8>, Vec<u8>),
    /// any type but TYPE_INVALID / TYPE_STRING: (name, type, value word)
    Other(Vec<u8>, u16, u32),
}

#[derive(Clone, Debug, PartialEq)]
struct CpModule {
    index: u32,
    version: u32,
    list: Vec<Vec<u8>>,
    dict: Vec<(Vec<u8>, Vec<u8>)>,
    anns: Vec<Ann>,
}

#[derive(Clone, Debug, PartialEq)]
struct Crashpad {
    version: u32,
    report_id: [u32; 11],
    client_id: [u32; 11],
    dict: Vec<(Vec<u8>, Vec<u8>)>,
    modules: Vec<CpModule>,
}

fn xs(b: &[u8]) -> String {
    format!("x{}", hex(b))
}
fn unx(s: &str) -> Option<Vec<u8>> {
    // strings are UTF-8 (the wire format's MINIDUMP_UTF8_STRING)
    unhex(s.strip_prefix('x')?).filter(|b| std::str::from_utf8(b).is_ok())
}
fn sep_list<T>(s: &str, sep: char, f: impl Fn(&str) -> Option<T>) -> Option<Vec<T>> {
    if s.is_empty() {
        return Some(vec![]);
    }
    s.split(sep).map(f).collect()
}
fn kvs_text(d: &[(Vec<u8>, Vec<u8>)]) -> String {
    d.iter().map(|(k, v)| format!("{}:{}", xs(k), xs(v))).collect::<Vec<_>>().join("/")
}
fn parse_kv(s: &str) -> Option<(Vec<u8>, Vec<u8>)> {
    let (k, v) = s.split_once(':')?;
    Some((unx(k)?, unx(v)?))
}

impl Ann {
    fn name(&self) -> &[u8] {
        match self {
            Ann::Invalid(n) | Ann::Str(n, _) | Ann::Other(n, _, _) => n,
        }
    }
    fn text(&self) -> String {
        match self {
            Ann::Invalid(n) => format!("i:{}", xs(n)),
            Ann::Str(n, v) => format!("s:{}:{}", xs(n), xs(v)),
            Ann::Other(n, ty, v) => format!("o:{}:{}:{}", xs(n), ty, v),
        }
    }
    fn parse(s: &str) -> Option<Ann> {
        let p: Vec<&str> = s.split(':').collect();
        Some(match p.as_slice() {
            ["i", n] => Ann::Invalid(unx(n)?),
            ["s", n, v] => Ann::Str(unx(n)?, unx(v)?),
            ["o", n, ty, v] => Ann::Other(unx(n)?, ty.parse().ok().filter(|t| *t > 1)?, v.parse().ok()?),
            _ => return None,
        })
    }
}

impl Crashpad {
    fn text(&self) -> String {
        let ms: Vec<String> = self
            .modules
            .iter()
            .map(|m| {
                format!(
                    "{}!{}!{}!{}!{}",
                    m.index,
                    m.version,
                    m.list.iter().map(|s| xs(s)).collect::<Vec<_>>().join("/"),
                    kvs_text(&m.dict),
                    m.anns.iter().map(|a| a.text()).collect::<Vec<_>>().join("/")
                )
            })
            .collect();
        format!("{},{},{},{},{}", self.version, dotted(&self.report_id), dotted(&self.client_id), kvs_text(&self.dict), ms.join("+"))
    }
    fn parse(s: &str) -> Option<Option<Crashpad>> {
        if s == "-" {
            return Some(None);
        }
        let p: Vec<&str> = s.split(',').collect();
        let [ver, rid, cid, d, ms] = p.as_slice() else { return None };
        let guid = |t: &str| -> Option<[u32; 11]> {
            let v: [u32; 11] = nums::<u32>(t, '.')?.try_into().ok()?;
            (v[1] < 1 << 16 && v[2] < 1 << 16 && v[3..].iter().all(|b| *b < 256)).then_some(v)
        };
        let modules = sep_list(ms, '+', |t| {
            let q: Vec<&str> = t.split('!').collect();
            let [idx, ver, l, d, a] = q.as_slice() else { return None };
            Some(CpModule {
                index: idx.parse().ok()?,
                version: ver.parse().ok()?,
                list: sep_list(l, '/', unx)?,
                dict: sep_list(d, '/', parse_kv)?,
                anns: sep_list(a, '/', Ann::parse)?,
            })
        })?;
        Some(Some(Crashpad {
            version: ver.parse().ok().filter(|v| *v != 0)?,
            report_id: guid(rid)?,
            client_id: guid(cid)?,
            dict: sep_list(d, '/', parse_kv)?,
            modules,
        }))
    }

    /// through minidump-synth's CrashpadInfo — when the model is what that writer can express
    /// (both versions 1, no annotation object of a custom type)
    fn synth_stream(&self, e: TEndian) -> Option<synth::CrashpadInfo> {
        if self.version != 1 || self.modules.iter().any(|m| m.version != 1 || m.anns.iter().any(|a| matches!(a, Ann::Other(..)))) {
            return None;
        }
        let st = |b: &[u8]| String::from_utf8(b.to_vec()).ok();
        let guid = |g: &[u32; 11]| md::GUID { data1: g[0], data2: g[1] as u16, data3: g[2] as u16, data4: std::array::from_fn(|i| g[3 + i] as u8) };
        let mut c = synth::CrashpadInfo::new(e).report_id(guid(&self.report_id)).client_id(guid(&self.client_id));
        for (k, v) in &self.dict {
            c = c.add_simple_annotation(&st(k)?, &st(v)?);
        }
        for m in &self.modules {
            let mut sm = synth::ModuleCrashpadInfo::new(m.index, e);
            for l in &m.list {
                sm = sm.add_list_annotation(&st(l)?);
            }
            for (k, v) in &m.dict {
                sm = sm.add_simple_annotation(&st(k)?, &st(v)?);
            }
            for a in &m.anns {
                sm = match a {
                    Ann::Invalid(n) => sm.add_annotation_object(&st(n)?, synth::AnnotationValue::Invalid),
                    Ann::Str(n, v) => sm.add_annotation_object(&st(n)?, synth::AnnotationValue::String(st(v)?)),
                    Ann::Other(..) => return None,
                };
            }
            c = c.add_module(sm);
        }
        Some(c)
    }

    /// Written by hand, in a layout of its own: record | link table | per module: info record, its three
    /// tables | dictionary table | the string pool LAST, strings in reverse order of use. Offsets are
    /// relative to the stream's start; `fix` lists the positions of the RVA words.
    fn manual_image(&self, be: bool) -> (Vec<u8>, Vec<usize>) {
        struct Img {
            be: bool,
            b: Vec<u8>,
            fix: Vec<usize>,
            // (position of the RVA word, string bytes, NUL-terminated?)
            strs: Vec<(usize, Vec<u8>, bool)>,
        }
        impl Img {
            fn u16(&mut self, v: u16) {
                if self.be { self.b.extend(v.to_be_bytes()) } else { self.b.extend(v.to_le_bytes()) }
            }
            fn u32(&mut self, v: u32) {
                if self.be { self.b.extend(v.to_be_bytes()) } else { self.b.extend(v.to_le_bytes()) }
            }
            fn set32(&mut self, at: usize, v: u32) {
                let w = if self.be { v.to_be_bytes() } else { v.to_le_bytes() };
                self.b[at..at + 4].copy_from_slice(&w);
            }
            /// an RVA word to be pointed at `target` later
            fn rva_slot(&mut self) -> usize {
                let at = self.b.len();
                self.fix.push(at);
                self.u32(0);
                at
            }
            fn str_ref(&mut self, s: &[u8], nul: bool) {
                let at = self.rva_slot();
                self.strs.push((at, s.to_vec(), nul));
            }
            fn dict(&mut self, d: &[(Vec<u8>, Vec<u8>)]) {
                self.u32(d.len() as u32);
                for (k, v) in d {
                    self.str_ref(k, true);
                    self.str_ref(v, true);
                }
            }
        }
        let mut g = Img { be, b: Vec::new(), fix: Vec::new(), strs: Vec::new() };
        g.u32(self.version);
        for id in [&self.report_id, &self.client_id] {
            g.u32(id[0]);
            g.u16(id[1] as u16);
            g.u16(id[2] as u16);
            for v in &id[3..] {
                g.b.push(*v as u8);
            }
        }
        g.u32(4 + 8 * self.dict.len() as u32);
        let dict_slot = g.rva_slot();
        g.u32(4 + 12 * self.modules.len() as u32);
        let list_slot = g.rva_slot();
        // the link table
        let here = g.b.len() as u32;
        g.set32(list_slot, here);
        g.u32(self.modules.len() as u32);
        let mut link_slots = Vec::new();
        for m in &self.modules {
            g.u32(m.index);
            g.u32(28);
            link_slots.push(g.rva_slot());
        }
        for (m, slot) in self.modules.iter().zip(link_slots) {
            let here = g.b.len() as u32;
            g.set32(slot, here);
            g.u32(m.version);
            g.u32(4 + 4 * m.list.len() as u32);
            let l = g.rva_slot();
            g.u32(4 + 8 * m.dict.len() as u32);
            let d = g.rva_slot();
            g.u32(4 + 12 * m.anns.len() as u32);
            let a = g.rva_slot();
            // annotation objects first, then the dictionary, then the string list
            let here = g.b.len() as u32;
            g.set32(a, here);
            g.u32(m.anns.len() as u32);
            for an in &m.anns {
                g.str_ref(an.name(), true);
                match an {
                    Ann::Invalid(_) => {
                        g.u16(0);
                        g.u16(0);
                        g.u32(0);
                    }
                    Ann::Str(_, v) => {
                        g.u16(1);
                        g.u16(0);
                        g.str_ref(v, false);
                    }
                    Ann::Other(_, ty, v) => {
                        g.u16(*ty);
                        g.u16(0);
                        g.u32(*v);
                    }
                }
            }
            let here = g.b.len() as u32;
            g.set32(d, here);
            g.dict(&m.dict);
            let here = g.b.len() as u32;
            g.set32(l, here);
            g.u32(m.list.len() as u32);
            for s in &m.list {
                g.str_ref(s, true);
            }
        }
        let here = g.b.len() as u32;
        g.set32(dict_slot, here);
        g.dict(&self.dict);
        // the string pool
        let strs = std::mem::take(&mut g.strs);
        for (at, s, nul) in strs.into_iter().rev() {
            let here = g.b.len() as u32;
            g.set32(at, here);
            g.u32(s.len() as u32);
            g.b.extend(&s);
            if nul {
                g.b.push(0);
            }
        }
        (g.b, g.fix)
    }

    /// the hand-written image as a section whose RVA words are labels relative to the stream's start
    fn manual_section(&self, be: bool) -> Section {
        let (img, mut fix) = self.manual_image(be);
        fix.sort_unstable();
        let e = tend(be);
        let mut sec = Section::with_endian(e);
        let start = sec.start();
        let mut i = 0;
        for at in fix {
            sec = sec.append_bytes(&img[i..at]);
            let w: [u8; 4] = img[at..at + 4].try_into().unwrap();
            let rel = if be { u32::from_be_bytes(w) } else { u32::from_le_bytes(w) };
            sec = sec.D32(&(&start + rel as i64));
            i = at + 4;
        }
        sec.append_bytes(&img[i..])
    }
}

#[derive(Clone, Debug, PartialEq, Default)]
struct Model {
    flags: u64,
    pad: bool,
    threads: Vec<Thread>,
    modules: Vec<Module>,
    regions: Vec<Region>,
    /// base, allocation base, allocation protection, size, state, protection, type
    infos: Vec<[u64; 7]>,
    names: Vec<(u32, Vec<u32>)>,
    unloaded: Vec<Unloaded>,
    exc: Option<Exc>,
    sys: Option<Sys>,
    extra: Vec<(u32, Blob)>,
    misc: Option<Misc>,
    handles: Option<Handles>,
    maps: Option<Vec<MapEntry>>,
    crashpad: Option<Crashpad>,
}

fn name_text(cs: &[u32]) -> String {
    if cs.is_empty() {
        return "-".into();
    }
    cs.iter().map(|c| format!("{:x}", c)).collect::<Vec<_>>().join(".")
}
fn parse_name(s: &str) -> Option<Vec<u32>> {
    if s == "-" {
        return Some(vec![]);
    }
    s.split('.').map(|p| u32::from_str_radix(p, 16).ok().filter(|c| char::from_u32(*c).is_some())).collect()
}
fn name_string(cs: &[u32]) -> String {
    cs.iter().filter_map(|c| char::from_u32(*c)).collect()
}
fn nums<T: std::str::FromStr>(s: &str, sep: char) -> Option<Vec<T>> {
    if s.is_empty() {
        return Some(vec![]);
    }
    s.split(sep).map(|p| p.parse().ok()).collect()
}
fn dotted<T: std::fmt::Display>(xs: &[T]) -> String {
    xs.iter().map(|x| x.to_string()).collect::<Vec<_>>().join(".")
}

impl Cv {
    fn text(&self) -> String {
        match self {
            Cv::P7 { d1, d2, d3, d4, age, file } => format!("p7:{d1}:{d2}:{d3}:{}:{age}:{}", d4.text, file.text),
            Cv::P2 { off, sig, age, file } => format!("p2:{off}:{sig}:{age}:{}", file.text),
            Cv::Elf(b) => format!("elf:{}", b.text),
            Cv::Unk(sig, rest) => format!("unk:{sig}:{}", rest.text),
        }
    }
    fn parse(s: &str) -> Option<Option<Cv>> {
        if s == "-" {
            return Some(None);
        }
        let p: Vec<&str> = s.split(':').collect();
        Some(Some(match p.as_slice() {
            ["p7", d1, d2, d3, d4, age, file] => Cv::P7 {
                d1: d1.parse().ok()?,
                d2: d2.parse().ok()?,
                d3: d3.parse().ok()?,
                d4: Blob::parse(d4).filter(|b| b.data.len() == 8)?,
                age: age.parse().ok()?,
                file: Blob::parse(file)?,
            },
            ["p2", off, sig, age, file] => {
                Cv::P2 { off: off.parse().ok()?, sig: sig.parse().ok()?, age: age.parse().ok()?, file: Blob::parse(file)? }
            }
            ["elf", b] => Cv::Elf(Blob::parse(b)?),
            ["unk", sig, rest] => Cv::Unk(sig.parse().ok()?, Blob::parse(rest)?),
            _ => return None,
        }))
    }
}

fn list<T>(s: &str, f: impl Fn(&[&str]) -> Option<T>) -> Option<Vec<T>> {
    if s.is_empty() {
        return Some(vec![]);
    }
    s.split(';').map(|item| f(&item.split(',').collect::<Vec<_>>())).collect()
}

impl Model {
    fn line(&self) -> String {
        let t: Vec<String> = self
            .threads
            .iter()
            .map(|t| format!("{},{},{},{},{},{},{},{}", t.id, t.suspend, t.pclass, t.prio, t.teb, t.sbase, t.stack.text, t.ctx.text))
            .collect();
        let m: Vec<String> = self
            .modules
            .iter()
            .map(|m| {
                format!(
                    "{},{},{},{},{},{},{}",
                    m.base,
                    m.size,
                    m.chk,
                    m.time,
                    dotted(&m.ver),
                    name_text(&m.name),
                    m.cv.as_ref().map(|c| c.text()).unwrap_or("-".into())
                )
            })
            .collect();
        let r: Vec<String> = self.regions.iter().map(|r| format!("{},{}", r.base, r.bytes.text)).collect();
        let i: Vec<String> = self.infos.iter().map(|i| i.iter().map(|x| x.to_string()).collect::<Vec<_>>().join(",")).collect();
        let n: Vec<String> = self.names.iter().map(|(id, n)| format!("{},{}", id, name_text(n))).collect();
        let u: Vec<String> =
            self.unloaded.iter().map(|u| format!("{},{},{},{},{}", u.base, u.size, u.chk, u.time, name_text(&u.name))).collect();
        let x = match &self.exc {
            None => "-".to_string(),
            Some(x) => format!("{},{},{},{},{},{},{},{}", x.tid, x.code, x.flags, x.rec, x.addr, x.np, dotted(&x.info), x.ctx.text),
        };
        let s = match &self.sys {
            None => "-".to_string(),
            Some(s) => format!(
                "{},{},{},{},{},{},{},{},{},{},{},{}",
                s.arch,
                s.level,
                s.rev,
                s.nproc,
                s.ptype,
                s.major,
                s.minor,
                s.build,
                s.plat,
                s.suite,
                s.cpu.text,
                name_text(&s.csd)
            ),
        };
        let d: Vec<String> = self.extra.iter().map(|(ty, b)| format!("{},{}", ty, b.text)).collect();
        let y = self.misc.as_ref().map(|y| y.text()).unwrap_or("-".into());
        let h = self.handles.as_ref().map(|h| h.text()).unwrap_or("-".into());
        let l = self.maps.as_ref().map(|l| maps_text(l)).unwrap_or("-".into());
        let c = self.crashpad.as_ref().map(|c| c.text()).unwrap_or("-".into());
        format!(
            "roundtrip fl={} pad={} T={} M={} R={} I={} N={} U={} X={} S={} D={} Y={} H={} L={} C={}",
            self.flags,
            self.pad as u8,
            t.join(";"),
            m.join(";"),
            r.join(";"),
            i.join(";"),
            n.join(";"),
            u.join(";"),
            x,
            s,
            d.join(";"),
            y,
            h,
            l,
            c
        )
    }

    fn parse(case: &str) -> Option<Model> {
        let f: Vec<&str> = case.split(' ').collect();
        if f.len() < 12 || f[0] != "roundtrip" {
            return None;
        }
        let mut m = Model { flags: f[1].strip_prefix("fl=")?.parse().ok()?, ..Default::default() };
        m.pad = match f[2].strip_prefix("pad=")? {
            "0" => false,
            "1" => true,
            _ => return None,
        };
        m.threads = list(f[3].strip_prefix("T=")?, |p| match p {
            [id, su, pc, pr, teb, sb, st, cx] => Some(Thread {
                id: id.parse().ok()?,
                suspend: su.parse().ok()?,
                pclass: pc.parse().ok()?,
                prio: pr.parse().ok()?,
                teb: teb.parse().ok()?,
                sbase: sb.parse().ok()?,
                stack: Blob::parse(st)?,
                ctx: Blob::parse(cx)?,
            }),
            _ => None,
        })?;
        m.modules = list(f[4].strip_prefix("M=")?, |p| match p {
            [base, size, chk, time, ver, name, cv] => Some(Module {
                base: base.parse().ok()?,
                size: size.parse().ok()?,
                chk: chk.parse().ok()?,
                time: time.parse().ok()?,
                ver: nums::<u32>(ver, '.')?.try_into().ok()?,
                name: parse_name(name)?,
                cv: Cv::parse(cv)?,
            }),
            _ => None,
        })?;
        m.regions = list(f[5].strip_prefix("R=")?, |p| match p {
            [base, b] => Some(Region { base: base.parse().ok()?, bytes: Blob::parse(b)? }),
            _ => None,
        })?;
        m.infos = list(f[6].strip_prefix("I=")?, |p| {
            let v: Vec<u64> = p.iter().map(|x| x.parse().ok()).collect::<Option<_>>()?;
            let a: [u64; 7] = v.try_into().ok()?;
            if a[2] > u32::MAX as u64 || a[4] > u32::MAX as u64 || a[5] > u32::MAX as u64 || a[6] > u32::MAX as u64 {
                return None;
            }
            Some(a)
        })?;
        m.names = list(f[7].strip_prefix("N=")?, |p| match p {
            [id, n] => Some((id.parse().ok()?, parse_name(n)?)),
            _ => None,
        })?;
        m.unloaded = list(f[8].strip_prefix("U=")?, |p| match p {
            [base, size, chk, time, n] => Some(Unloaded {
                base: base.parse().ok()?,
                size: size.parse().ok()?,
                chk: chk.parse().ok()?,
                time: time.parse().ok()?,
                name: parse_name(n)?,
            }),
            _ => None,
        })?;
        let x = f[9].strip_prefix("X=")?;
        m.exc = if x == "-" {
            None
        } else {
            let p: Vec<&str> = x.split(',').collect();
            match p.as_slice() {
                [tid, code, flags, rec, addr, np, info, ctx] => Some(Exc {
                    tid: tid.parse().ok()?,
                    code: code.parse().ok()?,
                    flags: flags.parse().ok()?,
                    rec: rec.parse().ok()?,
                    addr: addr.parse().ok()?,
                    np: np.parse().ok()?,
                    info: nums::<u64>(info, '.')?.try_into().ok()?,
                    ctx: Blob::parse(ctx)?,
                }),
                _ => return None,
            }
        };
        let s = f[10].strip_prefix("S=")?;
        m.sys = if s == "-" {
            None
        } else {
            let p: Vec<&str> = s.split(',').collect();
            match p.as_slice() {
                [arch, level, rev, nproc, pt, major, minor, build, plat, suite, cpu, csd] => Some(Sys {
                    arch: arch.parse().ok()?,
                    level: level.parse().ok()?,
                    rev: rev.parse().ok()?,
                    nproc: nproc.parse().ok()?,
                    ptype: pt.parse().ok()?,
                    major: major.parse().ok()?,
                    minor: minor.parse().ok()?,
                    build: build.parse().ok()?,
                    plat: plat.parse().ok()?,
                    suite: suite.parse().ok()?,
                    cpu: Blob::parse(cpu).filter(|b| b.data.len() == 24)?,
                    csd: parse_name(csd)?,
                }),
                _ => return None,
            }
        };
        m.extra = list(f[11].strip_prefix("D=")?, |p| match p {
            [ty, b] => Some((ty.parse().ok()?, Blob::parse(b)?)),
            _ => None,
        })?;
        // the optional streams
        for t in &f[12..] {
            if let Some(y) = t.strip_prefix("Y=") {
                m.misc = Misc::parse(y)?;
            } else if let Some(h) = t.strip_prefix("H=") {
                m.handles = Handles::parse(h)?;
            } else if let Some(l) = t.strip_prefix("L=") {
                m.maps = parse_maps(l)?;
            } else if let Some(c) = t.strip_prefix("C=") {
                m.crashpad = Crashpad::parse(c)?;
            } else {
                return None;
            }
        }
        Some(m)
    }
}

// ------------------------------------------------------------------- serializing with minidump-synth

fn tend(be: bool) -> TEndian {
    if be {
        TEndian::Big
    } else {
        TEndian::Little
    }
}

fn cv_section(cv: &Cv, e: TEndian) -> Section {
    let s = Section::with_endian(e);
    match cv {
        Cv::P7 { d1, d2, d3, d4, age, file } => s
            .D32(md::CvSignature::Pdb70 as u32)
            .D32(*d1)
            .D16(*d2)
            .D16(*d3)
            .append_bytes(&d4.data)
            .D32(*age)
            .append_bytes(&file.data),
        Cv::P2 { off, sig, age, file } => s.D32(md::CvSignature::Pdb20 as u32).D32(*off).D32(*sig).D32(*age).append_bytes(&file.data),
        Cv::Elf(b) => s.D32(md::CvSignature::Elf as u32).append_bytes(&b.data),
        Cv::Unk(sig, rest) => s.D32(*sig).append_bytes(&rest.data),
    }
}

fn version_info(v: &[u32; 13]) -> md::VS_FIXEDFILEINFO {
    md::VS_FIXEDFILEINFO {
        signature: v[0],
        struct_version: v[1],
        file_version_hi: v[2],
        file_version_lo: v[3],
        product_version_hi: v[4],
        product_version_lo: v[5],
        file_flags_mask: v[6],
        file_flags: v[7],
        file_os: v[8],
        file_type: v[9],
        file_subtype: v[10],
        file_date_hi: v[11],
        file_date_lo: v[12],
    }
}

/// a `read_stream_list` stream written by hand: count, optional 4 bytes of padding, entries
fn manual_list(ty: u32, e: TEndian, pad: bool, entries: Vec<Section>) -> synth::SimpleStream {
    let mut s = Section::with_endian(e).D32(entries.len() as u32);
    if pad {
        s = s.D32(0);
    }
    for en in entries {
        s = s.append_section(en);
    }
    synth::SimpleStream { stream_type: ty, section: s }
}

/// Serialize the model with minidump-synth. Lists that are empty are still emitted (as explicit
/// empty streams) so that both serializers produce the same set of streams.
fn build_synth(m: &Model, be: bool, mem64: bool) -> Option<Vec<u8>> {
    let e = tend(be);
    let mut d = synth::SynthMinidump::with_endian(e).flags(m.flags);
    // synth's Exception / SystemInfo cite their out-of-band data by plain numbers: put those data
    // first, right after the 32-byte header, where their offsets are known.
    let mut fixed_off: u32 = 32;
    if let Some(x) = &m.exc {
        let mut sx = synth::Exception::new(e);
        sx.thread_id = x.tid;
        sx.exception_record.exception_code = x.code;
        sx.exception_record.exception_flags = x.flags;
        sx.exception_record.exception_record = x.rec;
        sx.exception_record.exception_address = x.addr;
        sx.exception_record.number_parameters = x.np;
        sx.exception_record.exception_information = x.info;
        sx.thread_context = (x.ctx.data.len() as u32, fixed_off);
        d = d.add(Section::with_endian(e).append_bytes(&x.ctx.data));
        fixed_off += x.ctx.data.len() as u32;
        d = d.add_exception(sx);
    }
    if let Some(s) = &m.sys {
        let mut si = synth::SystemInfo::new(e);
        si.processor_architecture = s.arch;
        si.processor_level = s.level;
        si.processor_revision = s.rev;
        si.number_of_processors = s.nproc;
        si.product_type = s.ptype;
        si.major_version = s.major;
        si.minor_version = s.minor;
        si.build_number = s.build;
        si.platform_id = s.plat;
        si.csd_version_rva = fixed_off;
        si.suite_mask = s.suite;
        let w = |i: usize| {
            let a = [s.cpu.data[4 * i], s.cpu.data[4 * i + 1], s.cpu.data[4 * i + 2], s.cpu.data[4 * i + 3]];
            if be {
                u32::from_be_bytes(a)
            } else {
                u32::from_le_bytes(a)
            }
        };
        si.cpu = synth::CpuInfo::X86CpuInfo {
            vendor_id: [w(0), w(1), w(2)],
            version_information: w(3),
            feature_information: w(4),
            amd_extended_cpu_features: w(5),
        };
        let csd = synth::DumpString::new(&name_string(&s.csd), e);
        d = d.add(csd);
        d = d.add_system_info(si);
    }
    // raw extra streams: first in the directory
    for (ty, b) in &m.extra {
        d = d.add_stream(synth::SimpleStream { stream_type: *ty, section: Section::with_endian(e).append_bytes(&b.data) });
    }
    let manual = m.pad;
    // threads: synth::Thread writes zeros for suspend count, priorities and TEB; a list with any other
    // value is written record by record (still through synth's sections and directory)
    let manual_threads = manual || m.threads.iter().any(|t| t.suspend != 0 || t.pclass != 0 || t.prio != 0 || t.teb != 0);
    let mut thread_entries = Vec::new();
    for t in &m.threads {
        let stack = synth::Memory::with_section(Section::with_endian(e).append_bytes(&t.stack.data), t.sbase);
        let ctx = Section::with_endian(e).append_bytes(&t.ctx.data);
        if !manual_threads {
            d = d.add_thread(synth::Thread::new(e, t.id, &stack, &ctx));
        } else {
            let sec = Section::with_endian(e)
                .D32(t.id)
                .D32(t.suspend)
                .D32(t.pclass)
                .D32(t.prio)
                .D64(t.teb)
                .cite_memory(&stack)
                .cite_location(&ctx);
            thread_entries.push(sec);
        }
        d = d.add(ctx).add(stack);
    }
    if manual_threads || m.threads.is_empty() {
        d = d.add_stream(manual_list(md::MINIDUMP_STREAM_TYPE::ThreadListStream as u32, e, m.pad, thread_entries));
    }
    // modules
    let mut module_entries = Vec::new();
    for x in &m.modules {
        let name = synth::DumpString::new(&name_string(&x.name), e);
        let vi = version_info(&x.ver);
        let mut module = synth::Module::new(e, x.base, x.size, &name, x.time, x.chk, Some(&vi));
        let cv = x.cv.as_ref().map(|c| cv_section(c, e));
        if let Some(cv) = &cv {
            module = module.cv_record(cv);
        }
        if manual {
            module_entries.push(Section::from(module));
        } else {
            d = d.add_module(module);
        }
        d = d.add(name);
        if let Some(cv) = cv {
            d = d.add(cv);
        }
    }
    if manual || m.modules.is_empty() {
        d = d.add_stream(manual_list(md::MINIDUMP_STREAM_TYPE::ModuleListStream as u32, e, m.pad, module_entries));
    }
    // memory
    if mem64 {
        for r in &m.regions {
            d = d.add_memory64(synth::Memory::with_section(Section::with_endian(e).append_bytes(&r.bytes.data), r.base));
        }
        if m.regions.is_empty() {
            d = d.add_stream(synth::SimpleStream {
                stream_type: md::MINIDUMP_STREAM_TYPE::Memory64ListStream as u32,
                section: Section::with_endian(e).D64(0).D64(32),
            });
        }
    } else {
        let mut entries = Vec::new();
        for r in &m.regions {
            let mem = synth::Memory::with_section(Section::with_endian(e).append_bytes(&r.bytes.data), r.base);
            if manual {
                entries.push(mem.cite_memory_in(Section::with_endian(e)));
                d = d.add(mem);
            } else {
                d = d.add_memory(mem);
            }
        }
        if manual || m.regions.is_empty() {
            d = d.add_stream(manual_list(md::MINIDUMP_STREAM_TYPE::MemoryListStream as u32, e, m.pad, entries));
        }
    }
    // memory info
    for i in &m.infos {
        d = d.add_memory_info(synth::MemoryInfo::new(e, i[0], i[1], i[2] as u32, i[3], i[4] as u32, i[5] as u32, i[6] as u32));
    }
    if m.infos.is_empty() {
        d = d.add_stream(synth::SimpleStream {
            stream_type: md::MINIDUMP_STREAM_TYPE::MemoryInfoListStream as u32,
            section: Section::with_endian(e).D32(12).D32(48).D32(0),
        });
    }
    // thread names
    let mut name_entries = Vec::new();
    for (id, n) in &m.names {
        let s = synth::DumpString::new(&name_string(n), e);
        let tn = synth::ThreadName::new(e, *id, Some(&s));
        if manual {
            name_entries.push(Section::from(tn));
        } else {
            d = d.add_thread_name(tn);
        }
        d = d.add(s);
    }
    if manual || m.names.is_empty() {
        d = d.add_stream(manual_list(md::MINIDUMP_STREAM_TYPE::ThreadNamesStream as u32, e, m.pad, name_entries));
    }
    // unloaded modules
    for u in &m.unloaded {
        let s = synth::DumpString::new(&name_string(&u.name), e);
        d = d.add_unloaded_module(synth::UnloadedModule::new(e, u.base, u.size, &s, u.time, u.chk)).add(s);
    }
    if m.unloaded.is_empty() {
        d = d.add_stream(synth::SimpleStream {
            stream_type: md::MINIDUMP_STREAM_TYPE::UnloadedModuleListStream as u32,
            section: Section::with_endian(e).D32(12).D32(24).D32(0),
        });
    }
    // handle data: descriptors of the first kind through synth's HandleDescriptor (ExList stream with a
    // 16-byte header); the second kind (and an empty list) by hand: 40-byte descriptors citing the
    // names and the first element of the object-information chain, each element citing the next
    if let Some(hd) = &m.handles {
        let mut entries: Vec<Section> = Vec::new();
        for h in &hd.items {
            let tn = h.type_name.as_ref().map(|n| synth::DumpString::new(&name_string(n), e));
            let on = h.object_name.as_ref().map(|n| synth::DumpString::new(&name_string(n), e));
            if !hd.v2 {
                let desc = synth::HandleDescriptor::new(e, h.handle, tn.as_ref(), on.as_ref(), h.attributes, h.access, h.hcount, h.pcount);
                d = d.add_handle_descriptor(desc);
            } else {
                // the chain, last element first so that each can cite its successor
                let mut next: Option<test_assembler::Label> = None;
                let mut secs = Vec::new();
                for (ty, size) in h.infos.iter().rev() {
                    let sec = Section::with_endian(e);
                    let sec = match &next {
                        None => sec.D32(0),
                        Some(l) => sec.D32(l),
                    };
                    let sec = sec.D32(*ty).D32(*size);
                    next = Some(synth::DumpSection::file_offset(&sec));
                    secs.push(sec);
                }
                let sec = Section::with_endian(e).D64(h.handle);
                let sec = match &tn {
                    None => sec.D32(0),
                    Some(t) => sec.D32(&synth::DumpSection::file_offset(t)),
                };
                let sec = match &on {
                    None => sec.D32(0),
                    Some(t) => sec.D32(&synth::DumpSection::file_offset(t)),
                };
                let sec = sec.D32(h.attributes).D32(h.access).D32(h.hcount).D32(h.pcount);
                let sec = match &next {
                    None => sec.D32(0),
                    Some(l) => sec.D32(l),
                };
                entries.push(sec.D32(0));
                // scatter the chain elements in the file in reverse order
                for sec in secs {
                    d = d.add(sec);
                }
            }
            if let Some(t) = tn {
                d = d.add(t);
            }
            if let Some(t) = on {
                d = d.add(t);
            }
        }
        if hd.v2 || hd.items.is_empty() {
            let size: u32 = if hd.v2 { 40 } else { 32 };
            let mut sec = Section::with_endian(e).D32(16).D32(size).D32(entries.len() as u32).D32(0);
            for en in entries {
                sec = sec.append_section(en);
            }
            d = d.add_stream(synth::SimpleStream { stream_type: md::MINIDUMP_STREAM_TYPE::HandleDataStream as u32, section: sec });
        }
    }
    // Crashpad info: synth's CrashpadInfo when it can express the model (for every other such model),
    // else the hand-written image with its own placement of tables and strings
    if let Some(c) = &m.crashpad {
        let pick_synth = fnv64(c.text().as_bytes()) & 1 == 0;
        match c.synth_stream(e).filter(|_| pick_synth) {
            Some(sc) => d = d.add_crashpad_info(sc),
            None => {
                d = d.add_stream(synth::SimpleStream { stream_type: md::MINIDUMP_STREAM_TYPE::CrashpadInfoStream as u32, section: c.manual_section(be) });
            }
        }
    }
    // Linux maps: text written here the way the kernel (or a sloppier writer) spells it, handed to synth
    if let Some(ms) = &m.maps {
        d = d.set_linux_maps(&foreign_maps(ms));
    }
    // misc info: through synth's MiscStream when it can express the model, else field by field
    if let Some(y) = &m.misc {
        let bytes = y.synth_bytes(be).unwrap_or_else(|| y.bytes(be));
        d = d.add_stream(synth::SimpleStream {
            stream_type: md::MINIDUMP_STREAM_TYPE::MiscInfoStream as u32,
            section: Section::with_endian(e).append_bytes(&bytes),
        });
    }
    d.finish()
}

// -------------------------------------------------------------------------------- canonical report

fn fnv_hex(b: &[u8]) -> String {
    format!("{:x}", fnv64(b))
}
fn blob(b: &[u8]) -> String {
    format!("{}:{}", b.len(), fnv_hex(b))
}
fn opt_blob(b: Option<&[u8]>) -> String {
    match b {
        None => "~".into(),
        Some(b) => blob(b),
    }
}
fn opt_str(s: Option<String>) -> String {
    match s {
        None => "~".into(),
        Some(s) if s.is_empty() => "-".into(),
        Some(s) => s,
    }
}
fn str_scalars(s: &str) -> Vec<u32> {
    s.chars().map(|c| c as u32).collect()
}
fn err_name(e: &Error) -> String {
    format!("err {}", e.name())
}

/// the private `context: Option<&[u8]>` of a thread / an exception, read off the derived Debug text
fn debug_bytes(dbg: &str, key: &str) -> Option<Option<Vec<u8>>> {
    let p = dbg.rfind(key)?;
    let rest = &dbg[p + key.len()..];
    if rest.starts_with("None") {
        return Some(None);
    }
    let rest = rest.strip_prefix("Some([")?;
    let end = rest.find("])")?;
    let inner = &rest[..end];
    if inner.trim().is_empty() {
        return Some(Some(vec![]));
    }
    inner.split(',').map(|x| x.trim().parse::<u8>().ok()).collect::<Option<Vec<u8>>>().map(Some)
}

type Dump<'a> = Minidump<'a, &'a [u8]>;

fn cv_text(cv: Option<&CodeView>, be: bool) -> String {
    match cv {
        None => "-".into(),
        Some(CodeView::Pdb70(r)) => format!(
            "p7:{}:{}:{}:{}:{}:{}",
            r.signature.data1,
            r.signature.data2,
            r.signature.data3,
            blob(&r.signature.data4),
            r.age,
            blob(&r.pdb_file_name)
        ),
        Some(CodeView::Pdb20(r)) => format!("p2:{}:{}:{}:{}", r.cv_offset, r.signature, r.age, blob(&r.pdb_file_name)),
        Some(CodeView::Elf(r)) => format!("elf:{}", blob(&r.build_id)),
        Some(CodeView::Unknown(raw)) => {
            if raw.len() < 4 {
                return format!("unk-short:{}", blob(raw));
            }
            let a = [raw[0], raw[1], raw[2], raw[3]];
            let sig = if be { u32::from_be_bytes(a) } else { u32::from_le_bytes(a) };
            format!("unk:{}:{}", sig, blob(&raw[4..]))
        }
    }
}

/// a list of numbers in a report: one number as such, several as `<count>:<fnv64 of the 8-byte LE values>`
fn nat_list(vs: &[u64]) -> String {
    if vs.len() == 1 {
        return vs[0].to_string();
    }
    let bytes: Vec<u8> = vs.iter().flat_map(|v| v.to_le_bytes()).collect();
    format!("{}:{}", vs.len(), fnv_hex(&bytes))
}

fn tz_vals(t: &md::TIME_ZONE_INFORMATION) -> Vec<u64> {
    let date = |d: &md::SYSTEMTIME| [d.year, d.month, d.day_of_week, d.day, d.hour, d.minute, d.second, d.milliseconds].map(|x| x as u64);
    let mut v = vec![t.bias as u32 as u64];
    v.extend(t.standard_name.iter().map(|x| *x as u64));
    v.extend(date(&t.standard_date));
    v.push(t.standard_bias as u32 as u64);
    v.extend(t.daylight_name.iter().map(|x| *x as u64));
    v.extend(date(&t.daylight_date));
    v.push(t.daylight_bias as u32 as u64);
    v
}

/// every accessor of `RawMiscInfo`, in the order of the `misc_accessors!` invocation
fn misc_text(mi: &MinidumpMiscInfo) -> String {
    let r = &mi.raw;
    let ver = match r {
        RawMiscInfo::MiscInfo(_) => 1,
        RawMiscInfo::MiscInfo2(_) => 2,
        RawMiscInfo::MiscInfo3(_) => 3,
        RawMiscInfo::MiscInfo4(_) => 4,
        RawMiscInfo::MiscInfo5(_) => 5,
    };
    let one = |v: Option<&u32>| v.map(|x| vec![*x as u64]);
    let items: Vec<(&str, Option<Vec<u64>>)> = vec![
        ("size_of_info", one(r.size_of_info())),
        ("flags1", one(r.flags1())),
        ("process_id", one(r.process_id())),
        ("process_create_time", one(r.process_create_time())),
        ("process_user_time", one(r.process_user_time())),
        ("process_kernel_time", one(r.process_kernel_time())),
        ("processor_max_mhz", one(r.processor_max_mhz())),
        ("processor_current_mhz", one(r.processor_current_mhz())),
        ("processor_mhz_limit", one(r.processor_mhz_limit())),
        ("processor_max_idle_state", one(r.processor_max_idle_state())),
        ("processor_current_idle_state", one(r.processor_current_idle_state())),
        ("process_integrity_level", one(r.process_integrity_level())),
        ("process_execute_flags", one(r.process_execute_flags())),
        ("protected_process", one(r.protected_process())),
        ("time_zone_id", one(r.time_zone_id())),
        ("time_zone", r.time_zone().map(tz_vals)),
        ("build_string", r.build_string().map(|a| a.iter().map(|x| *x as u64).collect())),
        ("dbg_bld_str", r.dbg_bld_str().map(|a| a.iter().map(|x| *x as u64).collect())),
        (
            "xstate_data",
            r.xstate_data().map(|x| {
                let mut v = vec![x.size_of_info as u64, x.context_size as u64, x.enabled_features];
                for f in x.features.iter() {
                    v.push(f.offset as u64);
                    v.push(f.size as u64);
                }
                v
            }),
        ),
        ("process_cookie", one(r.process_cookie())),
    ];
    let mut out = vec![ver.to_string()];
    for (name, v) in items {
        out.push(format!("{}={}", name, v.map(|v| nat_list(&v)).unwrap_or("~".into())));
    }
    out.join(";")
}

/// the probe addresses of a region list (base, bytes-length): around both ends of every region
fn probe_addrs(rs: &[(u64, u64)]) -> Vec<u64> {
    let mut v = Vec::new();
    for &(base, len) in rs {
        let last = base as u128 + len as u128;
        if base > 0 {
            v.push(base - 1);
        }
        v.push(base);
        if len > 0 && last - 1 <= u64::MAX as u128 {
            v.push((last - 1) as u64);
        }
        if last <= u64::MAX as u128 {
            v.push(last as u64);
        }
    }
    v
}

/// What the real reader reports for `bytes`, in the format of `MdModel.Encode.showReported`.
/// `ids`: thread ids to ask the (private) thread-name map for.
fn real_report(bytes: &[u8], ids: &[u32]) -> String {
    let dump: Dump = match Minidump::read(bytes) {
        Ok(d) => d,
        Err(e) => return err_name(&e),
    };
    let be = dump.endian == scroll::Endian::Big;
    let mut o = String::new();
    let _ = write!(o, "{} fl={}", if be { "be" } else { "le" }, dump.header.flags);
    // threads
    o.push_str(" T=");
    match dump.get_stream::<MinidumpThreadList>() {
        Err(e) => o.push_str(&err_name(&e)),
        Ok(l) => {
            let empty = UnifiedMemoryList::default();
            let items: Vec<String> = l
                .threads
                .iter()
                .map(|t| {
                    let dbg = format!("{:?}", t);
                    let ctx = match debug_bytes(&dbg[..dbg.rfind(", stack: ").unwrap_or(dbg.len())], " }, context: ") {
                        Some(c) => opt_blob(c.as_deref()),
                        None => "?".into(),
                    };
                    let stack = match t.stack_memory(&empty) {
                        None => "~".to_string(),
                        Some(UnifiedMemory::Memory(m)) => blob(m.bytes),
                        Some(UnifiedMemory::Memory64(m)) => blob(m.bytes),
                    };
                    format!(
                        "{},{},{},{},{},{},{},{}",
                        t.raw.thread_id,
                        t.raw.suspend_count,
                        t.raw.priority_class,
                        t.raw.priority,
                        t.raw.teb,
                        t.raw.stack.start_of_memory_range,
                        stack,
                        ctx
                    )
                })
                .collect();
            let _ = write!(o, "[{}]", items.join(";"));
        }
    }
    // modules
    o.push_str(" M=");
    match dump.get_stream::<MinidumpModuleList>() {
        Err(e) => o.push_str(&err_name(&e)),
        Ok(l) => {
            let items: Vec<String> = l
                .iter()
                .map(|m| {
                    let v = &m.raw.version_info;
                    let ver = [
                        v.signature,
                        v.struct_version,
                        v.file_version_hi,
                        v.file_version_lo,
                        v.product_version_hi,
                        v.product_version_lo,
                        v.file_flags_mask,
                        v.file_flags,
                        v.file_os,
                        v.file_type,
                        v.file_subtype,
                        v.file_date_hi,
                        v.file_date_lo,
                    ];
                    format!(
                        "{},{},{},{},{},{},{},did={},cid={},df={},ver={}",
                        m.raw.base_of_image,
                        m.raw.size_of_image,
                        m.raw.checksum,
                        m.raw.time_date_stamp,
                        dotted(&ver),
                        name_text(&str_scalars(&m.name)),
                        cv_text(m.codeview_info.as_ref(), be),
                        opt_str(m.debug_identifier().map(|d| d.breakpad().to_string())),
                        opt_str(m.code_identifier().map(|c| c.to_string())),
                        match m.debug_file() {
                            None => "~".to_string(),
                            Some(f) => hex(f.as_bytes()),
                        },
                        opt_str(m.version().map(|v| v.to_string())),
                    )
                })
                .collect();
            let _ = write!(o, "[{}]", items.join(";"));
        }
    }
    // memory (get_memory: Memory64 preferred)
    o.push_str(" R=");
    let mem = dump.get_memory();
    match &mem {
        None => {
            // same error as the model's: the memory list's
            match dump.get_stream::<MinidumpMemoryList>() {
                Err(e) => o.push_str(&err_name(&e)),
                Ok(_) => o.push_str("?"),
            }
            o.push_str(" P=-");
        }
        Some(l) => {
            let items: Vec<String> = l
                .iter()
                .map(|r| match r {
                    UnifiedMemory::Memory(m) => format!("{},{}", m.base_address, blob(m.bytes)),
                    UnifiedMemory::Memory64(m) => format!("{},{}", m.base_address, blob(m.bytes)),
                })
                .collect();
            let _ = write!(o, "[{}]", items.join(";"));
            let rs: Vec<(u64, u64)> = l.iter().map(|r| (r.base_address(), r.size())).collect();
            let probes: Vec<String> = probe_addrs(&rs)
                .iter()
                .map(|&a| match l.memory_at_address(a).and_then(|r| r.get_memory_at_address::<u8>(a)) {
                    None => format!("{a}:~"),
                    Some(b) => format!("{a}:{b}"),
                })
                .collect();
            let _ = write!(o, " P={}", probes.join(","));
        }
    }
    // memory info
    o.push_str(" I=");
    match dump.get_stream::<MinidumpMemoryInfoList>() {
        Err(e) => o.push_str(&err_name(&e)),
        Ok(l) => {
            let items: Vec<String> = l
                .iter()
                .map(|r| {
                    format!(
                        "{},{},{},{},{},{},{}",
                        r.raw.base_address,
                        r.raw.allocation_base,
                        r.raw.allocation_protection,
                        r.raw.region_size,
                        r.raw.state,
                        r.raw.protection,
                        r.raw._type
                    )
                })
                .collect();
            let _ = write!(o, "[{}]", items.join(";"));
        }
    }
    // thread names
    o.push_str(" N=");
    match dump.get_stream::<MinidumpThreadNames>() {
        Err(e) => o.push_str(&err_name(&e)),
        Ok(names) => {
            let mut ids: Vec<u32> = ids.to_vec();
            ids.sort_unstable();
            ids.dedup();
            let items: Vec<String> = ids
                .iter()
                .filter_map(|id| names.get_name(*id).map(|n| format!("{},{}", id, name_text(&str_scalars(&n)))))
                .collect();
            let _ = write!(o, "[{}]", items.join(";"));
        }
    }
    // unloaded
    o.push_str(" U=");
    match dump.get_stream::<MinidumpUnloadedModuleList>() {
        Err(e) => o.push_str(&err_name(&e)),
        Ok(l) => {
            let items: Vec<String> = l
                .iter()
                .map(|m| {
                    format!(
                        "{},{},{},{},{}",
                        m.raw.base_of_image,
                        m.raw.size_of_image,
                        m.raw.checksum,
                        m.raw.time_date_stamp,
                        name_text(&str_scalars(&m.name))
                    )
                })
                .collect();
            let _ = write!(o, "[{}]", items.join(";"));
        }
    }
    // exception
    o.push_str(" X=");
    match dump.get_stream::<MinidumpException>() {
        Err(e) => o.push_str(&err_name(&e)),
        Ok(x) => {
            let dbg = format!("{:?}", x);
            let ctx = match debug_bytes(&dbg, ", context: ") {
                Some(c) => opt_blob(c.as_deref()),
                None => "?".into(),
            };
            let r = &x.raw.exception_record;
            let _ = write!(
                o,
                "{},{},{},{},{},{},{},{}",
                x.raw.thread_id,
                r.exception_code,
                r.exception_flags,
                r.exception_record,
                r.exception_address,
                r.number_parameters,
                dotted(&r.exception_information),
                ctx
            );
        }
    }
    // system info
    o.push_str(" S=");
    match dump.get_stream::<MinidumpSystemInfo>() {
        Err(e) => o.push_str(&err_name(&e)),
        Ok(s) => {
            let r = &s.raw;
            let _ = write!(
                o,
                "{},{},{},{},{},{},{},{},{},{},{},{}",
                r.processor_architecture,
                r.processor_level,
                r.processor_revision,
                r.number_of_processors,
                r.product_type,
                r.major_version,
                r.minor_version,
                r.build_number,
                r.platform_id,
                r.suite_mask,
                blob(&r.cpu.data),
                match s.csd_version() {
                    None => "~".to_string(),
                    Some(c) => name_text(&str_scalars(&c)),
                }
            );
        }
    }
    // misc info
    o.push_str(" Y=");
    match dump.get_stream::<MinidumpMiscInfo>() {
        Err(e) => o.push_str(&err_name(&e)),
        Ok(mi) => o.push_str(&misc_text(&mi)),
    }
    // handle data
    o.push_str(" H=");
    match dump.get_stream::<MinidumpHandleDataStream>() {
        Err(e) => o.push_str(&err_name(&e)),
        Ok(hs) => {
            let items: Vec<String> = hs
                .iter()
                .map(|h| {
                    let r = &h.raw;
                    let infos: Vec<String> = h.object_infos.iter().map(|i| format!("{}:{}", i.raw.info_type, i.raw.size_of_info)).collect();
                    let name = |n: &Option<String>| match n {
                        None => "~".to_string(),
                        Some(n) => name_text(&str_scalars(n)),
                    };
                    format!(
                        "{},{},{},{},{},{},{},{},{}",
                        if r.object_info_rva().is_some() { 2 } else { 1 },
                        r.handle().copied().unwrap_or(0),
                        name(&h.type_name),
                        name(&h.object_name),
                        r.attributes().copied().unwrap_or(0),
                        r.granted_access().copied().unwrap_or(0),
                        r.handle_count().copied().unwrap_or(0),
                        r.pointer_count().copied().unwrap_or(0),
                        infos.join("/")
                    )
                })
                .collect();
            let _ = write!(o, "[{}]", items.join(";"));
        }
    }
    // Linux maps
    o.push_str(" L=");
    match dump.get_stream::<MinidumpLinuxMaps>() {
        Err(e) => o.push_str(&err_name(&e)),
        Ok(maps) => {
            use procfs_core::process::MMapPath as P;
            use std::os::unix::ffi::OsStrExt;
            let entries: Vec<MapEntry> = maps
                .iter()
                .map(|r| {
                    let x = &r.map;
                    MapEntry {
                        lo: x.address.0,
                        hi: x.address.1,
                        perms: x.perms.bits(),
                        offset: x.offset,
                        major: x.dev.0 as u32,
                        minor: x.dev.1 as u32,
                        inode: x.inode,
                        path: match &x.pathname {
                            P::Path(p) => MapPath::Path(p.as_os_str().as_bytes().to_vec()),
                            P::Heap => MapPath::Heap,
                            P::Stack => MapPath::Stack,
                            P::TStack(t) => MapPath::TStack(*t),
                            P::Vdso => MapPath::Vdso,
                            P::Vvar => MapPath::Vvar,
                            P::Vsyscall => MapPath::Vsyscall,
                            P::Rollup => MapPath::Rollup,
                            P::Anonymous => MapPath::Anonymous,
                            P::Vsys(k) => MapPath::Vsys(*k as u32),
                            P::Other(s) => MapPath::Other(s.as_bytes().to_vec()),
                        },
                    }
                })
                .collect();
            let mut probes = Vec::new();
            for x in &entries {
                let mut addrs = Vec::new();
                if x.lo > 0 {
                    addrs.push(x.lo - 1);
                }
                addrs.push(x.lo);
                addrs.push(x.hi);
                if x.hi < u64::MAX {
                    addrs.push(x.hi + 1);
                }
                for a in addrs {
                    // the index of the entry the lookup serves
                    let found = maps.memory_info_at_address(a).and_then(|hit| maps.iter().position(|r| std::ptr::eq(r, hit)));
                    probes.push(match found {
                        None => format!("{a}:~"),
                        Some(i) => format!("{a}:{i}"),
                    });
                }
            }
            let _ = write!(o, "{}|{}", maps_text(&entries), probes.join(","));
        }
    }
    // Crashpad info
    o.push_str(" C=");
    match dump.get_stream::<MinidumpCrashpadInfo>() {
        Err(e) => o.push_str(&err_name(&e)),
        Ok(c) => {
            let guid = |g: &md::GUID| {
                let mut v = vec![g.data1, g.data2 as u32, g.data3 as u32];
                v.extend(g.data4.iter().map(|b| *b as u32));
                v
            };
            let mut ids = guid(&c.raw.report_id);
            ids.extend(guid(&c.raw.client_id));
            let kvs = |d: &std::collections::BTreeMap<String, String>| d.iter().map(|(k, v)| format!("{}:{}", xs(k.as_bytes()), xs(v.as_bytes()))).collect::<Vec<_>>().join("/");
            let ms: Vec<String> = c
                .module_list
                .iter()
                .map(|m| {
                    let anns: Vec<String> = m
                        .annotation_objects
                        .iter()
                        .map(|(k, v)| {
                            let val = match v {
                                MinidumpAnnotation::Invalid => "i".to_string(),
                                MinidumpAnnotation::String(s) => format!("s:{}", xs(s.as_bytes())),
                                MinidumpAnnotation::UserDefined(r) => format!("u:{}:{}", r.ty, r.value),
                                MinidumpAnnotation::Unsupported(r) => format!("n:{}:{}", r.ty, r.value),
                                _ => "?".to_string(),
                            };
                            format!("{}={}", xs(k.as_bytes()), val)
                        })
                        .collect();
                    format!(
                        "{}!{}!{}!{}!{}",
                        m.module_index,
                        m.raw.version,
                        m.list_annotations.iter().map(|s| xs(s.as_bytes())).collect::<Vec<_>>().join("/"),
                        kvs(&m.simple_annotations),
                        anns.join("/")
                    )
                })
                .collect();
            let _ = write!(o, "{},{},{},{}", c.raw.version, dotted(&ids), kvs(&c.simple_annotations), ms.join("+"));
        }
    }
    o
}

// --------------------------------------------- the oracle's own derivation of what must be reported

fn os_of(m: &Model) -> Os {
    match &m.sys {
        None => Os::Unknown(0),
        Some(s) => Os::from_platform_id(s.plat),
    }
}

/// Identifier rules, written from the documentation of the formats (not from minidump.rs):
/// * PDB 7.0: debug id = GUID as 32 upper-case hex digits (data1, data2, data3 as numbers, data4 as
///   bytes) followed by the age in lower-case hex; absent for the nil GUID.
/// * PDB 2.0: debug id = the signature (a timestamp) as 8 upper-case hex digits + age in lower-case hex.
/// * ELF build id: absent when all bytes are zero; else the first 16 bytes (zero padded) are a GUID
///   in the dump's byte order, age 0; code id = the whole build id in lower-case hex.
/// * PE code id = timestamp as 8 hex digits + image size in hex, lower case (also on Windows without
///   a CodeView record); on macOS/iOS the PDB 7.0 GUID in lower-case hex.
/// * debug file = the PDB file name up to the first NUL; for ELF the module's own name.
/// * version: only with the VS_FIXEDFILEINFO signature/struct version; Windows/macOS/iOS:
///   hi16.lo16 of file_version_hi and _lo; elsewhere the four version words in decimal.
fn module_ids(x: &Module, os: Os, be: bool) -> (Option<String>, Option<String>, Option<Vec<u32>>, Option<String>) {
    let upper = |b: &[u8]| b.iter().map(|v| format!("{:02X}", v)).collect::<String>();
    let lower = |b: &[u8]| b.iter().map(|v| format!("{:02x}", v)).collect::<String>();
    let pe_code = format!("{:08x}{:x}", x.time, x.size);
    let to_nul = |f: &[u8]| -> Option<Vec<u32>> {
        let end = f.iter().position(|b| *b == 0).unwrap_or(f.len());
        std::str::from_utf8(&f[..end]).ok().map(str_scalars)
    };
    let (did, cid, df) = match &x.cv {
        None => (None, if os == Os::Windows { Some(pe_code) } else { None }, None),
        Some(Cv::P7 { d1, d2, d3, d4, age, file }) => {
            let guid = format!("{:08X}{:04X}{:04X}{}", d1, d2, d3, upper(&d4.data));
            let nil = *d1 == 0 && *d2 == 0 && *d3 == 0 && d4.data.iter().all(|b| *b == 0);
            let cid = if matches!(os, Os::MacOs | Os::Ios) { guid.to_lowercase() } else { pe_code };
            (if nil { None } else { Some(format!("{}{:x}", guid, age)) }, Some(cid), to_nul(&file.data))
        }
        Some(Cv::P2 { sig, age, file, .. }) => (Some(format!("{:08X}{:x}", sig, age)), Some(pe_code), to_nul(&file.data)),
        Some(Cv::Elf(b)) => {
            if b.data.iter().all(|v| *v == 0) {
                (None, None, Some(x.name.clone()))
            } else {
                let mut g = b.data.clone();
                g.resize(16.max(g.len()), 0);
                let g = &g[..16];
                let did = if be {
                    format!("{}0", upper(g))
                } else {
                    format!(
                        "{:02X}{:02X}{:02X}{:02X}{:02X}{:02X}{:02X}{:02X}{}0",
                        g[3],
                        g[2],
                        g[1],
                        g[0],
                        g[5],
                        g[4],
                        g[7],
                        g[6],
                        upper(&g[8..])
                    )
                };
                (Some(did), Some(lower(&b.data)), Some(x.name.clone()))
            }
        }
        Some(Cv::Unk(..)) => (None, None, None),
    };
    let ver = if x.ver[0] == 0xfeef04bd && x.ver[1] == 0x10000 {
        if matches!(os, Os::Windows | Os::MacOs | Os::Ios) {
            Some(format!("{}.{}.{}.{}", x.ver[2] >> 16, x.ver[2] & 0xffff, x.ver[3] >> 16, x.ver[3] & 0xffff))
        } else {
            Some(format!("{}.{}.{}.{}", x.ver[2], x.ver[3], x.ver[4], x.ver[5]))
        }
    } else {
        None
    };
    (did, cid, df, ver)
}

/// the thread-name map: by id, last wins
fn names_map(m: &Model) -> Vec<(u32, Vec<u32>)> {
    let mut map = std::collections::BTreeMap::new();
    for (id, n) in &m.names {
        map.insert(*id, n.clone());
    }
    map.into_iter().collect()
}

/// the memory lookup a reader must provide: the byte of the region containing `a`, when exactly one
/// region contains it (overlaps are C08's business) — `Err(())` = no claim
fn model_byte_at(regions: &[&Region], a: u64) -> Result<Option<u8>, ()> {
    let mut hit = None;
    for (i, r) in regions.iter().enumerate() {
        let len = r.bytes.data.len() as u128;
        if len > 0 && (a as u128) >= r.base as u128 && (a as u128) < r.base as u128 + len {
            if hit.is_some() || intersects_other(regions, i) {
                return Err(());
            }
            hit = Some(r.bytes.data[(a - r.base) as usize]);
        }
    }
    Ok(hit)
}

fn intersects_other(regions: &[&Region], i: usize) -> bool {
    let r = regions[i];
    let (lo, hi) = (r.base as u128, r.base as u128 + r.bytes.data.len() as u128);
    regions.iter().enumerate().any(|(j, s)| {
        let (slo, shi) = (s.base as u128, s.base as u128 + s.bytes.data.len() as u128);
        j != i && shi > slo && lo < shi && slo < hi
    })
}

/// What a correct reader reports for the model (format of `real_report`), with `?` for the probe
/// results the property makes no claim about (addresses inside overlapping regions).
fn expected_report(m: &Model, be: bool, mem64: bool, as_code: bool) -> String {
    let os = os_of(m);
    let mut o = String::new();
    let _ = write!(o, "{} fl={}", if be { "be" } else { "le" }, m.flags);
    let t: Vec<String> = m
        .threads
        .iter()
        .map(|t| {
            format!(
                "{},{},{},{},{},{},{},{}",
                t.id,
                t.suspend,
                t.pclass,
                t.prio,
                t.teb,
                t.sbase,
                if t.stack.data.is_empty() { "~".to_string() } else { blob(&t.stack.data) },
                blob(&t.ctx.data)
            )
        })
        .collect();
    let _ = write!(o, " T=[{}]", t.join(";"));
    let ms: Vec<String> = m
        .modules
        .iter()
        // an entry of size 0 or wrapping around the address space is not a module. `as_code`: the code
        // also drops a module that ends exactly at 2^64 (known finding)
        .filter(|x| x.size != 0 && x.base as u128 + x.size as u128 <= (1u128 << 64) - as_code as u128)
        .map(|x| {
            let (did, cid, df, ver) = module_ids(x, os, be);
            let cv = match &x.cv {
                None => "-".to_string(),
                Some(Cv::P7 { d1, d2, d3, d4, age, file }) => format!("p7:{d1}:{d2}:{d3}:{}:{age}:{}", blob(&d4.data), blob(&file.data)),
                Some(Cv::P2 { off, sig, age, file }) => format!("p2:{off}:{sig}:{age}:{}", blob(&file.data)),
                Some(Cv::Elf(b)) => format!("elf:{}", blob(&b.data)),
                Some(Cv::Unk(sig, rest)) => format!("unk:{sig}:{}", blob(&rest.data)),
            };
            format!(
                "{},{},{},{},{},{},{},did={},cid={},df={},ver={}",
                x.base,
                x.size,
                x.chk,
                x.time,
                dotted(&x.ver),
                name_text(&x.name),
                cv,
                opt_str(did),
                opt_str(cid),
                match df {
                    None => "~".to_string(),
                    Some(f) => hex(name_string(&f).as_bytes()),
                },
                opt_str(ver)
            )
        })
        .collect();
    let _ = write!(o, " M=[{}]", ms.join(";"));
    // the 32-bit list cannot describe an empty region (the reader skips it); the 64-bit list keeps it
    let regions: Vec<&Region> = m.regions.iter().filter(|r| mem64 || !r.bytes.data.is_empty()).collect();
    let r: Vec<String> = regions.iter().map(|r| format!("{},{}", r.base, blob(&r.bytes.data))).collect();
    let _ = write!(o, " R=[{}]", r.join(";"));
    let rs: Vec<(u64, u64)> = regions.iter().map(|r| (r.base, r.bytes.data.len() as u64)).collect();
    let probes: Vec<String> = probe_addrs(&rs)
        .iter()
        .map(|&a| match model_byte_at(&regions, a) {
            Ok(None) => format!("{a}:~"),
            Ok(Some(b)) => format!("{a}:{b}"),
            Err(()) => format!("{a}:?"),
        })
        .collect();
    let _ = write!(o, " P={}", probes.join(","));
    let i: Vec<String> = m.infos.iter().map(|i| i.iter().map(|x| x.to_string()).collect::<Vec<_>>().join(",")).collect();
    let _ = write!(o, " I=[{}]", i.join(";"));
    let n: Vec<String> = names_map(m).iter().map(|(id, n)| format!("{},{}", id, name_text(n))).collect();
    let _ = write!(o, " N=[{}]", n.join(";"));
    let u: Vec<String> = m.unloaded.iter().map(|u| format!("{},{},{},{},{}", u.base, u.size, u.chk, u.time, name_text(&u.name))).collect();
    if as_code && m.unloaded.iter().any(|u| u.size == 0 || u.base as u128 + u.size as u128 >= 1u128 << 64) {
        // known finding: one unloaded module ending exactly at 2^64 fails the whole list
        o.push_str(" U=err ModuleReadFailure");
    } else {
        let _ = write!(o, " U=[{}]", u.join(";"));
    }
    match &m.exc {
        None => o.push_str(" X=err StreamNotFound"),
        Some(x) => {
            let _ = write!(o, " X={},{},{},{},{},{},{},{}", x.tid, x.code, x.flags, x.rec, x.addr, x.np, dotted(&x.info), blob(&x.ctx.data));
        }
    }
    match &m.sys {
        None => o.push_str(" S=err StreamNotFound"),
        Some(s) => {
            let _ = write!(
                o,
                " S={},{},{},{},{},{},{},{},{},{},{},{}",
                s.arch,
                s.level,
                s.rev,
                s.nproc,
                s.ptype,
                s.major,
                s.minor,
                s.build,
                s.plat,
                s.suite,
                blob(&s.cpu.data),
                name_text(&s.csd)
            );
        }
    }
    match &m.misc {
        None => o.push_str(" Y=err StreamNotFound"),
        Some(y) => {
            // a field is reported iff the revision has it and its Flags1 bit (if any) is set
            let mut out = vec![y.ver.to_string()];
            let fl = y.vals[1] as u32;
            for (name, since, bit, at, n) in MISC_FIELDS {
                let valid = y.ver >= since && (bit == 0 || fl & bit != 0);
                out.push(format!("{}={}", name, if valid { nat_list(&y.vals[at..at + n]) } else { "~".into() }));
            }
            let _ = write!(o, " Y={}", out.join(";"));
        }
    }
    match &m.handles {
        None => o.push_str(" H=err StreamNotFound"),
        Some(hd) => {
            let items: Vec<String> = hd
                .items
                .iter()
                .map(|h| {
                    // only the second kind of descriptor has an object-information chain
                    let infos: Vec<String> = if hd.v2 { h.infos.iter().map(|(t, s)| format!("{t}:{s}")).collect() } else { vec![] };
                    format!(
                        "{},{},{},{},{},{},{},{},{}",
                        if hd.v2 { 2 } else { 1 },
                        h.handle,
                        opt_name_text(&h.type_name),
                        opt_name_text(&h.object_name),
                        h.attributes,
                        h.access,
                        h.hcount,
                        h.pcount,
                        infos.join("/")
                    )
                })
                .collect();
            let _ = write!(o, " H=[{}]", items.join(";"));
        }
    }
    match &m.maps {
        // a raw stream of that type without a model of its contents: no claim (the model decoder and the
        // real reader are still compared on it)
        None if m.extra.iter().any(|(ty, _)| *ty == 0x47670009) => o.push_str(" L=?"),
        None => o.push_str(" L=err StreamNotFound"),
        Some(ms) => {
            // the entries in file order; the address lookups are C08's subject (overlaps, the final
            // address taken as inclusive): no claim here
            let _ = write!(o, " L={}|?", maps_text(ms));
        }
    }
    match &m.crashpad {
        None => o.push_str(" C=err StreamNotFound"),
        Some(c) => {
            // dictionaries are maps by key (byte order = UTF-8 string order), the last duplicate wins;
            // annotation objects likewise, by name; list annotations and modules keep file order
            let map = |d: &[(Vec<u8>, Vec<u8>)]| {
                let mut b = std::collections::BTreeMap::new();
                for (k, v) in d {
                    b.insert(k.clone(), v.clone());
                }
                b.iter().map(|(k, v)| format!("{}:{}", xs(k), xs(v))).collect::<Vec<_>>().join("/")
            };
            let ms: Vec<String> = c
                .modules
                .iter()
                .map(|m| {
                    let mut b = std::collections::BTreeMap::new();
                    for a in &m.anns {
                        let val = match a {
                            Ann::Invalid(_) => "i".to_string(),
                            Ann::Str(_, v) => format!("s:{}", xs(v)),
                            Ann::Other(_, ty, v) if *ty >= 0x8000 => format!("u:{ty}:{v}"),
                            Ann::Other(_, ty, v) => format!("n:{ty}:{v}"),
                        };
                        b.insert(a.name().to_vec(), val);
                    }
                    format!(
                        "{}!{}!{}!{}!{}",
                        m.index,
                        m.version,
                        m.list.iter().map(|s| xs(s)).collect::<Vec<_>>().join("/"),
                        map(&m.dict),
                        b.iter().map(|(k, v)| format!("{}={}", xs(k), v)).collect::<Vec<_>>().join("/")
                    )
                })
                .collect();
            let mut ids = c.report_id.to_vec();
            ids.extend(c.client_id);
            let _ = write!(o, " C={},{},{},{}", c.version, dotted(&ids), map(&c.dict), ms.join("+"));
        }
    }
    o
}

/// split a report into its sections `(key, text)`; the first token is the byte order
fn sections(rep: &str) -> Vec<(String, String)> {
    let mut out = Vec::new();
    for (i, tok) in rep.split(' ').enumerate() {
        if i == 0 {
            out.push(("endian".to_string(), tok.to_string()));
        } else if let Some((k, v)) = tok.split_once('=') {
            // module entries contain `did=`…: only a leading upper-case key or `fl` starts a section
            if k == "fl" || (k.len() == 1 && k.chars().all(|c| c.is_ascii_uppercase())) {
                out.push((k.to_string(), v.to_string()));
                continue;
            }
            if let Some(last) = out.last_mut() {
                last.1.push(' ');
                last.1.push_str(tok);
            }
        } else if let Some(last) = out.last_mut() {
            last.1.push(' ');
            last.1.push_str(tok);
        }
    }
    out
}

/// compare a reader's report with the expected one; `?` probe results in `exp` match anything.
/// Returns the keys of the sections that differ (for `P`: with the addresses that differ).
fn diff_reports(got: &str, exp: &str) -> Vec<(String, Vec<u64>)> {
    let (g, e) = (sections(got), sections(exp));
    if g.len() != e.len() {
        return vec![("shape".into(), vec![])];
    }
    let mut bad = Vec::new();
    for ((gk, gv), (ek, ev)) in g.iter().zip(e.iter()) {
        if gk != ek {
            return vec![("shape".into(), vec![])];
        }
        if gk == "P" {
            let (gp, ep): (Vec<&str>, Vec<&str>) = (gv.split(',').collect(), ev.split(',').collect());
            if gp.len() != ep.len() {
                bad.push((gk.clone(), vec![]));
                continue;
            }
            let addrs: Vec<u64> = gp
                .iter()
                .zip(ep.iter())
                .filter(|(a, b)| !(a == b || (b.ends_with(":?") && a.split(':').next() == b.split(':').next())))
                .map(|(_, b)| b.split(':').next().and_then(|x| x.parse().ok()).unwrap_or(0))
                .collect();
            if !addrs.is_empty() {
                bad.push((gk.clone(), addrs));
            }
        } else if gk == "L" && ev == "?" {
        } else if gk == "L" && ev.ends_with("|?") {
            if gv.split('|').next() != ev.split('|').next() {
                bad.push((gk.clone(), vec![]));
            }
        } else if gv != ev {
            bad.push((gk.clone(), vec![]));
        }
    }
    bad
}

/// classes of the known divergence between code and property text (see notes/C02.md)
const CLASS_TOP: &str = "mem-top-of-address-space-unreachable";
const CLASS_TOP_MODULE: &str = "module-at-top-of-address-space-dropped";
const CLASS_TOP_UNLOADED: &str = "unloaded-module-at-top-of-address-space-fails-list";

fn section_of(rep: &str, key: &str) -> Option<String> {
    sections(rep).into_iter().find(|(k, _)| k == key).map(|(_, v)| v)
}

/// does the model contain a region that extends BEYOND the top of the address space (base + size >
/// 2^64)? No process has such memory: the model is outside the property's quantifier (and outside
/// `WellFormed`), the case is counted as `pre-rejected:region-wraps`.
fn region_wraps(m: &Model) -> bool {
    m.regions.iter().any(|r| r.base as u128 + r.bytes.data.len() as u128 > 1u128 << 64)
}

/// does the model contain a region that ends exactly at 2^64?
fn top_region(m: &Model) -> bool {
    m.regions.iter().any(|r| !r.bytes.data.is_empty() && r.base as u128 + r.bytes.data.len() as u128 == 1u128 << 64)
}
/// is `a` an address of a region that ends exactly at 2^64?
fn in_top_region(m: &Model, a: u64) -> bool {
    m.regions.iter().any(|r| !r.bytes.data.is_empty() && r.base as u128 + r.bytes.data.len() as u128 == 1u128 << 64 && a >= r.base)
}

const CFGS: [(bool, bool); 4] = [(false, false), (true, false), (false, true), (true, true)];

fn name_ids(m: &Model) -> Vec<u32> {
    let mut ids: Vec<u32> = m.names.iter().map(|(id, _)| *id).collect();
    ids.extend(m.threads.iter().map(|t| t.id));
    let more: Vec<u32> = ids.iter().map(|i| i.wrapping_add(1)).collect();
    ids.extend(more);
    ids.push(0);
    ids
}

/// every address of every region that intersects no other region reads back the model's byte
fn memory_oracle(m: &Model, bytes: &[u8], mem64: bool, tier_all: usize, oracle: &mut Vec<(String, String)>, tag: &str) {
    let Ok(dump) = Minidump::<&[u8]>::read(bytes) else { return };
    let Some(mem) = dump.get_memory() else { return };
    let regions: Vec<&Region> = m.regions.iter().filter(|r| mem64 || !r.bytes.data.is_empty()).collect();
    for (i, r) in regions.iter().enumerate() {
        let len = r.bytes.data.len();
        if len == 0 || intersects_other(&regions, i) {
            continue;
        }
        let top = r.base as u128 + len as u128 == 1u128 << 64;
        let offs: Vec<usize> = if len <= tier_all {
            (0..len).collect()
        } else {
            let mut v: Vec<usize> = vec![0, 1, len / 2, len - 2, len - 1];
            let mut x = fnv64(&r.base.to_le_bytes());
            for _ in 0..256 {
                x = x.wrapping_mul(6364136223846793005).wrapping_add(1442695040888963407);
                v.push((x >> 33) as usize % len);
            }
            v
        };
        for off in offs {
            let a = r.base + off as u64;
            let got = mem.memory_at_address(a).and_then(|x| x.get_memory_at_address::<u8>(a));
            if got != Some(r.bytes.data[off]) {
                let class = if top { CLASS_TOP.to_string() } else { "memory-byte-differs".to_string() };
                oracle.push((class, format!("{tag}: region base={} len={} address {} reads {:?}, the dump holds {}", r.base, len, a, got, r.bytes.data[off])));
                break;
            }
        }
    }
}

impl Engine for Roundtrip {
    fn name(&self) -> &'static str {
        "roundtrip"
    }
    fn rule(&self) -> String {
        "abstract dump models (0..40 items per list in the thorough tier, names from arbitrary well-formed UTF-16 incl. \
         non-BMP, build ids of length 0..64, arbitrary GUID/age, regions up to 4 KiB (quick) / 64 KiB (thorough), \
         addresses anywhere in u64 incl. the top of the address space, duplicate directory entries, optional list \
         padding) x {LE,BE} x {MemoryList,Memory64List}; serialized by minidump-synth AND by the Lean encoder, read \
         by the real crate AND by the Lean decoder; non-trivial = at least one thread, module or memory region; \
         PLUS thread contexts as register files (`roundtrip ctx` cases): per architecture with a context record (x86, IA32-on-WIN64, \
         amd64, ppc, ppc64, sparc, arm, arm64, old arm64, mips) register files with values 0 / all ones / 2^32-1 / pairwise distinct / \
         boundary / random, flags of this CPU, with dropped bits, or of another CPU, written by a foreign writer (minidump-synth context \
         sections or documented offsets) and by the Lean encoder, read by the real MinidumpThread::context and by the Lean decoder, \
         both byte orders, every register by name and alias; non-trivial = a record type with at least one non-zero register"
            .into()
    }

    fn generate(&self, tier: Tier, rng: &mut Rng, emit: &mut dyn FnMut(String)) {
        let n = if tier == Tier::Quick { 700 } else { 6000 };
        for k in 0..n {
            let m = gen_model(rng, tier, k);
            emit(m.line());
        }
        regctx::generate(tier, rng, emit);
    }

    fn exec(&self, case: &str) -> ImplResult {
        if case.starts_with("roundtrip ctx ") {
            return regctx::exec(case);
        }
        let mut res = ImplResult::default();
        let Some(m) = Model::parse(case) else {
            res.out = "bad-case".into();
            res.oracle.push(("bad-case".into(), "the case line does not parse".into()));
            return res;
        };
        if region_wraps(&m) {
            res.out = "pre-rejected:region-wraps".into();
            res.tags.push("pre-rejected".into());
            res.tags.push("pre-rejected:region-wraps".into());
            return res;
        }
        let ids = name_ids(&m);
        let mut outs = Vec::new();
        let total: usize = m.regions.iter().map(|r| r.bytes.data.len()).sum();
        for (be, mem64) in CFGS {
            let tag = format!("{}/{}", if be { "be" } else { "le" }, if mem64 { "mem64" } else { "mem" });
            let bytes = match catch(|| build_synth(&m, be, mem64)) {
                Ok(Some(b)) => b,
                _ => {
                    res.oracle.push(("synth-failed".into(), format!("{tag}: minidump-synth could not serialize the model")));
                    outs.push("synth-failed".to_string());
                    continue;
                }
            };
            let rep = match catch(|| real_report(&bytes, &ids)) {
                Ok(r) => r,
                Err(p) => {
                    res.oracle.push(("reader-panic".into(), format!("{tag}: {p}")));
                    "PANIC".to_string()
                }
            };
            let exp = expected_report(&m, be, mem64, false);
            let exp_code = expected_report(&m, be, mem64, true);
            for (sec, addrs) in diff_reports(&rep, &exp) {
                let as_code = section_of(&rep, &sec).is_some() && section_of(&rep, &sec) == section_of(&exp_code, &sec);
                let class = if sec == "P" && !addrs.is_empty() && addrs.iter().all(|a| in_top_region(&m, *a)) {
                    CLASS_TOP.to_string()
                } else if sec == "M" && as_code {
                    CLASS_TOP_MODULE.to_string()
                } else if sec == "U" && as_code {
                    CLASS_TOP_UNLOADED.to_string()
                } else {
                    format!("reported-differs-{sec}")
                };
                res.oracle.push((class, format!("{tag}: reader reports {rep} — the model is {exp}")));
            }
            let _ = catch(|| memory_oracle(&m, &bytes, mem64, 4096, &mut res.oracle, &tag));
            // last duplicate served. For a type the serializer emits itself (after the extras) the
            // report comparison above decides: a raw extra served in its place would be reported
            // instead of the model's items. For any other type the LAST extra of that type is served.
            if let Ok(dump) = Minidump::<&[u8]>::read(&bytes[..]) {
                let core = |ty: u32| [3u32, 4, 5, 9, 16, 24, 14].contains(&ty) || (ty == 6 && m.exc.is_some()) || (ty == 7 && m.sys.is_some()) || (ty == 15 && m.misc.is_some()) || (ty == 12 && m.handles.is_some()) || (ty == 0x47670009 && m.maps.is_some()) || (ty == 0x43500001 && m.crashpad.is_some());
                let mut seen = Vec::new();
                for (ty, _) in m.extra.iter() {
                    if core(*ty) || seen.contains(ty) {
                        continue;
                    }
                    seen.push(*ty);
                    let same_ty: Vec<&Blob> = m.extra.iter().filter(|(t2, _)| t2 == ty).map(|(_, b)| b).collect();
                    let last = same_ty.last().unwrap();
                    match dump.get_raw_stream(*ty) {
                        Ok(raw) if raw == &last.data[..] => {}
                        Ok(raw) => {
                            let class = if same_ty.iter().any(|b| b.data == raw) { "earlier-duplicate-served" } else { "raw-stream-differs" };
                            res.oracle.push((class.into(), format!("{tag}: stream type {ty}: {} entries, served {} — the last one is {}", same_ty.len(), hex(raw), last.text)));
                        }
                        Err(e) => res.oracle.push(("raw-stream-differs".into(), format!("{tag}: stream type {ty}: {}", e.name()))),
                    }
                }
            }
            outs.push(rep);
        }
        // LE and BE parse to the same result (the byte-order tag aside; an ELF debug id is by
        // definition the GUID in the dump's byte order, so that field is compared per byte order
        // against `expected_report` above and masked here)
        for (a, b) in [(0usize, 1usize), (2, 3)] {
            if outs.len() >= 4 {
                let strip = |s: &str| -> String {
                    let s = s.splitn(2, ' ').nth(1).unwrap_or("").to_string();
                    if m.modules.iter().any(|x| matches!(x.cv, Some(Cv::Elf(_)))) {
                        mask_elf_debug_ids(&s)
                    } else {
                        s
                    }
                };
                if strip(&outs[a]) != strip(&outs[b]) {
                    res.oracle.push(("endian-dependent".into(), format!("LE: {} — BE: {}", outs[a], outs[b])));
                }
            }
        }
        // fifth part: what `same` must know about the model. `raw-L`: a raw LinuxMaps stream without a model
        // of its contents (outside `WellFormed`): `report m e f` makes no claim about that section.
        let raw_l = m.maps.is_none() && m.extra.iter().any(|(ty, _)| *ty == 0x47670009);
        outs.push(if raw_l { "raw-L".to_string() } else { "-".to_string() });
        res.out = outs.join(" ## ");
        res.nontrivial = !m.threads.is_empty() || !m.modules.is_empty() || !m.regions.is_empty();
        res.tags.push(format!("threads:{}", bucket(m.threads.len())));
        res.tags.push(format!("modules:{}", bucket(m.modules.len())));
        res.tags.push(format!("regions:{}", bucket(m.regions.len())));
        res.tags.push(format!("membytes:{}", bucket(total)));
        res.tags.push(format!("pad:{}", m.pad as u8));
        res.tags.push(format!("extras:{}", bucket(m.extra.len())));
        if m.exc.is_some() {
            res.tags.push("exception".into());
        }
        if let Some(s) = &m.sys {
            res.tags.push(format!("os:{:?}", Os::from_platform_id(s.plat)).replace(['(', ')'], "_"));
        } else {
            res.tags.push("os:none".into());
        }
        for x in &m.modules {
            res.tags.push(
                match &x.cv {
                    None => "cv:none",
                    Some(Cv::P7 { .. }) => "cv:pdb70",
                    Some(Cv::P2 { .. }) => "cv:pdb20",
                    Some(Cv::Elf(_)) => "cv:elf",
                    Some(Cv::Unk(..)) => "cv:unknown",
                }
                .into(),
            );
        }
        if top_region(&m) {
            res.tags.push("region-at-top".into());
        }
        match &m.crashpad {
            None => res.tags.push("crashpad:none".into()),
            Some(c) => {
                res.tags.push(format!("crashpad:modules:{}", bucket(c.modules.len())));
                res.tags.push(format!("crashpad:dict:{}", bucket(c.dict.len())));
                res.tags.push(if c.synth_stream(TEndian::Little).is_some() && fnv64(c.text().as_bytes()) & 1 == 0 { "crashpad:by-synth".into() } else { "crashpad:by-hand".into() });
                for m in &c.modules {
                    for a in &m.anns {
                        res.tags.push(match a {
                            Ann::Invalid(_) => "ann:invalid".to_string(),
                            Ann::Str(..) => "ann:string".to_string(),
                            Ann::Other(_, ty, _) if *ty >= 0x8000 => "ann:user".to_string(),
                            Ann::Other(..) => "ann:unsupported".to_string(),
                        });
                    }
                }
            }
        }
        match &m.maps {
            None => res.tags.push("maps:none".into()),
            Some(ms) => {
                res.tags.push(format!("maps:{}", bucket(ms.len())));
                for x in ms {
                    res.tags.push(format!("mappath:{}", x.path.text().chars().next().unwrap_or('?')));
                }
            }
        }
        match &m.handles {
            None => res.tags.push("handles:none".into()),
            Some(h) => {
                res.tags.push(format!("handles:v{}:{}", if h.v2 { 2 } else { 1 }, bucket(h.items.len())));
                res.tags.push(format!("handle-infos:{}", bucket(h.items.iter().map(|x| x.infos.len()).max().unwrap_or(0))));
            }
        }
        match &m.misc {
            None => res.tags.push("misc:none".into()),
            Some(y) => {
                res.tags.push(format!("misc:v{}", y.ver));
                if !y.tail.data.is_empty() {
                    res.tags.push("misc:tail".into());
                }
            }
        }
        res
    }

    /// The largest thorough-tier models (dozens of 64 KiB regions x 4 configurations, each file hex-encoded
    /// to the Lean model and back) take ~25 s on an idle core; on a loaded machine the default 60 s was
    /// exceeded and reported as `hang` (a false alarm: termination is not this property's claim).
    fn case_timeout_secs(&self) -> u64 {
        600
    }

    fn model_request(&self, case: &str) -> Option<String> {
        if case.starts_with("roundtrip ctx ") {
            return regctx::model_request(case);
        }
        let m = Model::parse(case)?;
        if region_wraps(&m) {
            return None;
        }
        let mut hexes = Vec::new();
        for (be, mem64) in CFGS {
            let bytes = catch(|| build_synth(&m, be, mem64)).ok().flatten()?;
            hexes.push(hex(&bytes));
        }
        let model = case.strip_prefix("roundtrip ")?;
        Some(format!("roundtrip all {} {}", hexes.join(" "), model))
    }

    /// `model_out` = 4 decode answers ## 4 encodings (hex) ## 4 `report`s
    fn same(&self, impl_out: &str, model_out: &str) -> bool {
        if impl_out.starts_with("roundtrip ctx ") {
            return regctx::same(impl_out, model_out);
        }
        let i: Vec<&str> = impl_out.split(" ## ").collect();
        let mo: Vec<&str> = model_out.split(" ## ").collect();
        if i.len() != 5 || mo.len() != 12 {
            return false;
        }
        let raw_l = i[4] == "raw-L";
        // drop the L section (see `raw-L`)
        let mask = |rep: &str| -> String {
            if !raw_l {
                return rep.to_string();
            }
            sections(rep).into_iter().filter(|(k, _)| k != "L").map(|(k, v)| format!("{k}={v}")).collect::<Vec<_>>().join(" ")
        };
        // 1. the model decoder agrees with the real reader on the foreign serializer's files
        if (0..4).any(|k| i[k] != mo[k]) {
            return false;
        }
        // the model is recovered from the impl's own first report? no: re-derive from the encodings.
        // 2. the real reader reads the Lean encoder's files and reports what the Lean `report` says,
        //    and 3. both equal the real reader's report of the synth file in the same configuration
        //    (i.e. all three serializer/reader pairings agree).
        for k in 0..4 {
            let Some(bytes) = unhex(mo[4 + k]) else { return false };
            // thread ids for the name map: every id mentioned in the Lean report's N section
            let ids: Vec<u32> = sections(mo[8 + k])
                .iter()
                .filter(|(key, _)| key == "N")
                .flat_map(|(_, v)| {
                    v.trim_matches(['[', ']']).split(';').filter_map(|it| it.split(',').next().and_then(|x| x.parse::<u32>().ok())).collect::<Vec<_>>()
                })
                .flat_map(|id| [id, id.wrapping_add(1), 0])
                .collect();
            let real_on_lean = match catch(|| real_report(&bytes, &ids)) {
                Ok(r) => r,
                Err(_) => return false,
            };
            if mask(&real_on_lean) != mask(mo[8 + k]) {
                return false;
            }
            if real_on_lean != i[k] {
                return false;
            }
        }
        true
    }

    fn shrink(&self, case: &str, still_fails: &dyn Fn(&str) -> bool) -> String {
        if case.starts_with("roundtrip ctx ") {
            return regctx::shrink(case, still_fails);
        }
        let Some(mut m) = Model::parse(case) else { return case.to_string() };
        // drop list items one at a time while the failure persists
        macro_rules! shrink_list {
            ($field:ident) => {
                let mut i = 0;
                while i < m.$field.len() {
                    let mut c = m.clone();
                    c.$field.remove(i);
                    if still_fails(&c.line()) {
                        m = c;
                    } else {
                        i += 1;
                    }
                }
            };
        }
        shrink_list!(threads);
        shrink_list!(modules);
        shrink_list!(regions);
        shrink_list!(infos);
        shrink_list!(names);
        shrink_list!(unloaded);
        shrink_list!(extra);
        if let Some(h) = &m.handles {
            let mut i = 0;
            let mut cur = h.clone();
            while i < cur.items.len() {
                let mut c = m.clone();
                let mut hc = cur.clone();
                hc.items.remove(i);
                c.handles = Some(hc.clone());
                if still_fails(&c.line()) {
                    m = c;
                    cur = hc;
                } else {
                    i += 1;
                }
            }
        }
        if let Some(ms) = &m.maps {
            let mut i = 0;
            let mut cur = ms.clone();
            while i < cur.len() {
                let mut c = m.clone();
                let mut mc = cur.clone();
                mc.remove(i);
                c.maps = Some(mc.clone());
                if still_fails(&c.line()) {
                    m = c;
                    cur = mc;
                } else {
                    i += 1;
                }
            }
        }
        if let Some(cp) = &m.crashpad {
            let mut cur = cp.clone();
            let mut i = 0;
            while i < cur.modules.len() {
                let mut c = m.clone();
                let mut cc = cur.clone();
                cc.modules.remove(i);
                c.crashpad = Some(cc.clone());
                if still_fails(&c.line()) {
                    m = c;
                    cur = cc;
                } else {
                    i += 1;
                }
            }
            let mut i = 0;
            while i < cur.dict.len() {
                let mut c = m.clone();
                let mut cc = cur.clone();
                cc.dict.remove(i);
                c.crashpad = Some(cc.clone());
                if still_fails(&c.line()) {
                    m = c;
                    cur = cc;
                } else {
                    i += 1;
                }
            }
        }
        for f in 0..8 {
            let mut c = m.clone();
            match f {
                0 => c.exc = None,
                1 => c.sys = None,
                2 => c.pad = false,
                3 => c.misc = None,
                4 => c.handles = None,
                5 => c.maps = None,
                6 => c.crashpad = None,
                _ => c.flags = 0,
            }
            if c != m && still_fails(&c.line()) {
                m = c;
            }
        }
        // smaller blobs
        for i in 0..m.regions.len() {
            for len in [0usize, 1, 2, 16] {
                if len < m.regions[i].bytes.data.len() {
                    let mut c = m.clone();
                    c.regions[i].bytes = Blob::pat(1, len);
                    if still_fails(&c.line()) {
                        m = c;
                        break;
                    }
                }
            }
        }
        for i in 0..m.threads.len() {
            for which in 0..2 {
                let mut c = m.clone();
                if which == 0 {
                    c.threads[i].stack = Blob::pat(2, 1.min(c.threads[i].stack.data.len()));
                } else {
                    c.threads[i].ctx = Blob::raw(vec![]);
                }
                if c != m && still_fails(&c.line()) {
                    m = c;
                }
            }
        }
        m.line()
    }
}

/// replace the `did=` value of modules with an ELF record by `*` (see the comment at the call site)
fn mask_elf_debug_ids(rep: &str) -> String {
    let mut out = String::new();
    let mut rest = rep;
    while let Some(p) = rest.find(",elf:") {
        let Some(q) = rest[p..].find(",did=") else { break };
        let Some(r) = rest[p + q..].find(",cid=") else { break };
        out.push_str(&rest[..p + q + 5]);
        out.push('*');
        rest = &rest[p + q + r..];
    }
    out.push_str(rest);
    out
}

fn bucket(n: usize) -> &'static str {
    match n {
        0 => "0",
        1 => "1",
        2..=4 => "2-4",
        5..=16 => "5-16",
        17..=40 => "17-40",
        41..=4096 => "41-4096",
        _ => ">4096",
    }
}

// ------------------------------------------------------------------------------------- generator

fn rand_scalar(rng: &mut Rng) -> u32 {
    loop {
        let c = match rng.below(8) {
            0..=3 => rng.range(0x20, 0x7e) as u32,
            4 => rng.range(0x80, 0xd7ff) as u32,
            5 => rng.range(0xe000, 0xffff) as u32,
            6 => rng.range(0x10000, 0x10ffff) as u32,
            _ => *rng.pick(&[0u32, 1, 0xd7ff, 0xe000, 0xfffd, 0xffff, 0x10000, 0x10ffff, 0x1f600]),
        };
        if char::from_u32(c).is_some() {
            return c;
        }
    }
}

fn rand_name(rng: &mut Rng, max: u64) -> Vec<u32> {
    if rng.chance(1, 5) {
        let pool = ["libxul.so", "C:\\Windows\\System32\\ntdll.dll", "κόσμε", "日本語", "😀 emoji", "", "/usr/lib/libc.so.6", "a"];
        let s: &&str = rng.pick(&pool[..]); return str_scalars(s);
    }
    let n = rng.below(max + 1);
    let mut v: Vec<u32> = (0..n).map(|_| rand_scalar(rng)).collect();
    // names that START with what a byte-order-mark sniffing decoder would swallow or reinterpret:
    // U+FEFF, U+FFFE, and the code units whose bytes spell the UTF-8 BOM in either byte order
    if rng.chance(1, 10) {
        let lead: &[u32] = match rng.below(5) {
            0 => &[0xfeff],
            1 => &[0xfffe],
            2 => &[0xbbef, 0x41bf],
            3 => &[0xefbb, 0xbf41],
            _ => &[0xfeff, 0xfeff],
        };
        let mut w = lead.to_vec();
        w.extend(v);
        v = w;
        if rng.chance(1, 3) {
            v.truncate(lead.len());
        }
    }
    v
}

fn rand_u64(rng: &mut Rng) -> u64 {
    match rng.below(8) {
        0 => *rng.pick(&[0u64, 1, u32::MAX as u64, 1 << 32, u64::MAX, u64::MAX - 1, 1 << 63, (1 << 47) - 1]),
        1 => u64::MAX - rng.below(0x2_0000),
        2 => rng.below(0x1_0000),
        _ => rng.next() >> rng.below(64),
    }
}
fn rand_u32(rng: &mut Rng) -> u32 {
    match rng.below(6) {
        0 => *rng.pick(&[0u32, 1, u32::MAX, u32::MAX - 1, 1 << 31, 0xffff, 0x10000]),
        _ => (rng.next() >> rng.below(32)) as u32,
    }
}

fn rand_blob(rng: &mut Rng, max: usize) -> Blob {
    let len = match rng.below(6) {
        0 => 0,
        1 => rng.below(4) as usize,
        2 => max,
        _ => rng.below(max as u64 + 1) as usize,
    };
    if len <= 24 && rng.chance(1, 2) {
        Blob::raw((0..len).map(|_| rng.next() as u8).collect())
    } else {
        Blob::pat(rng.below(256), len)
    }
}

/// a context record the reader's CPU-specific parser would accept, or arbitrary bytes: C02 carries
/// contexts as raw bytes
fn rand_ctx(rng: &mut Rng, be: bool) -> Blob {
    let e = tend(be);
    match rng.below(6) {
        0 => Blob::raw(synth::x86_context(e, rng.next() as u32, rng.next() as u32).get_contents().unwrap_or_default()),
        1 => Blob::raw(synth::amd64_context(e, rng.next(), rng.next()).get_contents().unwrap_or_default()),
        2 => Blob::raw(synth::arm64_context(e, rng.next(), rng.next()).get_contents().unwrap_or_default()),
        3 => Blob::raw(vec![]),
        _ => rand_blob(rng, 300),
    }
}

fn rand_cv(rng: &mut Rng) -> Option<Cv> {
    let file = |rng: &mut Rng| -> Blob {
        let pool: [&[u8]; 6] = [b"c:\\foo\\file.pdb\0", b"file.pdb", b"\0", b"", b"a.pdb\0junk\0", "κόσμε.pdb\0".as_bytes()];
        Blob::raw(rng.pick(&pool).to_vec())
    };
    match rng.below(7) {
        0 | 1 => {
            let zero = rng.chance(1, 8);
            Some(Cv::P7 {
                d1: if zero { 0 } else { rand_u32(rng) },
                d2: if zero { 0 } else { rng.next() as u16 },
                d3: if zero { 0 } else { rng.next() as u16 },
                d4: Blob::raw(if zero { vec![0; 8] } else { (0..8).map(|_| rng.next() as u8).collect() }),
                age: if rng.chance(1, 2) { rng.below(20) as u32 } else { rand_u32(rng) },
                file: file(rng),
            })
        }
        2 => Some(Cv::P2 { off: rand_u32(rng), sig: rand_u32(rng), age: rand_u32(rng), file: file(rng) }),
        3 | 4 => {
            // build ids of length 0..64, all-zero ones included
            let len = *rng.pick(&[0usize, 1, 8, 15, 16, 17, 20, 32, 64, 3, 40]);
            let len = if rng.chance(1, 3) { rng.below(65) as usize } else { len };
            let zero = rng.chance(1, 8);
            // partially zero ids: only the first 16 bytes feed the debug id, only an ALL-zero id is "absent"
            let shape = rng.below(8);
            Some(Cv::Elf(Blob::raw(
                (0..len)
                    .map(|k| match shape {
                        _ if zero => 0,
                        0 => if k < 16 { 0 } else { 1 + rng.below(255) as u8 },      // zero GUID part, non-zero tail
                        1 => if k < 16 { rng.next() as u8 } else { 0 },              // the reverse
                        2 => if k + 1 == len { 1 } else { 0 },                        // one non-zero byte, the last
                        3 => if k == 0 { 1 } else { 0 },                              // ... the first
                        _ => rng.next() as u8,
                    })
                    .collect(),
            )))
        }
        5 => {
            // a signature that is none of the three known ones in EITHER byte order
            let sig = loop {
                let s = rand_u32(rng);
                let known = [md::CvSignature::Pdb70 as u32, md::CvSignature::Pdb20 as u32, md::CvSignature::Elf as u32];
                if !known.contains(&s) && !known.contains(&s.swap_bytes()) {
                    break s;
                }
            };
            Some(Cv::Unk(sig, rand_blob(rng, 40)))
        }
        _ => None,
    }
}

fn gen_model(rng: &mut Rng, tier: Tier, k: usize) -> Model {
    let thorough = tier == Tier::Thorough;
    let max_items: u64 = if thorough {
        if k % 10 == 0 {
            40
        } else {
            8
        }
    } else if k % 25 == 0 {
        12
    } else {
        4
    };
    let max_region: usize = if thorough {
        if k % 50 == 0 {
            65536
        } else {
            2048
        }
    } else if k % 40 == 0 {
        4096
    } else {
        256
    };
    let mut m = Model { flags: if rng.chance(1, 2) { 0 } else { rand_u64(rng) }, pad: rng.chance(1, 3), ..Default::default() };
    let be_ctx = rng.chance(1, 2);
    let count = |rng: &mut Rng| -> u64 {
        match rng.below(5) {
            0 => 0,
            1 => 1,
            _ => rng.below(max_items + 1),
        }
    };
    // system info
    if rng.chance(4, 5) {
        let plats = [1u32, 2, 3, 4, 0x8000, 0x8101, 0x8102, 0x8201, 0x8202, 0x8203, 0x8204, 0x8205, 0, 0xdead];
        m.sys = Some(Sys {
            arch: *rng.pick(&[0u16, 9, 5, 12, 1, 3, 0x8003, 0xffff]),
            level: rng.next() as u16,
            rev: rng.next() as u16,
            nproc: rng.next() as u8,
            ptype: rng.next() as u8,
            major: rand_u32(rng),
            minor: rand_u32(rng),
            build: rand_u32(rng),
            plat: *rng.pick(&plats),
            suite: rng.next() as u16,
            cpu: Blob::raw((0..24).map(|_| rng.next() as u8).collect()),
            csd: rand_name(rng, 12),
        });
    }
    // threads
    let nt = count(rng);
    for i in 0..nt {
        let plain = rng.chance(1, 2);
        m.threads.push(Thread {
            id: if rng.chance(1, 6) { rand_u32(rng) } else { 0x100 + i as u32 },
            suspend: if plain { 0 } else { rand_u32(rng) },
            pclass: if plain { 0 } else { rand_u32(rng) },
            prio: if plain { 0 } else { rand_u32(rng) },
            teb: if plain { 0 } else { rand_u64(rng) },
            sbase: rand_u64(rng),
            stack: rand_blob(rng, 200.min(max_region)),
            ctx: rand_ctx(rng, be_ctx),
        });
    }
    // synth writes either all threads itself or none: make the list homogeneous
    if m.threads.iter().any(|t| t.suspend != 0 || t.pclass != 0 || t.prio != 0 || t.teb != 0) {
        for t in m.threads.iter_mut() {
            if t.suspend == 0 && t.pclass == 0 && t.prio == 0 && t.teb == 0 {
                t.suspend = 1;
            }
        }
    }
    // modules
    for i in 0..count(rng) {
        let top = rng.chance(1, 10);
        let size = if rng.chance(1, 12) { 0 } else { 0x1000 + (rng.below(0x8000) as u32) };
        let base = if top { (u64::MAX - size as u64).saturating_add(rng.below(3)).saturating_sub(1) } else if rng.chance(1, 6) { rand_u64(rng) } else { 0x4000_0000 + 0x10_0000 * i };
        let mut ver = [0u32; 13];
        if rng.chance(2, 3) {
            ver[0] = 0xfeef04bd;
            ver[1] = if rng.chance(7, 8) { 0x10000 } else { rand_u32(rng) };
        } else if rng.chance(1, 2) {
            ver[0] = rand_u32(rng);
            ver[1] = 0x10000;
        }
        for v in ver.iter_mut().skip(2) {
            *v = rand_u32(rng);
        }
        m.modules.push(Module { base, size, chk: rand_u32(rng), time: rand_u32(rng), ver, name: rand_name(rng, 30), cv: rand_cv(rng) });
    }
    // memory regions: mostly disjoint, some at the very top of the address space, some overlapping
    let nr = count(rng);
    let mut next_base: u64 = 0x1000 + rng.below(0x1000);
    for i in 0..nr {
        let bytes = rand_blob(rng, max_region);
        let len = bytes.data.len() as u64;
        let base = match rng.below(12) {
            0 if len > 0 => u64::MAX - len + 1,          // ends exactly at 2^64
            1 if len > 0 => u64::MAX - len,              // ends at 2^64 - 1
            2 if i > 0 => m.regions[rng.below(i) as usize].base, // same base as another region
            3 => rand_u64(rng).min(u64::MAX - len),
            _ => {
                let b = next_base;
                next_base += len + rng.below(3) * rng.below(0x100);
                b
            }
        };
        // a region may end exactly at 2^64 (the known finding), never beyond
        let base = if len > 0 && base as u128 + len as u128 > 1u128 << 64 { u64::MAX - len + 1 } else { base };
        m.regions.push(Region { base, bytes });
    }
    for _ in 0..count(rng) {
        m.infos.push([rand_u64(rng), rand_u64(rng), rand_u32(rng) as u64, rand_u64(rng), rand_u32(rng) as u64, rand_u32(rng) as u64, rand_u32(rng) as u64]);
    }
    for i in 0..count(rng) {
        let id = if rng.chance(1, 4) && i > 0 { m.names[rng.below(i) as usize].0 } else if rng.chance(1, 6) { rand_u32(rng) } else { 0x100 + i as u32 };
        m.names.push((id, rand_name(rng, 24)));
    }
    for i in 0..count(rng) {
        m.unloaded.push(Unloaded {
            base: if rng.chance(1, 6) { rand_u64(rng).min(u64::MAX - 0x10000) } else { 0x5000_0000 + 0x1000 * i },
            size: 1 + rng.below(0x8000) as u32,
            chk: rand_u32(rng),
            time: rand_u32(rng),
            name: rand_name(rng, 24),
        });
        // now and then one that ends at 2^64 - 1, rarely exactly at 2^64 (known finding)
        let u = m.unloaded.last_mut().unwrap();
        if rng.chance(1, 12) {
            u.base = u64::MAX - u.size as u64 + rng.below(2) * rng.below(2);
        }
    }
    if rng.chance(1, 2) {
        let mut info = [0u64; 15];
        for v in info.iter_mut() {
            *v = rand_u64(rng);
        }
        m.exc = Some(Exc {
            tid: if m.threads.is_empty() { rand_u32(rng) } else { m.threads[0].id },
            code: *rng.pick(&[0xC0000005u32, 0xC0000006, 11, 6, 0x80000003, 1, 0xdeadbeef]),
            flags: rand_u32(rng),
            rec: rand_u64(rng),
            addr: rand_u64(rng),
            np: *rng.pick(&[0u32, 1, 2, 15, 16, u32::MAX]),
            info,
            ctx: rand_ctx(rng, be_ctx),
        });
    }
    // misc info: every revision; flags from consistent to arbitrary; guarded fields filled whatever the flags say
    if rng.chance(3, 5) {
        let ver = 1 + rng.below(5) as usize;
        let w = misc_widths();
        let canonical = rng.chance(1, 2);
        let fl: u32 = match rng.below(4) {
            0 => 0,
            1 => 0x3f7,
            2 if !canonical => rand_u32(rng),
            _ => (rng.next() as u32) & 0x3f7,
        };
        // what a writer of that revision would set
        let known: u32 = [0x7u32, 0x7, 0xf7, 0x1f7, 0x3f7][ver - 1];
        let fl = if canonical { fl & known } else { fl };
        let mut vals: Vec<u64> = (0..MISC_COUNTS[ver - 1])
            .map(|i| {
                let v = match rng.below(4) {
                    0 => 0,
                    1 => u64::MAX,
                    _ => rng.next() >> rng.below(64),
                };
                if w[i] < 8 {
                    v & ((1u64 << (8 * w[i])) - 1)
                } else {
                    v
                }
            })
            .collect();
        vals[1] = fl as u64;
        let room = if ver < 5 { MISC_SIZES[ver] - MISC_SIZES[ver - 1] - 1 } else { 64 };
        let tail_len = match rng.below(4) {
            0 | 1 => 0,
            2 => room,
            _ => rng.below(room as u64 + 1) as usize,
        };
        let mut tail = Blob::pat(rng.below(256), tail_len);
        if canonical {
            // zero whatever the flags do not vouch for; size_of_info = the stream's length
            for (_, since, bit, at, n) in MISC_FIELDS {
                if bit != 0 && fl & bit == 0 && (since as usize) <= ver {
                    for v in vals[at..at + n].iter_mut() {
                        *v = 0;
                    }
                }
            }
            tail = Blob::raw(vec![0; tail_len]);
            vals[0] = (MISC_SIZES[ver - 1] + tail_len) as u64;
        }
        m.misc = Some(Misc { ver: ver as u8, tail, vals });
    }
    // Linux maps: every spelling of the path column, addresses anywhere (hi < lo included), all permission sets
    if rng.chance(1, 2) {
        let n = count(rng);
        let mut ms = Vec::new();
        let mut next: u64 = 0x5555_0000_0000 + rng.below(0x1000) * 0x1000;
        for _ in 0..n {
            let len = (1 + rng.below(64)) * 0x1000;
            let (lo, hi) = match rng.below(8) {
                0 => (rand_u64(rng), rand_u64(rng)),
                1 => (u64::MAX - len, u64::MAX),
                _ => {
                    let lo = next;
                    next += len + rng.below(2) * 0x1000;
                    (lo, lo + len)
                }
            };
            let path = loop {
                let p = match rng.below(14) {
                    0 => MapPath::Heap,
                    1 => MapPath::Stack,
                    2 => MapPath::TStack(rand_u32(rng)),
                    3 => MapPath::Vdso,
                    4 => MapPath::Vvar,
                    5 => MapPath::Vsyscall,
                    6 => MapPath::Rollup,
                    7 | 8 => MapPath::Anonymous,
                    9 => MapPath::Vsys(rand_u32(rng)),
                    10 => {
                        let pool: [&str; 6] = ["anon:dalvik-main space", "anon_inode:[perf_event]", "heap", "stack:", "κόσμε", ""];
                        let s: &&str = rng.pick(&pool[..]);
                        MapPath::Other(s.as_bytes().to_vec())
                    }
                    _ => {
                        let pool: [&str; 9] = [
                            "/usr/lib/x86_64-linux-gnu/libc.so.6",
                            "/bin/cat",
                            "/home/u/my file (deleted)",
                            "/opt/κόσμε/日本語.so",
                            "/SYS",
                            "anon_inode:i915.gem",
                            "/memfd:x\ty (deleted)",
                            "socket:[12345]x",
                            "[x",
                        ];
                        let s: &&str = rng.pick(&pool[..]);
                        MapPath::Path(s.as_bytes().to_vec())
                    }
                };
                if p.well_formed() {
                    break p;
                }
            };
            ms.push(MapEntry {
                lo,
                hi,
                perms: rng.below(32) as u8,
                offset: if rng.chance(1, 2) { 0 } else { rand_u64(rng) },
                major: if rng.chance(1, 2) { rng.below(256) as u32 } else { rand_u32(rng) >> 1 },
                minor: if rng.chance(1, 2) { rng.below(256) as u32 } else { rand_u32(rng) >> 1 },
                inode: if rng.chance(1, 3) { 0 } else { rand_u64(rng) },
                path,
            });
        }
        m.maps = Some(ms);
    }
    // Crashpad info: dictionaries with duplicate / empty / non-ASCII keys, string lists, annotation objects of
    // every kind, several modules
    if rng.chance(1, 2) {
        let word = |rng: &mut Rng| -> Vec<u8> {
            let pool: [&str; 12] = ["", "a", "b", "key", "ptype", "ver", "κ", "日本", "x y", "list_annotations", "zz", "A"];
            if rng.chance(3, 4) {
                let s: &&str = rng.pick(&pool[..]);
                s.as_bytes().to_vec()
            } else {
                name_string(&rand_name(rng, 10)).into_bytes()
            }
        };
        let dict = |rng: &mut Rng, n: u64| -> Vec<(Vec<u8>, Vec<u8>)> { (0..n).map(|_| (word(rng), word(rng))).collect() };
        let guid = |rng: &mut Rng| -> [u32; 11] {
            let mut g = [0u32; 11];
            if rng.chance(2, 3) {
                g[0] = rand_u32(rng);
                g[1] = rng.next() as u16 as u32;
                g[2] = rng.next() as u16 as u32;
                for v in g[3..].iter_mut() {
                    *v = rng.next() as u8 as u32;
                }
            }
            g
        };
        let plain = rng.chance(1, 2);
        let nm = count(rng).min(3);
        let mut modules = Vec::new();
        for i in 0..nm {
            let na = rng.below(5);
            let anns = (0..na)
                .map(|_| match rng.below(if plain { 2 } else { 4 }) {
                    0 => Ann::Invalid(word(rng)),
                    1 => Ann::Str(word(rng), word(rng)),
                    // the boundary between "unsupported" and "user defined" (0x8000) is hit often
                    2 => Ann::Other(word(rng), if rng.chance(1, 2) { *rng.pick(&[0x8000u16, 0x8001, 0xffff]) } else { 0x8000 + rng.below(0x8000) as u16 }, rand_u32(rng)),
                    _ => Ann::Other(word(rng), if rng.chance(1, 2) { *rng.pick(&[0x7fffu16, 2, 3]) } else { 2 + rng.below(0x7ffe) as u16 }, rand_u32(rng)),
                })
                .collect();
            let nl = rng.below(4);
            let nd = rng.below(4);
            modules.push(CpModule {
                index: if rng.chance(1, 4) { rand_u32(rng) } else { i as u32 },
                version: if plain || rng.chance(1, 2) { 1 } else { rand_u32(rng) },
                list: (0..nl).map(|_| word(rng)).collect(),
                dict: dict(rng, nd),
                anns,
            });
        }
        let nd = rng.below(5);
        m.crashpad = Some(Crashpad {
            version: if plain || rng.chance(1, 2) { 1 } else { rand_u32(rng).max(1) },
            report_id: guid(rng),
            client_id: guid(rng),
            dict: dict(rng, nd),
            modules,
        });
    }
    // now and then, instead: a raw LinuxMaps stream with lines a writer should not produce (missing
    // fields, bad numbers, smaps attributes, stray white space, invalid UTF-8) — only the model decoder
    // vs the real reader is compared on those
    if m.maps.is_none() && rng.chance(1, 6) {
        let good = "00400000-0040b000 r-xp 00000000 08:01 1234 /bin/cat";
        let pool: [&[u8]; 40] = [
            good.as_bytes(),
            b"00400000-0040b000 r-xp 00000000 08:01 1234",
            b"00400000-0040b000 r-xp 00000000 08:01 1234 ",
            b"00400000-0040b000  r-xp 00000000 08:01 1234 /x",
            b"",
            b"\r",
            b"00400000 r-xp 00000000 08:01 1234 /x",
            b"00400000-0040b000-77 r-xp 00000000 08:01 1234 /x",
            b"-0040b000 r-xp 00000000 08:01 1234 /x",
            b"00400000-1ffffffffffffffff r-xp 00000000 08:01 1234 /x",
            b"0x400000-0040b000 r-xp 00000000 08:01 1234 /x",
            b"00400000-0040b000 rwxsp-?R 00000000 08:01 1234 /x",
            b"00400000-0040b000 r-xp +10 08:01 1234 /x",
            b"00400000-0040b000 r-xp 10 -8:01 1234 /x",
            b"00400000-0040b000 r-xp 10 80000000:01 1234 /x",
            b"00400000-0040b000 r-xp 10 -80000000:-1 1234 /x",
            b"00400000-0040b000 r-xp 10 -80000001:1 1234 /x",
            b"00400000-0040b000 r-xp 10 08 1234 /x",
            b"00400000-0040b000 r-xp 10 08:01:02 1234 /x",
            b"00400000-0040b000 r-xp 10 08:01 12a4 /x",
            b"00400000-0040b000 r-xp 10 08:01 18446744073709551616 /x",
            b"00400000-0040b000 r-xp 10 08:01 1234 [stack:77]",
            b"00400000-0040b000 r-xp 10 08:01 1234 [stack:77:88]",
            b"00400000-0040b000 r-xp 10 08:01 1234 [stack:]",
            b"00400000-0040b000 r-xp 10 08:01 1234 [stack:x]",
            b"00400000-0040b000 r-xp 10 08:01 1234 [stack:4294967296]",
            b"00400000-0040b000 r-xp 10 08:01 1234 [stack:",
            b"00400000-0040b000 r-xp 10 08:01 1234 [stack:7",
            b"00400000-0040b000 r-xp 10 08:01 1234 [stack:+7]",
            b"00400000-0040b000 r-xp 10 08:01 1234 /SYSV0000zzzz (deleted)",
            b"00400000-0040b000 r-xp 10 08:01 1234 /SYSVffffffff",
            b"00400000-0040b000 r-xp 10 08:01 1234 /SYSV+1234567x",
            "00400000-0040b000 r-xp 10 08:01 1234 \u{a0}\u{2003}/x y\u{3000}\u{85}".as_bytes(),
            "00400000-0040b000 r-xp 10 08:01 1234 \u{2028}[heap]\u{1680}".as_bytes(),
            b"00400000-0040b000 r-xp 10 08:01 1234 \xff\xfe",
            b"Size:                  4 kB",
            b"Rss: 18446744073709551615",
            b"Pss: x kB",
            b"VmFlags: rd ex mr mw me dw",
            b"KernelPageSize",
        ];
        let mut text = Vec::new();
        let n = 1 + rng.below(4);
        for i in 0..n {
            let l: &&[u8] = if i == 0 && rng.chance(2, 3) { &pool[0] } else { rng.pick(&pool[..]) };
            text.extend_from_slice(l);
            match rng.below(6) {
                0 => text.extend(b"\r\n"),
                1 if i + 1 == n => {}
                _ => text.push(b'\n'),
            }
        }
        m.extra.push((0x47670009, Blob::raw(text)));
    }
    // handle data: both descriptor kinds, absent / empty / non-BMP names, chains of 0..5 object infos
    if rng.chance(1, 2) {
        let v2 = rng.chance(1, 2);
        let n = count(rng);
        let mut items = Vec::new();
        for _ in 0..n {
            let opt = |rng: &mut Rng| if rng.chance(1, 3) { None } else { Some(rand_name(rng, 16)) };
            let ninfo = if rng.chance(1, 2) { 0 } else { rng.below(6) };
            items.push(Handle {
                handle: rand_u64(rng),
                type_name: opt(rng),
                object_name: opt(rng),
                attributes: rand_u32(rng),
                access: rand_u32(rng),
                hcount: rand_u32(rng),
                pcount: rand_u32(rng),
                infos: (0..ninfo).map(|_| (rng.below(10) as u32, rand_u32(rng))).collect(),
            });
        }
        m.handles = Some(Handles { v2, items });
    }
    // duplicate directory entries: raw streams under types that occur again later, and foreign types
    if rng.chance(1, 3) {
        for _ in 0..1 + rng.below(3) {
            let mut tys = vec![3u32, 4, 16, 24, 14, 0x4767_0001, 0xffff_0000, 21];
            if m.misc.is_some() {
                tys.push(15);
            }
            if m.handles.is_some() {
                tys.push(12);
            }
            if m.maps.is_some() {
                tys.push(0x47670009);
            }
            if m.crashpad.is_some() {
                tys.push(0x43500001);
            }
            if m.exc.is_some() {
                tys.push(6);
            }
            if m.sys.is_some() {
                tys.push(7);
            }
            let ty = *rng.pick(&tys);
            m.extra.push((ty, rand_blob(rng, 60)));
        }
    }
    m
}

// =================================================================================================
// Thread contexts as REGISTER FILES (case lines `roundtrip ctx a=<arch> fl=<flags hex> seed=<n> R=<cell=hex,..|->`)
//
// The model of a thread's context is a register file over the cells `field` / `field[i]` of the
// CONTEXT_* record of the dump's CPU (C18's representation) + the `context_flags` word. `exec` writes
// the record with a FOREIGN writer (minidump-synth's x86 / amd64 / arm64 context sections where they
// exist, patched with the remaining registers; otherwise a record built by hand from the documented
// field offsets in the table below — independent of the layouts translated for the Lean side), puts
// it into a dump with a system-info stream of that CPU and a thread (minidump-synth), in both byte
// orders, and reads it back with the real `MinidumpThread::context(system_info, misc)`. Oracle on the
// implementation alone: EVERY register by name and through every alias = the model's cell,
// `get_instruction_pointer` / `get_stack_pointer` = the ip / sp cell, `valid_registers()` = the
// general-purpose registers in order, LE = BE; a flags word selecting another CPU / an architecture
// without context record reads as no context. The Lean side (`roundtrip ctx ..`) decodes the same two
// foreign records (compared verbatim) and returns its own two encodings, which `same` wraps into
// dumps, reads with the REAL reader and compares with the register file.
mod regctx {
    use super::*;

    pub struct Spec {
        pub variant: &'static str,
        pub size: usize,
        /// offset and width of `context_flags`
        pub flags: (usize, usize),
        pub cpu_flag: u32,
        /// cell -> (offset, width), documented struct layout
        pub cells: Vec<(String, usize, usize)>,
        /// `REGISTERS` in order: name -> cell
        pub regs: Vec<(String, String)>,
        /// further names of the same registers: name -> cell
        pub aliases: Vec<(String, String)>,
        pub ip: String,
        pub sp: String,
    }

    fn scalars(fields: &[(&str, usize, usize, usize)]) -> Vec<(String, usize, usize)> {
        let mut out = Vec::new();
        for &(name, off, w, count) in fields {
            if count == 0 {
                out.push((name.to_string(), off, w));
            } else {
                for i in 0..count {
                    out.push((format!("{name}[{i}]"), off + i * w, w));
                }
            }
        }
        out
    }
    fn same_named(names: &[&str]) -> Vec<(String, String)> {
        names.iter().map(|n| (n.to_string(), n.to_string())).collect()
    }
    fn indexed(prefix: &str, field: &str, range: std::ops::Range<usize>) -> Vec<(String, String)> {
        range.map(|i| (format!("{prefix}{i}"), format!("{field}[{i}]"))).collect()
    }
    fn named(pairs: &[(&str, &str)]) -> Vec<(String, String)> {
        pairs.iter().map(|(a, b)| (a.to_string(), b.to_string())).collect()
    }

    /// documented layouts (offsets in bytes) and register naming of the nine context records
    pub fn spec(arch: u16) -> Option<Spec> {
        Some(match arch {
            0 | 10 => Spec {
                variant: "X86",
                size: 716,
                flags: (0, 4),
                cpu_flag: 0x10000,
                cells: scalars(&[("edi", 156, 4, 0), ("esi", 160, 4, 0), ("ebx", 164, 4, 0), ("edx", 168, 4, 0), ("ecx", 172, 4, 0), ("eax", 176, 4, 0), ("ebp", 180, 4, 0), ("eip", 184, 4, 0), ("eflags", 192, 4, 0), ("esp", 196, 4, 0)]),
                regs: same_named(&["eip", "esp", "ebp", "ebx", "esi", "edi", "eax", "ecx", "edx", "eflags"]),
                aliases: vec![],
                ip: "eip".into(),
                sp: "esp".into(),
            },
            9 => Spec {
                variant: "Amd64",
                size: 1232,
                flags: (48, 4),
                cpu_flag: 0x100000,
                cells: scalars(&[("rax", 120, 8, 0), ("rcx", 128, 8, 0), ("rdx", 136, 8, 0), ("rbx", 144, 8, 0), ("rsp", 152, 8, 0), ("rbp", 160, 8, 0), ("rsi", 168, 8, 0), ("rdi", 176, 8, 0), ("r8", 184, 8, 0), ("r9", 192, 8, 0), ("r10", 200, 8, 0), ("r11", 208, 8, 0), ("r12", 216, 8, 0), ("r13", 224, 8, 0), ("r14", 232, 8, 0), ("r15", 240, 8, 0), ("rip", 248, 8, 0)]),
                regs: same_named(&["rax", "rdx", "rcx", "rbx", "rsi", "rdi", "rbp", "rsp", "r8", "r9", "r10", "r11", "r12", "r13", "r14", "r15", "rip"]),
                aliases: vec![],
                ip: "rip".into(),
                sp: "rsp".into(),
            },
            3 => Spec {
                variant: "Ppc",
                size: 1004,
                flags: (0, 4),
                cpu_flag: 0x20000000,
                cells: scalars(&[("srr0", 4, 4, 0), ("srr1", 8, 4, 0), ("gpr", 12, 4, 32), ("cr", 140, 4, 0), ("xer", 144, 4, 0), ("lr", 148, 4, 0), ("ctr", 152, 4, 0), ("mq", 156, 4, 0), ("vrsave", 160, 4, 0)]),
                regs: [same_named(&["srr0", "srr1"]), indexed("r", "gpr", 0..32), same_named(&["cr", "xer", "lr", "ctr", "mq", "vrsave"])].concat(),
                aliases: vec![],
                ip: "srr0".into(),
                sp: "gpr[1]".into(),
            },
            0x8002 => Spec {
                variant: "Ppc64",
                size: 1160,
                flags: (0, 8),
                cpu_flag: 0x1000000,
                cells: scalars(&[("srr0", 8, 8, 0), ("srr1", 16, 8, 0), ("gpr", 24, 8, 32), ("cr", 280, 8, 0), ("xer", 288, 8, 0), ("lr", 296, 8, 0), ("ctr", 304, 8, 0), ("vrsave", 312, 8, 0)]),
                regs: [same_named(&["srr0", "srr1"]), indexed("r", "gpr", 0..32), same_named(&["cr", "xer", "lr", "ctr", "vrsave"])].concat(),
                aliases: vec![],
                ip: "srr0".into(),
                sp: "gpr[1]".into(),
            },
            0x8001 => Spec {
                variant: "Sparc",
                size: 584,
                flags: (0, 4),
                cpu_flag: 0x10000000,
                cells: scalars(&[("g_r", 8, 8, 32), ("ccr", 264, 8, 0), ("pc", 272, 8, 0), ("npc", 280, 8, 0), ("y", 288, 8, 0), ("asi", 296, 8, 0), ("fprs", 304, 8, 0)]),
                regs: [indexed("g_r", "g_r", 0..32), same_named(&["ccr", "pc", "npc", "y", "asi", "fprs"])].concat(),
                // the register windows: globals, outs, locals, ins
                aliases: (0..8usize)
                    .flat_map(|i| [(format!("g{i}"), format!("g_r[{i}]")), (format!("o{i}"), format!("g_r[{}]", 8 + i)), (format!("l{i}"), format!("g_r[{}]", 16 + i)), (format!("i{i}"), format!("g_r[{}]", 24 + i))])
                    .collect(),
                ip: "pc".into(),
                sp: "g_r[14]".into(),
            },
            5 => Spec {
                variant: "Arm",
                size: 368,
                flags: (0, 4),
                cpu_flag: 0x40000000,
                cells: scalars(&[("iregs", 4, 4, 16)]),
                regs: [indexed("r", "iregs", 0..11), named(&[("r12", "iregs[12]"), ("fp", "iregs[11]"), ("sp", "iregs[13]"), ("lr", "iregs[14]"), ("pc", "iregs[15]")])].concat(),
                aliases: named(&[("r11", "iregs[11]"), ("r13", "iregs[13]"), ("r14", "iregs[14]"), ("r15", "iregs[15]")]),
                ip: "iregs[15]".into(),
                sp: "iregs[13]".into(),
            },
            12 | 0x8003 => Spec {
                variant: if arch == 12 { "Arm64" } else { "OldArm64" },
                size: if arch == 12 { 912 } else { 796 },
                flags: if arch == 12 { (0, 4) } else { (0, 8) },
                cpu_flag: if arch == 12 { 0x400000 } else { 0x80000000 },
                cells: scalars(&[("iregs", 8, 8, 31), ("sp", 256, 8, 0), ("pc", 264, 8, 0)]),
                regs: [indexed("x", "iregs", 0..29), named(&[("fp", "iregs[29]"), ("lr", "iregs[30]"), ("sp", "sp"), ("pc", "pc")])].concat(),
                aliases: named(&[("x29", "iregs[29]"), ("x30", "iregs[30]")]),
                ip: "pc".into(),
                sp: "sp".into(),
            },
            1 => Spec {
                variant: "Mips",
                size: 600,
                flags: (0, 4),
                cpu_flag: 0x40000,
                cells: scalars(&[("iregs", 8, 8, 32), ("epc", 312, 8, 0)]),
                regs: [named(&[("gp", "iregs[28]"), ("sp", "iregs[29]"), ("fp", "iregs[30]"), ("ra", "iregs[31]"), ("pc", "epc")]), (0..8usize).map(|i| (format!("s{i}"), format!("iregs[{}]", 16 + i))).collect()].concat(),
                aliases: vec![],
                ip: "epc".into(),
                sp: "iregs[29]".into(),
            },
            _ => return None,
        })
    }

    /// every `ContextFlagsCpu` constant (`from_bits_truncate` keeps these bits only)
    const CPU_ALL: u32 = 0x80000 | 0xc0 | 0x40 | 0x20000 | 0x100000 | 0x40000000 | 0x400000 | 0x80000000 | 0x40000 | 0x20000000 | 0x1000000 | 0x10000000 | 0x10000;

    pub fn accepted(s: &Spec, flags: u64) -> bool {
        ((flags as u32) & 0xffffff00) & CPU_ALL == s.cpu_flag
    }

    #[derive(Clone, Debug)]
    pub struct Case {
        pub arch: u16,
        pub flags: u64,
        pub seed: u64,
        pub cells: Vec<(String, u64)>,
    }

    impl Case {
        pub fn line(&self) -> String {
            let r = if self.cells.is_empty() { "-".to_string() } else { self.cells.iter().map(|(c, v)| format!("{c}={v:x}")).collect::<Vec<_>>().join(",") };
            format!("roundtrip ctx a={} fl={:x} seed={} R={}", self.arch, self.flags, self.seed, r)
        }
        pub fn parse(case: &str) -> Option<Case> {
            let toks: Vec<&str> = case.split(' ').collect();
            if toks.len() != 6 || toks[0] != "roundtrip" || toks[1] != "ctx" {
                return None;
            }
            let arch = toks[2].strip_prefix("a=")?.parse().ok()?;
            let flags = u64::from_str_radix(toks[3].strip_prefix("fl=")?, 16).ok()?;
            let seed = toks[4].strip_prefix("seed=")?.parse().ok()?;
            let r = toks[5].strip_prefix("R=")?;
            let mut cells = Vec::new();
            if r != "-" {
                for it in r.split(',') {
                    let (c, v) = it.split_once('=')?;
                    if cells.iter().any(|(c2, _)| c2 == c) {
                        return None;
                    }
                    cells.push((c.to_string(), u64::from_str_radix(v, 16).ok()?));
                }
            }
            if flags > u32::MAX as u64 {
                return None;
            }
            // every cell is a register cell of the record and the value fits it
            if let Some(s) = spec(arch) {
                for (c, v) in &cells {
                    let (_, _, w) = s.cells.iter().find(|(n, _, _)| n == c)?;
                    if *w < 8 && *v >> (8 * *w) != 0 {
                        return None;
                    }
                }
            } else if !cells.is_empty() {
                return None;
            }
            Some(Case { arch, flags, seed, cells })
        }
        pub fn value(&self, cell: &str) -> u64 {
            self.cells.iter().find(|(c, _)| c == cell).map(|(_, v)| *v).unwrap_or(0)
        }
        /// `roundtrip ctx <arch> <flags> <seed> <cells>` (the model's argument order)
        pub fn request(&self, fle: &str, fbe: &str) -> String {
            let r = if self.cells.is_empty() { "-".to_string() } else { self.cells.iter().map(|(c, v)| format!("{c}={v:x}")).collect::<Vec<_>>().join(",") };
            format!("roundtrip ctx {} {:x} {} {} {} {}", self.arch, self.flags, self.seed, r, fle, fbe)
        }
    }

    fn put(buf: &mut [u8], off: usize, w: usize, v: u64, be: bool) {
        for i in 0..w {
            let byte = (v >> (8 * i)) as u8;
            if be {
                buf[off + w - 1 - i] = byte;
            } else {
                buf[off + i] = byte;
            }
        }
    }

    /// the FOREIGN writer of one record; `None` for an architecture without context record
    pub fn foreign_record(c: &Case, be: bool) -> Option<Vec<u8>> {
        let s = spec(c.arch)?;
        let e = tend(be);
        // minidump-synth's sections where they exist (ip, sp, its own flags word and zeros), else filler
        let mut buf: Vec<u8> = match s.variant {
            "X86" => synth::x86_context(e, c.value(&s.ip) as u32, c.value(&s.sp) as u32).get_contents()?,
            "Amd64" => synth::amd64_context(e, c.value(&s.ip), c.value(&s.sp)).get_contents()?,
            "Arm64" => synth::arm64_context(e, c.value(&s.ip), c.value(&s.sp)).get_contents()?,
            _ => (0..s.size as u64).map(|i| pattern_byte(c.seed, i)).collect(),
        };
        if buf.len() != s.size {
            return None;
        }
        // non-register fields of synth's records: a filler of this writer's own, every other seed
        if c.seed % 2 == 1 {
            for (i, b) in buf.iter_mut().enumerate() {
                *b = pattern_byte(c.seed ^ 0x5a5a, i as u64);
            }
        }
        for (cell, off, w) in &s.cells {
            put(&mut buf, *off, *w, c.value(cell), be);
        }
        put(&mut buf, s.flags.0, s.flags.1, c.flags, be);
        // trailing bytes (XSTATE area / padding) are ignored by the reader
        if c.seed % 5 == 0 {
            buf.extend((0..(c.seed % 97) as u64).map(|i| pattern_byte(c.seed, 7 * i)));
        }
        Some(buf)
    }

    /// a dump with a system-info stream of architecture `arch` and one thread carrying `record`
    pub fn wrap_dump(record: &[u8], arch: u16, be: bool) -> Option<Vec<u8>> {
        let e = tend(be);
        let mut si = synth::SystemInfo::new(e);
        si.processor_architecture = arch;
        si.csd_version_rva = 32;
        let csd = synth::DumpString::new("ctx", e);
        let stack = synth::Memory::with_section(Section::with_endian(e).append_bytes(&[0u8; 16]), 0x1000);
        let ctx = Section::with_endian(e).append_bytes(record);
        let d = synth::SynthMinidump::with_endian(e).add(csd).add_system_info(si).add_thread(synth::Thread::new(e, 7, &stack, &ctx)).add(ctx).add(stack);
        d.finish()
    }

    fn render(ctx: &MinidumpContext, names: &[String]) -> String {
        use minidump::MinidumpRawContext::*;
        let (variant, flags) = match &ctx.raw {
            X86(c) => ("X86", c.context_flags as u64),
            Ppc(c) => ("Ppc", c.context_flags as u64),
            Ppc64(c) => ("Ppc64", c.context_flags),
            Amd64(c) => ("Amd64", c.context_flags as u64),
            Sparc(c) => ("Sparc", c.context_flags as u64),
            Arm(c) => ("Arm", c.context_flags as u64),
            Arm64(c) => ("Arm64", c.context_flags as u64),
            OldArm64(c) => ("OldArm64", c.context_flags),
            Mips(c) => ("Mips", c.context_flags as u64),
        };
        let get: Vec<String> = names
            .iter()
            .map(|n| match ctx.get_register(n) {
                Some(v) => format!("{n}={v:x}"),
                None => format!("{n}=none"),
            })
            .collect();
        let valid: Vec<String> = ctx.valid_registers().map(|(n, v)| format!("{n}={v:x}")).collect();
        format!("{variant} fl={flags:x} ip={:x} sp={:x} get[{}] valid[{}]", ctx.get_instruction_pointer(), ctx.get_stack_pointer(), get.join(","), valid.join(","))
    }

    /// `MinidumpThread::context(system_info, None)` of the first thread, rendered like the model's `showRead`;
    /// the error kind comes from `MinidumpContext::read` on the same bytes (`context()` drops it)
    pub fn read_real(dump_bytes: &[u8], record: &[u8], names: &[String]) -> Result<(String, Option<MinidumpContext>), String> {
        let dump = Minidump::<&[u8]>::read(dump_bytes).map_err(|e| format!("dump unreadable: {e:?}"))?;
        let sys = dump.get_stream::<MinidumpSystemInfo>().map_err(|e| format!("system info unreadable: {e:?}"))?;
        let threads = dump.get_stream::<MinidumpThreadList>().map_err(|e| format!("thread list unreadable: {e:?}"))?;
        let t = threads.threads.first().ok_or("no thread")?;
        let via_thread = t.context(&sys, None).map(|c| c.into_owned());
        let direct = MinidumpContext::read(record, dump.endian, &sys, None);
        match (via_thread, direct) {
            (Some(c), Ok(d)) => {
                let a = render(&c, names);
                if a != render(&d, names) {
                    return Err("MinidumpThread::context differs from MinidumpContext::read on the context bytes".into());
                }
                Ok((a, Some(c)))
            }
            (None, Err(ContextError::ReadFailure)) => Ok(("err ReadFailure".into(), None)),
            (None, Err(ContextError::UnknownCpuContext)) => Ok(("err UnknownCpuContext".into(), None)),
            (a, b) => Err(format!("MinidumpThread::context is {} but MinidumpContext::read is {}", if a.is_some() { "Some" } else { "None" }, if b.is_ok() { "Ok" } else { "Err" })),
        }
    }

    pub fn all_names(s: &Spec) -> Vec<String> {
        let mut names: Vec<String> = s.regs.iter().chain(s.aliases.iter()).map(|(n, _)| n.clone()).collect();
        names.sort();
        names.dedup();
        names
    }

    pub fn exec(case: &str) -> ImplResult {
        let mut res = ImplResult::default();
        let Some(c) = Case::parse(case) else {
            res.out = "bad-case".into();
            res.oracle.push(("bad-case".into(), "the case line does not parse".into()));
            return res;
        };
        let s = spec(c.arch);
        let names = s.as_ref().map(all_names).unwrap_or_default();
        let mut outs = Vec::new();
        for be in [false, true] {
            let tag = if be { "be" } else { "le" };
            let record = foreign_record(&c, be).unwrap_or_else(|| (0..64u64).map(|i| pattern_byte(c.seed, i)).collect());
            let Some(dump) = catch(|| wrap_dump(&record, c.arch, be)).ok().flatten() else {
                res.oracle.push(("synth-failed".into(), format!("{tag}: minidump-synth could not serialize the dump")));
                outs.push("synth-failed".to_string());
                continue;
            };
            let (text, ctx) = match catch(|| read_real(&dump, &record, &names)) {
                Ok(Ok(r)) => r,
                Ok(Err(why)) => {
                    res.oracle.push(("ctx-not-read".into(), format!("{tag}: {why}")));
                    outs.push("unreadable".to_string());
                    continue;
                }
                Err(p) => {
                    res.oracle.push(("reader-panic".into(), format!("{tag}: {p}")));
                    outs.push("PANIC".to_string());
                    continue;
                }
            };
            // the oracle: the context reads back the register file
            match (&s, &ctx) {
                (None, None) => {
                    if text != "err UnknownCpuContext" {
                        res.oracle.push(("ctx-error-kind".into(), format!("{tag}: architecture {} has no context record, the reader says {text}", c.arch)));
                    }
                }
                (None, Some(_)) => res.oracle.push(("ctx-unexpected".into(), format!("{tag}: architecture {} has no context record but a context was read: {text}", c.arch))),
                (Some(s), None) => {
                    if accepted(s, c.flags) {
                        res.oracle.push(("ctx-not-read".into(), format!("{tag}: a {} record with flags {:x} must be read, the reader says {text}", s.variant, c.flags)));
                    } else if text != "err ReadFailure" {
                        res.oracle.push(("ctx-error-kind".into(), format!("{tag}: flags {:x} do not select {}, the reader says {text}", c.flags, s.variant)));
                    }
                }
                (Some(s), Some(ctx)) => {
                    if !accepted(s, c.flags) {
                        res.oracle.push(("ctx-unexpected".into(), format!("{tag}: flags {:x} do not select {} but a context was read", c.flags, s.variant)));
                    }
                    if !text.starts_with(&format!("{} fl={:x} ", s.variant, c.flags)) {
                        res.oracle.push(("ctx-kind-or-flags-differ".into(), format!("{tag}: expected {} with flags {:x}: {text}", s.variant, c.flags)));
                    }
                    for (n, cell) in s.regs.iter().chain(s.aliases.iter()) {
                        let want = c.value(cell);
                        let got = ctx.get_register(n);
                        if got != Some(want) {
                            res.oracle.push(("ctx-register-differs".into(), format!("{tag}: {} get_register({n}) = {got:x?}, the model's cell {cell} holds {want:x}", s.variant)));
                        }
                        let always = catch(|| ctx.get_register_always(n));
                        if always != Ok(want) {
                            res.oracle.push(("ctx-register-differs".into(), format!("{tag}: {} get_register_always({n}) = {always:x?}, the model's cell {cell} holds {want:x}", s.variant)));
                        }
                    }
                    if ctx.get_instruction_pointer() != c.value(&s.ip) {
                        res.oracle.push(("ctx-ip-sp-differ".into(), format!("{tag}: get_instruction_pointer = {:x}, cell {} holds {:x}", ctx.get_instruction_pointer(), s.ip, c.value(&s.ip))));
                    }
                    if ctx.get_stack_pointer() != c.value(&s.sp) {
                        res.oracle.push(("ctx-ip-sp-differ".into(), format!("{tag}: get_stack_pointer = {:x}, cell {} holds {:x}", ctx.get_stack_pointer(), s.sp, c.value(&s.sp))));
                    }
                    let valid: Vec<(String, u64)> = ctx.valid_registers().map(|(n, v)| (n.to_string(), v)).collect();
                    let want: Vec<(String, u64)> = s.regs.iter().map(|(n, cell)| (n.clone(), c.value(cell))).collect();
                    if valid != want {
                        res.oracle.push(("ctx-valid-registers-differ".into(), format!("{tag}: valid_registers() = {valid:x?}, the general-purpose registers of the model are {want:x?}")));
                    }
                    let gpr: Vec<&str> = ctx.general_purpose_registers().to_vec();
                    if gpr != s.regs.iter().map(|(n, _)| n.as_str()).collect::<Vec<_>>() {
                        res.oracle.push(("ctx-valid-registers-differ".into(), format!("{tag}: general_purpose_registers() = {gpr:?}")));
                    }
                }
            }
            outs.push(text);
        }
        if outs.len() == 2 && outs[0] != outs[1] {
            res.oracle.push(("ctx-endian-dependent".into(), format!("LE: {} — BE: {}", outs[0], outs[1])));
        }
        // `same` needs the case: the answer carries it in front
        res.out = format!("{case} ## {}", outs.join(" ## "));
        res.nontrivial = s.is_some() && !c.cells.is_empty();
        res.tags.push("kind:context".into());
        res.tags.push(format!("ctx:{}", s.as_ref().map(|s| s.variant).unwrap_or("none")));
        if let Some(s) = &s {
            res.tags.push(format!("ctx-flags:{}", if accepted(s, c.flags) { "accepted" } else { "other-cpu" }));
            res.tags.push(format!("ctx-cells:{}", bucket(c.cells.len())));
            if c.cells.iter().any(|(cell, v)| s.cells.iter().any(|(n, _, w)| n == cell && (*w == 8 && *v == u64::MAX || *w == 4 && *v == u32::MAX as u64))) {
                res.tags.push("ctx-value:all-ones".into());
            }
            if matches!(s.variant, "X86" | "Amd64" | "Arm64") && c.seed % 2 == 0 {
                res.tags.push("ctx-writer:synth-section".into());
            } else {
                res.tags.push("ctx-writer:by-hand".into());
            }
        }
        res
    }

    pub fn model_request(case: &str) -> Option<String> {
        let c = Case::parse(case)?;
        let f = |be: bool| foreign_record(&c, be).map(|b| hex(&b)).unwrap_or_else(|| "-".to_string());
        Some(c.request(&f(false), &f(true)))
    }

    fn names_of(text: &str) -> Vec<String> {
        let Some(start) = text.find(" get[") else { return vec![] };
        let rest = &text[start + 5..];
        let Some(end) = rest.find(']') else { return vec![] };
        rest[..end].split(',').filter_map(|it| it.split('=').next()).filter(|n| !n.is_empty()).map(|n| n.to_string()).collect()
    }

    /// `model_out` = hex(own LE) ## hex(own BE) ## read(foreign LE) ## read(foreign BE) ## read(own LE) ## read(own BE) ## expected
    pub fn same(impl_out: &str, model_out: &str) -> bool {
        let parts: Vec<&str> = impl_out.split(" ## ").collect();
        let mo: Vec<&str> = model_out.split(" ## ").collect();
        if parts.len() != 3 || mo.len() != 7 {
            return false;
        }
        let Some(c) = Case::parse(parts[0]) else { return false };
        let i = &parts[1..];
        let expected = mo[6];
        let names = names_of(expected);
        let Some(s) = spec(c.arch) else {
            // no record type: nothing to encode; both say UnknownCpuContext (the foreign record is `-` for the model)
            return mo[0] == "-" && mo[1] == "-" && i[0] == expected && i[1] == expected;
        };
        // the model's name universe (C18's tables) covers the hand-written one
        if !accepted(&s, c.flags) {
            if expected != "err ReadFailure" {
                return false;
            }
        } else if all_names(&s).iter().any(|n| !names.contains(n)) {
            return false;
        }
        for (k, be) in [(0usize, false), (1usize, true)] {
            // 1. Lean decoder = real reader on the foreign writer's record — on the names of C18's tables
            let Some(record) = foreign_record(&c, be) else { return false };
            let Some(dump) = catch(|| wrap_dump(&record, c.arch, be)).ok().flatten() else { return false };
            let Ok(Ok((real_foreign, _))) = catch(|| read_real(&dump, &record, &names)) else { return false };
            if real_foreign != mo[2 + k] || mo[2 + k] != expected {
                return false;
            }
            // the answer computed in `exec` (hand-written names) must be the same context
            if i[k].split(" get[").next() != real_foreign.split(" get[").next() {
                return false;
            }
            // 2. real reader on the Lean encoder's record = Lean decoder on it = the register file
            let Some(own) = unhex(mo[k]) else { return false };
            let Some(dump) = catch(|| wrap_dump(&own, c.arch, be)).ok().flatten() else { return false };
            let Ok(Ok((real_own, _))) = catch(|| read_real(&dump, &own, &names)) else { return false };
            if real_own != mo[4 + k] || real_own != expected {
                return false;
            }
        }
        true
    }

    pub fn shrink(case: &str, still_fails: &dyn Fn(&str) -> bool) -> String {
        let Some(mut c) = Case::parse(case) else { return case.to_string() };
        let mut i = 0;
        while i < c.cells.len() {
            let mut d = c.clone();
            d.cells.remove(i);
            if still_fails(&d.line()) {
                c = d;
            } else {
                i += 1;
            }
        }
        for k in 0..c.cells.len() {
            for v in [1u64, 0xff] {
                let mut d = c.clone();
                if d.cells[k].1 > v {
                    d.cells[k].1 = v;
                    if still_fails(&d.line()) {
                        c = d;
                        break;
                    }
                }
            }
        }
        let mut d = c.clone();
        d.seed = 2;
        if still_fails(&d.line()) {
            c = d;
        }
        c.line()
    }

    pub const ARCHS: [u16; 10] = [0, 10, 9, 3, 0x8002, 0x8001, 5, 12, 0x8003, 1];

    pub fn generate(tier: Tier, rng: &mut Rng, emit: &mut dyn FnMut(String)) {
        let per_arch = if tier == Tier::Quick { 24 } else { 200 };
        for &arch in ARCHS.iter() {
            let s = spec(arch).unwrap();
            let max = |w: usize| if w >= 8 { u64::MAX } else { (1u64 << (8 * w)) - 1 };
            for k in 0..per_arch {
                let mut cells = Vec::new();
                for (idx, (cell, _, w)) in s.cells.iter().enumerate() {
                    let v = match k % 8 {
                        0 => 0,
                        1 => max(*w),
                        2 => u32::MAX as u64 & max(*w),
                        // pairwise distinct values: a swapped or mis-indexed cell cannot hide
                        3 => (0x0101_0101_0101_0101u64.wrapping_mul(idx as u64 + 1)) & max(*w),
                        4 => {
                            if rng.chance(1, 3) {
                                rng.next() & max(*w)
                            } else {
                                0
                            }
                        }
                        5 => *rng.pick(&[0, 1, 0x7fff_ffff, 0x8000_0000, 0xffff_ffff, 0x1_0000_0000, 0x7fff_ffff_ffff_ffff, 0x8000_0000_0000_0000, u64::MAX]) & max(*w),
                        _ => rng.next() & max(*w),
                    };
                    if v != 0 {
                        cells.push((cell.clone(), v));
                    }
                }
                // flags: this CPU's constant + feature bits; sometimes bits `from_bits_truncate` drops; rarely another CPU
                let mut flags = s.cpu_flag as u64 | rng.below(0x40);
                if rng.chance(1, 4) {
                    flags |= *rng.pick(&[0x100u64, 0x200, 0x8000, 0x2000000, 0x4000000, 0x8000000]);
                }
                if rng.chance(1, 12) {
                    flags = *rng.pick(&[0u64, 0x10000, 0x100000, 0x400000, 0x40000000, 0x80000000, 0x10000 | 0x100000, 0x80000, 0x20000]) | rng.below(8);
                }
                emit(Case { arch, flags, seed: rng.below(1000), cells }.line());
            }
        }
        // architectures without a context record
        for arch in [2u16, 4, 6, 7, 8, 11, 0x8004, 0xffff] {
            emit(Case { arch, flags: *rng.pick(&[0u64, 0x10001, 0x80001]), seed: rng.below(1000), cells: vec![] }.line());
        }
    }
}
