//! Engine `process` (C03): the whole pipeline `Minidump::read` → `process_minidump_with_options` →
//! `print` / `print_brief` / `print_json` on generated (minidump bytes, per-module symbol-file
//! bytes) pairs, under `catch_unwind` and a wall-clock budget, plus the arithmetic kernels of the
//! pipeline against the Lean model `MdModel.Process`.
//!
//! case lines
//!   process gen seed:<n> cpu:<cpu> os:<os> feat:<hex> opt:<0..3> [mut:<seed>:<k>]
//!       the pair is `pipeline_gen::build(seed, cpu, os, feat)`; `mut` = byte-level corruption of the dump
//!   process file name:<testdata dump> opt:<0..3> mut:<seed>:<k> sym:<seed>:<feat hex>
//!       a (mutated) dump of the repository; every module is served a generated symbol file
//!   process raw dump:<hex> sym:<hex> opt:<0..3>
//!       literal bytes (small shrunk inputs); every module is served the same symbol bytes
//!   process limits <hex text> | process guard … | process fpo … | process push … | process printer …
//!       kernel cases: the real code is run on the kernel's inputs and compared with the model
//! opt: 0 stable_basic | 1 stable_all | 2 unstable_all | 3 unstable_all + stat reporter + evil json
//!
//! Oracle classes: process-panics, render-panics, too-many-frames, hang, json-invalid.
//! For pipeline cases the canonical output holds what the model predicts from the kernel inputs
//! extracted from the processed state (limits table, guard-page flags, printer offsets, frame
//! bound); everything else is oracle-only (sampled).

#[path = "pipeline_gen.rs"]
pub mod pipeline_gen;
#[path = "process_kernels.rs"]
mod kernels;
#[path = "process_opana.rs"]
mod opana;
#[path = "process_argrec.rs"]
mod argrec;

use crate::allocmeter as meter;
use crate::common::*;
use minidump::*;
use minidump_processor::{PendingProcessorStatSubscriptions, PendingProcessorStats, ProcessState, ProcessorOptions};
use minidump_unwind::{
    FileError, FileKind, FillSymbolError, FrameSymbolizer, FrameWalker, LocateSymbolsResult, SymbolError, SymbolFile, SymbolProvider,
    SymbolStats, SymbolSupplier, Symbolizer,
};
use pipeline_gen as pg;
use std::collections::HashMap;
use std::path::PathBuf;
use std::sync::atomic::{AtomicU64, Ordering};
use std::sync::{mpsc, Arc};
use std::time::{Duration, Instant};

pub struct Process;

fn repo() -> PathBuf {
    PathBuf::from(std::env::var("VERIF_REPO").unwrap_or_else(|_| "/repo".into()))
}

pub const TESTDATA: &[&str] = &[
    "test.dmp",
    "linux-mini.dmp",
    "simple-crashpad.dmp",
    "invalid-range.dmp",
    "invalid-record-count.dmp",
    "invalid-parameter.dmp",
    "pipeline-inlines-macos-segv.dmp",
];

// ------------------------------------------------------------------------------------ suppliers

struct GenSupplier {
    syms: HashMap<String, Vec<u8>>,
    /// the same bytes for every module (raw cases)
    all: Option<Vec<u8>>,
    /// generate a file for modules that have none: (seed, cpu, os, feat)
    fallback: Option<(u64, String, String, u32)>,
    /// bytes of symbol files handed to the parser so far (the S of the memory budget)
    served: Arc<AtomicU64>,
}

#[async_trait::async_trait]
impl SymbolSupplier for GenSupplier {
    async fn locate_symbols(&self, module: &(dyn minidump_common::traits::Module + Sync)) -> Result<LocateSymbolsResult, SymbolError> {
        tokio::task::yield_now().await;
        // producing the bytes is the harness's own work (not charged to the code under test)
        let bytes: Option<Vec<u8>> = meter::unmetered(|| {
            let name = module.code_file().to_string();
            if let Some(b) = &self.all {
                Some(b.clone())
            } else if let Some(b) = self.syms.get(&name) {
                Some(b.clone())
            } else if let Some((seed, cpu, os, feat)) = &self.fallback {
                let mut rng = Rng::new(seed ^ fnv64(name.as_bytes()));
                Some(pg::gen_symbols(&mut rng, cpu, os, &name, module.base_address(), module.size().min(u32::MAX as u64) as u32, *feat))
            } else {
                None
            }
        });
        let Some(bytes) = bytes else {
            return Err(SymbolError::NotFound);
        };
        self.served.fetch_add(bytes.len() as u64, Ordering::Relaxed);
        SymbolFile::from_bytes(&bytes).map(|symbols| LocateSymbolsResult { symbols, extra_debug_info: None })
    }
    async fn locate_file(&self, _module: &(dyn minidump_common::traits::Module + Sync), _file_kind: FileKind) -> Result<PathBuf, FileError> {
        Err(FileError::NotFound)
    }
}

/// A provider that counts symbol queries and stops a runaway walk (an unbounded walk would
/// otherwise only show as a hang / memory exhaustion).
struct Counting {
    inner: Symbolizer,
    calls: AtomicU64,
    limit: u64,
    /// `walk_frame` is asked at most once per produced frame
    walks: AtomicU64,
    walk_limit: u64,
}

#[async_trait::async_trait]
impl SymbolProvider for Counting {
    async fn fill_symbol(&self, module: &(dyn minidump_common::traits::Module + Sync), frame: &mut (dyn FrameSymbolizer + Send)) -> Result<(), FillSymbolError> {
        if self.calls.fetch_add(1, Ordering::Relaxed) > self.limit {
            panic!("runaway-walk: more than {} symbol queries", self.limit);
        }
        self.inner.fill_symbol(module, frame).await
    }
    async fn walk_frame(&self, module: &(dyn minidump_common::traits::Module + Sync), walker: &mut (dyn FrameWalker + Send)) -> Option<()> {
        if self.walks.fetch_add(1, Ordering::Relaxed) > self.walk_limit {
            panic!("runaway-walk: more than {} frames unwound", self.walk_limit);
        }
        self.inner.walk_frame(module, walker).await
    }
    async fn get_file_path(&self, module: &(dyn minidump_common::traits::Module + Sync), file_kind: FileKind) -> Result<PathBuf, FileError> {
        self.inner.get_file_path(module, file_kind).await
    }
    fn stats(&self) -> HashMap<String, SymbolStats> {
        self.inner.stats()
    }
}

// ------------------------------------------------------------------------------------ cases

pub enum Pipe {
    Gen { seed: u64, cpu: String, os: String, feat: u32, opt: u32, mutation: Option<(u64, u32)> },
    File { name: String, opt: u32, mutation: (u64, u32), sym: (u64, u32) },
    Raw { dump: Vec<u8>, sym: Vec<u8>, opt: u32 },
    /// one thread with a `stack`-byte stack walked by CFI in `step`-byte frames (≈ stack/step frames),
    /// `symk` KiB of filler records in the symbol file: the memory-budget cases
    Big { seed: u64, cpu: String, stack: u64, step: u64, symk: u64, opt: u32 },
    /// an x86 dump whose frames execute inside FUNCs with the given names (argument recovery)
    ArgRec { case: argrec::ArgCase, opt: u32 },
}

fn kv<'a>(f: &'a str, key: &str) -> Option<&'a str> {
    f.strip_prefix(key)?.strip_prefix(':')
}
fn pair(s: &str) -> Option<(u64, u32)> {
    let (a, b) = s.split_once(':')?;
    Some((a.parse().ok()?, b.parse().ok()?))
}
fn pair_hex(s: &str) -> Option<(u64, u32)> {
    let (a, b) = s.split_once(':')?;
    Some((a.parse().ok()?, u32::from_str_radix(b, 16).ok()?))
}

pub fn parse_pipe(f: &[&str]) -> Option<Pipe> {
    match *f.get(1)? {
        "gen" => {
            let mut mutation = None;
            if let Some(m) = f.get(7) {
                mutation = Some(pair(kv(m, "mut")?)?);
            }
            if f.len() > 8 {
                return None;
            }
            Some(Pipe::Gen {
                seed: kv(f.get(2)?, "seed")?.parse().ok()?,
                cpu: kv(f.get(3)?, "cpu")?.to_string(),
                os: kv(f.get(4)?, "os")?.to_string(),
                feat: u32::from_str_radix(kv(f.get(5)?, "feat")?, 16).ok()?,
                opt: kv(f.get(6)?, "opt")?.parse().ok()?,
                mutation,
            })
        }
        "file" => {
            if f.len() != 6 {
                return None;
            }
            Some(Pipe::File {
                name: kv(f[2], "name")?.to_string(),
                opt: kv(f[3], "opt")?.parse().ok()?,
                mutation: pair(kv(f[4], "mut")?)?,
                sym: pair_hex(kv(f[5], "sym")?)?,
            })
        }
        "big" => {
            if f.len() != 8 {
                return None;
            }
            Some(Pipe::Big {
                seed: kv(f[2], "seed")?.parse().ok()?,
                cpu: kv(f[3], "cpu")?.to_string(),
                stack: kv(f[4], "stack")?.parse().ok()?,
                step: kv(f[5], "step")?.parse().ok()?,
                symk: kv(f[6], "symk")?.parse().ok()?,
                opt: kv(f[7], "opt")?.parse().ok()?,
            })
        }
        "argrec" => {
            if f.len() != 8 {
                return None;
            }
            let names = kv(f[6], "names")?.split(',').map(unhex).collect::<Option<Vec<_>>>()?;
            Some(Pipe::ArgRec {
                case: argrec::ArgCase {
                    seed: kv(f[2], "seed")?.parse().ok()?,
                    step: kv(f[3], "step")?.parse().ok()?,
                    stack: kv(f[4], "stack")?.parse().ok()?,
                    espoff: kv(f[5], "espoff")?.parse().ok()?,
                    names,
                },
                opt: kv(f[7], "opt")?.parse().ok()?,
            })
        }
        "raw" => {
            if f.len() != 5 {
                return None;
            }
            Some(Pipe::Raw { dump: unhex(kv(f[2], "dump")?)?, sym: unhex(kv(f[3], "sym")?)?, opt: kv(f[4], "opt")?.parse().ok()? })
        }
        _ => None,
    }
}

struct Materialised {
    dump: Vec<u8>,
    supplier: GenSupplier,
    evil: Option<String>,
    opt: u32,
    tags: Vec<String>,
}

fn materialise(p: &Pipe) -> Option<Materialised> {
    match p {
        Pipe::Gen { seed, cpu, os, feat, opt, mutation } => {
            if !pg::CPUS.contains(&cpu.as_str()) || !pg::OSES.contains(&os.as_str()) {
                return None;
            }
            let b = pg::build(*seed, cpu, os, *feat)?;
            let mut dump = b.dump;
            let mut tags = b.tags;
            tags.push(format!("cpu:{cpu}"));
            tags.push(format!("os:{os}"));
            tags.push(format!("kind:{}", if mutation.is_some() { "gen+mut" } else { "gen" }));
            if let Some((s, k)) = mutation {
                pg::mutate_dump(&mut dump, *s, *k);
            }
            Some(Materialised { dump, supplier: GenSupplier { syms: b.syms, all: None, fallback: None, served: Default::default() }, evil: b.evil, opt: *opt, tags })
        }
        Pipe::File { name, opt, mutation, sym } => {
            if !TESTDATA.contains(&name.as_str()) {
                return None;
            }
            let mut dump = std::fs::read(repo().join("testdata").join(name)).ok()?;
            if mutation.1 > 0 {
                pg::mutate_dump(&mut dump, mutation.0, mutation.1);
            }
            let cpu = match name.as_str() {
                "test.dmp" => "x86",
                _ => "amd64",
            };
            let os = match name.as_str() {
                "linux-mini.dmp" => "linux",
                "pipeline-inlines-macos-segv.dmp" => "macos",
                _ => "windows",
            };
            let tags = vec![format!("kind:file{}", if mutation.1 > 0 { "+mut" } else { "" }), format!("file:{name}")];
            Some(Materialised {
                dump,
                supplier: GenSupplier { syms: HashMap::new(), all: None, fallback: Some((sym.0, cpu.into(), os.into(), sym.1)), served: Default::default() },
                evil: None,
                opt: *opt,
                tags,
            })
        }
        Pipe::Big { seed, cpu, stack, step, symk, opt } => {
            let (dump, syms) = build_big(*seed, cpu, *stack, *step, *symk)?;
            let fr = stack / (*step).max(1);
            let tags = vec![
                "kind:big".into(),
                format!("cpu:{cpu}"),
                format!("big-frames:{}", match fr { 0..=99 => "<100", 100..=999 => "100-999", 1000..=9999 => "1k-10k", _ => ">=10k" }),
                format!("big-symk:{}", match symk { 0 => "0", 1..=255 => "<256K", _ => ">=256K" }),
            ];
            Some(Materialised { dump, supplier: GenSupplier { syms, all: None, fallback: None, served: Default::default() }, evil: None, opt: *opt, tags })
        }
        Pipe::ArgRec { case, opt } => {
            let (dump, syms) = argrec::build(case)?;
            let longest = case.names.iter().map(|n| n.len()).max().unwrap_or(0);
            let tags = vec!["kind:argrec".into(), "cpu:x86".into(), format!("argrec-name:{}", match longest { 0..=63 => "<64", 64..=1023 => "64-1023", _ => ">=1024" })];
            Some(Materialised { dump, supplier: GenSupplier { syms, all: None, fallback: None, served: Default::default() }, evil: None, opt: *opt, tags })
        }
        Pipe::Raw { dump, sym, opt } => Some(Materialised {
            dump: dump.clone(),
            supplier: GenSupplier { syms: HashMap::new(), all: Some(sym.clone()), fallback: None, served: Default::default() },
            evil: None,
            opt: *opt,
            tags: vec!["kind:raw".into()],
        }),
    }
}

/// The memory-budget pair: a dump with one module and one thread whose `stack`-byte stack (zero or
/// pseudo-random bytes) is unwound by a CFI rule that never reads memory (`.cfa: sp step +`, return to a
/// constant inside a FUNC with a line record), and a symbol file padded with `symk` KiB of FUNC / line /
/// PUBLIC / FILE records.
fn build_big(seed: u64, cpu: &str, stack: u64, step: u64, symk: u64) -> Option<(Vec<u8>, HashMap<String, Vec<u8>>)> {
    use minidump::format as md;
    use minidump_synth::*;
    use test_assembler::{Endian, Section};
    if stack > (64 << 20) || symk > (64 << 10) || step == 0 {
        return None;
    }
    let (arch, symarch, spreg, modbase, sbase): (u16, &str, &str, u64, u64) = match cpu {
        "amd64" => (md::ProcessorArchitecture::PROCESSOR_ARCHITECTURE_AMD64 as u16, "x86_64", "$rsp", 0x7f00_0040_0000, 0x7ffd_0000_0000),
        "x86" => (md::ProcessorArchitecture::PROCESSOR_ARCHITECTURE_INTEL as u16, "x86", "$esp", 0x0040_0000, 0x2000_0000),
        "arm64" => (md::ProcessorArchitecture::PROCESSOR_ARCHITECTURE_ARM64_OLD as u16, "arm64", "sp", 0x7f00_0040_0000, 0x7ffd_0000_0000),
        _ => return None,
    };
    let endian = Endian::Little;
    let mut rng = Rng::new(seed ^ 0xB16B_16B1_6B16_B16B);
    let modsize: u32 = 0x10_0000;
    let ra = modbase + 0x1011; // the caller's instruction (ra - 1) lies in FUNC 1000..1100
    let regs = pg::Regs { ip: modbase + 0x1010, sp: sbase, fp: sbase, lr: ra, gen: [rng.next(), rng.next(), rng.next(), rng.next()] };
    let ctx_bytes = pg::make_context(if cpu == "arm64" { "arm64old" } else { cpu }, false, &mut rng, &regs, false);
    let ctx = Section::with_endian(endian).append_bytes(&ctx_bytes);
    let bytes: Vec<u8> = if seed % 2 == 0 { vec![0u8; stack as usize] } else { (0..stack).map(|i| (i.wrapping_mul(0x9E37) >> 3) as u8).collect() };
    let stack_mem = Memory::with_section(Section::with_endian(endian).append_bytes(&bytes), sbase);
    let name = DumpString::new("/lib/big.so", endian);
    let module = Module::new(endian, modbase, modsize, &name, 1, 2, None);
    let si = SystemInfo::new(endian).set_processor_architecture(arch).set_platform_id(md::PlatformId::Linux as u32);
    let thread = Thread::new(endian, 0x100, &stack_mem, &ctx);
    let dump = SynthMinidump::with_endian(endian).add_system_info(si).add(name).add_module(module).add_thread(thread).add(ctx).add_memory(stack_mem).finish()?;
    let mut s = String::with_capacity((symk as usize) << 10);
    s.push_str(&format!("MODULE Linux {symarch} 000000000000000000000000000000000 big.so\n"));
    s.push_str("FILE 0 /a/rather/long/path/to/the/source/file/of/the/deep/frame.cpp\n");
    s.push_str("FUNC 1000 100 0 deep::frame(int, char const*, std::map<int, std::pair<int, int>>)\n1000 100 42 0\n");
    s.push_str(&format!("STACK CFI INIT 0 {modsize:x} .cfa: {spreg} {step} + .ra: {ra}\n"));
    let mut a: u64 = 0x2000;
    let mut i = 0u64;
    while (s.len() as u64) < (symk << 10) && a + 0x10 < modsize as u64 {
        match i % 4 {
            0 => s.push_str(&format!("FILE {} /filler/dir{}/file{}.rs\n", 1 + i / 4, i % 97, i)),
            1 | 2 => {
                s.push_str(&format!("FUNC {a:x} 10 0 filler::function_number_{i}(int, unsigned long)\n{a:x} 8 {} 0\n{:x} 8 {} 0\n", i % 1000, a + 8, i % 1000 + 1));
                a += 0x10;
            }
            _ => s.push_str(&format!("PUBLIC {:x} 0 public_symbol_{i}\n", a + 4)),
        }
        i += 1;
    }
    let mut syms = HashMap::new();
    syms.insert("/lib/big.so".to_string(), s.into_bytes());
    Some((dump, syms))
}

/// what one run of the pipeline produced
#[derive(Default)]
pub struct PipeResult {
    pub read_ok: bool,
    pub process: String, // "ok" | "err:<kind>" | "panic"
    pub oracle: Vec<(String, String)>,
    pub tags: Vec<String>,
    /// model-comparable part: (request, implementation answer)
    pub kernel: Option<(String, String)>,
}

/// the evil-json file of option set 3 (removed when the handle is dropped)
fn evil_file(text: &str) -> Option<tempfile::NamedTempFile> {
    use std::io::Write;
    let mut f = tempfile::Builder::new().prefix("mdharness-evil").suffix(".json").tempfile().ok()?;
    f.write_all(text.as_bytes()).ok()?;
    f.flush().ok()?;
    Some(f)
}

/// what the watchdog of a case needs to judge a tripped allocator guard
#[derive(Default)]
pub struct CaseShared {
    meter: Arc<meter::Shared>,
    /// total budget for the a-priori frame bound (0 until known)
    apriori_total: AtomicU64,
}

fn run_pipeline(m: Materialised, cs: Arc<CaseShared>) -> PipeResult {
    let shared = cs.meter.clone();
    let mut res = PipeResult { tags: m.tags.clone(), ..Default::default() };
    res.tags.push(format!("opt:{}", m.opt));
    let dump_len = m.dump.len();
    let dump = match catch(|| Minidump::read(m.dump.as_slice())) {
        Err(msg) => {
            // reading is C01's subject, but a panic here is a panic of "full processing" too
            res.process = "panic".into();
            res.oracle.push(("process-panics".into(), format!("Minidump::read panicked: {msg}")));
            return res;
        }
        Ok(Err(e)) => {
            res.process = "unreadable".into();
            res.tags.push(format!("read:{}", e.name()));
            return res;
        }
        Ok(Ok(d)) => d,
    };
    res.read_ok = true;
    // the runaway guard: generous (scanning asks the symbolizer about every candidate word)
    let total_mem: u64 = catch(|| dump.get_memory().map(|ml| ml.iter().map(|m| m.size().min(1 << 20)).sum::<u64>()).unwrap_or(0)).unwrap_or(0);
    let nthreads = catch(|| dump.get_stream::<MinidumpThreadList>().map(|t| t.threads.len() as u64).unwrap_or(0)).unwrap_or(0);
    let max_mem: u64 = catch(|| dump.get_memory().map(|ml| ml.iter().map(|m| m.size().min(1 << 24)).max().unwrap_or(0)).unwrap_or(0)).unwrap_or(0);
    // a thread's own stack descriptor counts too (it is used even when the memory lists are unreadable)
    let walk_limit = catch(|| {
        let ml = dump.get_memory().unwrap_or_default();
        dump.get_stream::<MinidumpThreadList>()
            .map(|tl| tl.threads.iter().map(|t| t.stack_memory(&ml).map(|m| m.size()).unwrap_or(0).max(max_mem).min(1 << 24) + 2).sum::<u64>())
            .unwrap_or(0)
    })
    .unwrap_or(0)
        + 64;
    // scanning asks the symbolizer about every candidate word (up to 160 per frame)
    let limit = walk_limit.saturating_mul(200).saturating_add(10_000).min(200_000_000);
    let served = m.supplier.served.clone();
    // the allocator guard of this case: 4x the budget for the a-priori frame bound (`walk_limit` =
    // sum of stack bytes + 2 per thread + 64) and a generous guess of the symbol bytes
    let s_hint: u64 = m.supplier.syms.values().map(|v| v.len() as u64).sum::<u64>()
        + catch(|| dump.get_stream::<MinidumpModuleList>().map(|l| l.iter().count() as u64).unwrap_or(0)).unwrap_or(0)
            * (m.supplier.all.as_ref().map(|v| v.len() as u64).unwrap_or(0) + if m.supplier.fallback.is_some() { 64 << 10 } else { 0 });
    let (ap_total, ap_peak) = mem_budget(dump_len as u64, s_hint, walk_limit);
    cs.apriori_total.store(ap_total, Ordering::SeqCst);
    shared.hard_total.store(ap_total.saturating_mul(4).min(GUARD_TOTAL_CAP), Ordering::Relaxed);
    shared.hard_live.store(ap_peak.saturating_mul(4).min(GUARD_LIVE_CAP), Ordering::Relaxed);
    let provider = Counting { inner: Symbolizer::new(m.supplier), calls: AtomicU64::new(0), limit, walks: AtomicU64::new(0), walk_limit };
    let evil = m.evil.as_deref().and_then(evil_file);
    let mut subs = PendingProcessorStatSubscriptions::default();
    subs.thread_count = true;
    subs.frame_count = true;
    subs.unwalked_result = true;
    subs.live_frames = true;
    let stats = PendingProcessorStats::new(subs);
    let mut options = match m.opt {
        0 => ProcessorOptions::stable_basic(),
        1 => ProcessorOptions::stable_all(),
        _ => ProcessorOptions::unstable_all(),
    };
    if m.opt == 3 {
        options.stat_reporter = Some(&stats);
        options.evil_json = evil.as_ref().map(|f| f.path());
    }
    let rt = tokio::runtime::Builder::new_current_thread().enable_all().build().unwrap();
    // ---- metered section: processing and the renderings, nothing else (everything this thread asks the
    // allocator for between `start` and `stop` is charged to the code under test)
    meter::start(&shared);
    let processed = catch(|| rt.block_on(minidump_processor::process_minidump_with_options(&dump, &provider, options)));
    let mut rendered: Vec<(&'static str, Result<Result<Vec<u8>, String>, String>)> = vec![];
    if let Ok(Ok(state)) = &processed {
        type R = fn(&ProcessState, &mut Vec<u8>) -> Result<(), String>;
        let renderers: [(&'static str, R); 4] = [
            ("print", |s, v| s.print(v).map_err(|e| e.to_string())),
            ("print_brief", |s, v| s.print_brief(v).map_err(|e| e.to_string())),
            ("print_json", |s, v| s.print_json(v, false).map_err(|e| e.to_string())),
            ("print_json_pretty", |s, v| s.print_json(v, true).map_err(|e| e.to_string())),
        ];
        for (what, f) in renderers {
            let r = catch(|| {
                let mut v: Vec<u8> = vec![];
                f(state, &mut v).map(|()| v)
            });
            rendered.push((what, r));
        }
    }
    let mem = meter::stop();
    drop(evil);
    let state: ProcessState = match processed {
        Err(msg) => {
            res.process = "panic".into();
            if msg.starts_with("runaway-walk") {
                res.oracle.push(("too-many-frames".into(), format!("{msg} (dump of {dump_len} bytes, {total_mem} bytes of memory, {nthreads} threads)")));
            } else {
                res.oracle.push(("process-panics".into(), msg));
            }
            return res;
        }
        Ok(Err(e)) => {
            res.process = format!("err:{}", e.name());
            res.tags.push(format!("process:err:{}", e.name()));
            return res;
        }
        Ok(Ok(s)) => s,
    };
    res.process = "ok".into();
    res.tags.push("process:ok".into());
    if m.opt == 3 {
        // the reporter's accessors must work too
        let r = catch(|| {
            let (done, total) = stats.get_thread_count();
            let frames = stats.get_frame_count();
            let mut live = 0u64;
            stats.drain_new_frames(|_| live += 1);
            let unwalked = stats.take_unwalked_result().is_some();
            (done, total, frames, live, unwalked)
        });
        match r {
            Err(msg) => res.oracle.push(("process-panics".into(), format!("stat reporter: {msg}"))),
            Ok((done, total, frames, live, _)) => {
                let real: u64 = state.threads.iter().map(|t| t.frames.len() as u64).sum();
                if frames != real || live != real || total != state.threads.len() as u64 || done > total {
                    res.tags.push("reporter-count-differs".into());
                }
            }
        }
    }

    // ---- the frame bound: frames <= bytes of the stack memory the walk used + 2
    let bound_r = catch(|| {
        let memory_list = dump.get_memory().unwrap_or_default();
        let threads = dump.get_stream::<MinidumpThreadList>().ok();
        let mut out: Vec<(usize, u64, u64)> = vec![]; // (thread, frames, stack bytes)
        if let Some(tl) = threads {
            for (i, (stack, thread)) in state.threads.iter().zip(tl.threads.iter()).enumerate() {
                let mut sm = thread.stack_memory(&memory_list);
                if let Some(f0) = stack.frames.first() {
                    let sp = f0.context.get_stack_pointer();
                    let contains = sm.as_ref().and_then(|m| m.get_memory_at_address::<u64>(sp)).is_some();
                    if !contains {
                        sm = memory_list.memory_at_address(sp).or(sm);
                    }
                }
                out.push((i, stack.frames.len() as u64, sm.map(|m| m.size()).unwrap_or(0)));
            }
        }
        out
    });
    let bounds = bound_r.unwrap_or_default();
    let mut max_frames = 0;
    for (i, frames, bytes) in &bounds {
        max_frames = max_frames.max(*frames);
        if *frames > bytes.saturating_add(2) {
            res.oracle.push(("too-many-frames".into(), format!("thread {i}: {frames} frames from a stack memory of {bytes} bytes")));
        }
    }
    res.tags.push(format!("frames:{}", match max_frames { 0 => "0", 1 => "1", 2 => "2", 3..=9 => "3-9", 10..=99 => "10-99", _ => "100+" }));
    for t in &state.threads {
        for f in t.frames.iter().skip(1) {
            res.tags.push(format!("trust:{}", f.trust.as_str()));
        }
        if t.frames.iter().any(|f| f.function_name.is_some()) {
            res.tags.push("symbolicated".into());
        }
        if t.frames.iter().any(|f| f.arguments.is_some()) {
            res.tags.push("args-recovered".into());
        }
        if t.frames.iter().any(|f| !f.unloaded_modules.is_empty()) {
            res.tags.push("unloaded-hit".into());
        }
        if t.frames.iter().any(|f| !f.inlines.is_empty()) {
            res.tags.push("inlines".into());
        }
    }
    res.tags.sort();
    res.tags.dedup();
    if let Some(ei) = &state.exception_info {
        res.tags.push("crash-info".into());
        if ei.instruction_str.is_some() {
            res.tags.push("op-analysis".into());
        }
        if ei.memory_access_list.as_ref().is_some_and(|l| !l.is_empty()) {
            res.tags.push("mem-accesses".into());
        }
        if ei.memory_access_list.as_ref().is_some_and(|l| l.iter().any(|a| a.address_info.is_likely_guard_page)) {
            res.tags.push("guard-page".into());
        }
        if !ei.possible_bit_flips.is_empty() {
            res.tags.push("bit-flips".into());
        }
        if !ei.inconsistencies.is_empty() {
            res.tags.push("inconsistencies".into());
        }
        if ei.adjusted_address.is_some() {
            res.tags.push("adjusted-address".into());
        }
    }
    if state.linux_proc_limits.as_ref().is_some_and(|l| !l.limits.is_empty()) {
        res.tags.push("limits-parsed".into());
    }

    // ---- render (done above, inside the metered section)
    let mut json_compact: Option<Vec<u8>> = None;
    let mut text_full: Option<Vec<u8>> = None;
    let mut out_bytes = 0u64;
    for (what, r) in rendered {
        match r {
            Err(msg) => res.oracle.push(("render-panics".into(), format!("{what}: {msg}"))),
            Ok(Err(e)) => res.oracle.push(("render-fails".into(), format!("{what}: {e}"))),
            Ok(Ok(v)) => {
                out_bytes += v.len() as u64;
                if what.starts_with("print_json") {
                    match serde_json::from_slice::<serde_json::Value>(&v) {
                        Ok(_) => {
                            if what == "print_json" {
                                json_compact = Some(v);
                            }
                        }
                        Err(e) => res.oracle.push(("json-invalid".into(), format!("{what}: {e}"))),
                    }
                } else if v.is_empty() {
                    res.oracle.push(("render-fails".into(), format!("{what}: empty output")));
                } else if what == "print" {
                    text_full = Some(v);
                }
            }
        }
    }
    // ---- the memory budget (see `mem_budget`)
    let frames_total: u64 = state.threads.iter().map(|t| t.frames.len() as u64).sum();
    let sym_bytes = served.load(Ordering::Relaxed);
    check_memory(&mut res, &mem, dump_len as u64, sym_bytes, frames_total, out_bytes);
    // ---- the kernels: inputs extracted from the dump / the state, answers from the state / the JSON
    res.kernel = catch(|| kernels::pipeline_kernels(&dump, &state, json_compact.as_deref(), text_full.as_deref(), &bounds)).unwrap_or(None);
    // ---- argument recovery (x86 frames under option sets 2 and 3) against the model
    if let Some((r2, a2)) = catch(|| argrec::argrec_kernel(&dump, &state, m.opt)).unwrap_or(None) {
        if a2.contains('[') {
            res.tags.push("argrec-compared".into());
        }
        res.kernel = Some(match res.kernel.take() {
            Some((r, a)) => (format!("{r} // {r2}"), format!("{a} // {a2}")),
            None => (format!("process kern {r2}"), a2),
        });
    }
    res
}

/// The memory budget of one pipeline case, as a function of D = dump length, S = bytes of symbol
/// files served, F = frames produced (all threads). Justification in notes/C03.md ("Memory budget").
pub fn mem_budget(d: u64, s: u64, f: u64) -> (u64, u64) {
    let total = MEM_K0 + MEM_KD * d + MEM_KS * s + MEM_KF * f;
    let peak = MEM_P0 + MEM_PD * d + MEM_PS * s + MEM_PF * f;
    (total, peak)
}
pub const MEM_K0: u64 = 2 << 20;
pub const MEM_KD: u64 = 64;
pub const MEM_KS: u64 = 64;
pub const MEM_KF: u64 = 256 << 10;
pub const MEM_P0: u64 = 1 << 20;
pub const MEM_PD: u64 = 32;
pub const MEM_PS: u64 = 32;
pub const MEM_PF: u64 = 96 << 10;
/// ceilings of the allocator guard of one case (the guard is 4x the budget of the a-priori frame bound, at most these)
const GUARD_TOTAL_CAP: u64 = 48 << 30;
const GUARD_LIVE_CAP: u64 = 8 << 30;

fn check_memory(res: &mut PipeResult, mem: &meter::Stats, d: u64, s: u64, f: u64, out_bytes: u64) {
    let (bt, bp) = mem_budget(d, s, f);
    if mem.total > bt || mem.peak > bp {
        res.oracle.push((
            "memory-over-budget".into(),
            format!(
                "processing + 4 renderings requested {} bytes in {} requests (budget {bt}), peak live {} (budget {bp}), largest request {}; dump {d} bytes, symbols served {s} bytes, {f} frames, {out_bytes} bytes rendered",
                mem.total, mem.count, mem.peak, mem.max
            ),
        ));
    }
    let bucket = |x: u64, b: u64| -> &'static str {
        // share of the budget used
        match (x.saturating_mul(100) / b.max(1)) as u32 {
            0 => "<1%",
            1..=4 => "1-4%",
            5..=19 => "5-19%",
            20..=49 => "20-49%",
            50..=100 => "50-100%",
            _ => ">100%",
        }
    };
    res.tags.push(format!("mem-total:{}", bucket(mem.total, bt)));
    res.tags.push(format!("mem-peak:{}", bucket(mem.peak, bp)));
    if let Ok(path) = std::env::var("VERIF_MEMSTATS") {
        use std::io::Write;
        if let Ok(mut fh) = std::fs::OpenOptions::new().create(true).append(true).open(path) {
            let line = format!("{d} {s} {f} {} {} {} {} {out_bytes}\n", mem.total, mem.peak, mem.max, mem.count);
            let _ = fh.write_all(line.as_bytes());
        }
    }
}

fn budget(len: usize) -> Duration {
    // VERIF_BUDGET_MS overrides the base (self-test of the `hang` path: 0 makes every case time out)
    let base = std::env::var("VERIF_BUDGET_MS").ok().and_then(|s| s.parse::<u64>().ok()).unwrap_or(5000);
    Duration::from_millis(base + if base == 0 { 0 } else { len as u64 })
}

/// run the case on a worker thread under the wall-clock budget
fn run_with_budget(p: &Pipe) -> Option<PipeResult> {
    let m = match catch(|| materialise(p)) {
        Ok(m) => m?,
        Err(msg) => {
            // a bug of the generator, not of the code under test
            eprintln!("process: generator panicked: {msg} :: {}", describe(p));
            return None;
        }
    };
    let len = m.dump.len();
    if let Ok(path) = std::env::var("VERIF_DUMP_TO") {
        // debugging aid: keep the generated pair
        let _ = std::fs::write(&path, &m.dump);
        for (i, (name, bytes)) in m.supplier.syms.iter().enumerate() {
            let _ = std::fs::write(format!("{path}.sym{i}"), [format!("# {name}\n").as_bytes(), bytes.as_slice()].concat());
        }
    }
    let (tx, rx) = mpsc::channel();
    let t0 = Instant::now();
    let cs = Arc::new(CaseShared::default());
    let shared = cs.meter.clone();
    let cs2 = cs.clone();
    let handle = std::thread::Builder::new().stack_size(16 << 20).spawn(move || {
        let r = catch(|| run_pipeline(m, cs2));
        let _ = tx.send(r);
    });
    let Ok(handle) = handle else { return None };
    // wait in slices: a metered thread that trips the allocator's runaway guard is parked forever
    let deadline = budget(len);
    let got = loop {
        match rx.recv_timeout(Duration::from_millis(20).min(deadline)) {
            Err(mpsc::RecvTimeoutError::Timeout) => {
                let req = shared.runaway_request.load(Ordering::SeqCst);
                if req != 0 {
                    let total = shared.runaway_total.load(Ordering::SeqCst);
                    let ap = cs.apriori_total.load(Ordering::SeqCst);
                    let mut r = PipeResult::default();
                    r.process = "alloc-runaway".into();
                    // the guard sits at 4x the budget of the a-priori frame bound unless that is above the
                    // ceiling; below the ceiling a trip is a definite violation of the budget
                    if total > ap || req > ap {
                        r.oracle.push((
                            "memory-over-budget".into(),
                            format!("a dump of {len} bytes made processing/rendering request {req} bytes at once / {total} bytes in total; the budget for the largest number of frames its stacks allow is {ap} bytes: stopped by the allocator guard"),
                        ));
                    } else {
                        r.tags.push("mem-guard-inconclusive".into());
                    }
                    return Some(r);
                }
                if t0.elapsed() >= deadline {
                    break Err(mpsc::RecvTimeoutError::Timeout);
                }
            }
            other => break other,
        }
    };
    match got {
        Ok(Ok(mut r)) => {
            let _ = handle.join();
            let ms = t0.elapsed().as_millis();
            r.tags.push(format!("time:{}", if ms < 10 { "<10ms" } else if ms < 100 { "<100ms" } else if ms < 1000 { "<1s" } else { ">=1s" }));
            Some(r)
        }
        Ok(Err(msg)) => {
            let _ = handle.join();
            let mut r = PipeResult::default();
            r.process = "panic".into();
            r.oracle.push(("process-panics".into(), format!("outside the guarded calls: {msg}")));
            Some(r)
        }
        Err(_) => {
            // the worker is left behind (it cannot be cancelled); the case is a hang
            let mut r = PipeResult::default();
            r.process = "hang".into();
            r.oracle.push(("hang".into(), format!("no result within {:?} for a dump of {len} bytes", budget(len))));
            Some(r)
        }
    }
}

thread_local! {
    /// (case, model request) of the last pipeline case executed on this thread
    static LAST: std::cell::RefCell<Option<(String, Option<String>)>> = const { std::cell::RefCell::new(None) };
}

fn render_gen(seed: u64, cpu: &str, os: &str, feat: u32, opt: u32, mutation: Option<(u64, u32)>) -> String {
    let mut s = format!("process gen seed:{seed} cpu:{cpu} os:{os} feat:{feat:x} opt:{opt}");
    if let Some((a, b)) = mutation {
        s.push_str(&format!(" mut:{a}:{b}"));
    }
    s
}

impl Engine for Process {
    fn name(&self) -> &'static str {
        "process"
    }
    fn rule(&self) -> String {
        use std::sync::atomic::Ordering::Relaxed;
        format!("pipeline cases: (minidump bytes, per-module symbol bytes) pairs = minidump-synth dumps for 10 CPU kinds (x86 amd64 arm arm64 arm64-old mips mips64 ppc ppc64 sparc) x 5 OSes (threads with 16..4096-byte stacks seeded with return addresses and frame links, also at the top of the address space; modules; exception with own context and crashing amd64 code; memory-info list or Linux maps with regions up to 2^64-1; /proc limits with short/blank lines, lsb-release, cpuinfo, status, environ; misc info, handles, unloaded modules, crashpad/breakpad/mac streams, thread names), byte-mutated copies of them and of 7 repo dumps, symbol files from a grammar (MODULE/FILE/FUNC+lines/INLINE/PUBLIC/STACK CFI incl. rules that never touch memory/STACK WIN with extreme sizes) plus byte corruption, `big` pairs (one thread, 4 KiB..16 MiB stack walked by CFI in 1..65536-byte frames, 0..8 MiB of symbol records), `argrec` pairs (x86 frames inside FUNCs with generated names: nested templates/parentheses, unbalanced nesting, up to 1200 arguments, multi-byte characters and white space), options 0..3 (stable_basic, stable_all, unstable_all, unstable_all+stat reporter+evil json); each run under catch_unwind, a 5 s + 1 ms/byte budget and a counting allocator (process_minidump_with_options + 4 renderings: total requested <= {} + {}*D + {}*S + {}*F bytes, peak live <= {} + {}*D + {}*S + {}*F, D dump bytes, S symbol bytes served, F frames); frames per thread compared with stack bytes + 2; print, print_brief, print_json(false/true) rendered, JSON re-parsed. the kernel inputs of every processed state (limits text, by_addr regions and the region at each accessed address, module lists and frames; for x86 states under options 2/3 the frames' stack pointers, names, eax and the stack bytes) go to the Lean model and its answers are compared with the state / JSON / text report (incl. the recovered arguments). kernel cases: /proc limits text (limitscase), guard-page region lists incl. ends at 2^64-1 (guardcase), push/call/pop/ret with rsp 0..16 and boundaries (pushcase), STACK WIN FPO records with u32 extremes (fpo) against the model. crashing-instruction cases: opsweep = one opcode byte of the one-byte / 0F / 0F38 / 0F3A maps under one prefix string (legacy, REX, VEX, EVEX) x ModRM mod x reg x rm{{0,3,4,5}} x 4 SIB forms, decoded by yaxpeax-x86, abstracted, shape judged, instructions with an opcode the analysis distinguishes (and one per operand-shape signature) run through the real pipeline with a register profile and compared with MdModel.OpAnalysis (properties, memory accesses, instruction-pointer update, flip registers); opone = random tails behind 20 prefix/map heads and guided bytes, same comparison; op = guided bytes through the pipeline (oracle only). this run: {} decoded instructions abstracted and judged, {} of them run through the real analysis and compared. non-trivial = the dump was readable and processing returned a ProcessState that was rendered (pipeline) / the kernel produced a non-empty answer (kernel) / at least one instruction ran through the real analysis (opsweep, opone); distinct = distinct case line",
            MEM_K0, MEM_KD, MEM_KS, MEM_KF, MEM_P0, MEM_PD, MEM_PS, MEM_PF, opana::DECODED.load(Relaxed), opana::REAL_RUNS.load(Relaxed))
    }
    fn exhaustive_part(&self) -> Option<String> {
        Some("every (CPU kind, OS, option set) combination = 10 x 5 x 4 is generated at least twice per run; pushcase: all rsp in 0..=16 x {push, call, pop, ret}; opsweep: all 256 opcode bytes of the one-byte, 0F, 0F38 and 0F3A maps under each of 7 legacy/REX prefix strings and of the VEX (C5, C4 map 2, C4 map 3) and EVEX (map 1; map 2 with mask) heads (quick; 32 prefix strings in the thorough tier), each with 4 mod x 8 reg x {rm 0, 3, 5, and rm 4 with 4 SIB bytes}".into())
    }

    fn generate(&self, tier: Tier, rng: &mut Rng, emit: &mut dyn FnMut(String)) {
        let quick = tier == Tier::Quick;
        // 1. all CPU x OS x option combinations, rich feature sets
        let rounds = if quick { 4 } else { 30 };
        for round in 0..rounds {
            for cpu in pg::CPUS {
                for os in pg::OSES {
                    for opt in 0..4u32 {
                        let mut feat = (rng.next() as u32) & pg::F_ALL;
                        // usually little endian, with stacks, modules and an exception
                        if !rng.chance(1, 10) {
                            feat &= !pg::F_BIG;
                        }
                        if round % 2 == 0 {
                            feat |= pg::F_STACKS | pg::F_MODULES | pg::F_EXCEPTION | pg::F_EXC_CONTEXT | pg::F_SYM_CFI;
                        }
                        if *cpu == "amd64" && rng.chance(3, 4) {
                            feat |= pg::F_CODE | pg::F_EXCEPTION | pg::F_EXC_CONTEXT;
                        }
                        if opt < 3 {
                            feat &= !pg::F_EVIL;
                        }
                        let mutation = if rng.chance(1, 4) { Some((rng.below(1 << 32), rng.range(1, 6) as u32)) } else { None };
                        emit(render_gen(rng.below(1 << 40), cpu, os, feat, opt, mutation));
                    }
                }
            }
        }
        // 2. focused streams: well-formed dumps aimed at one mechanism each
        let n = if quick { 3000 } else { 40000 };
        for i in 0..n {
            let cpu = match i % 6 {
                0 | 1 => "amd64",
                3 => "x86",
                _ => *rng.pick(pg::CPUS),
            };
            let os = *rng.pick(pg::OSES);
            let base = pg::F_STACKS | pg::F_MODULES | pg::F_EXCEPTION | pg::F_EXC_CONTEXT;
            let feat = match i % 6 {
                0 => base | pg::F_CODE | pg::F_MEMINFO | (rng.next() as u32 & (pg::F_HOSTILE | pg::F_MEM64)),
                1 => base | pg::F_CODE | pg::F_MAPS | pg::F_LIMITS | pg::F_PROC,
                2 => base | pg::F_SYM_CFI | pg::F_SYM_FUNC | (rng.next() as u32 & (pg::F_HOSTILE | pg::F_SYM_CORRUPT | pg::F_UNLOADED)),
                3 => base | pg::F_SYM_WIN | pg::F_SYM_FUNC | (rng.next() as u32 & (pg::F_SYM_CFI | pg::F_SYM_CORRUPT)),
                4 => base | pg::F_HOSTILE | pg::F_UNLOADED | pg::F_SYM_FUNC | pg::F_SYM_CFI | (rng.next() as u32 & pg::F_ALL & !pg::F_BIG),
                _ => (rng.next() as u32) & pg::F_ALL & !pg::F_BIG,
            };
            let opt = if feat & pg::F_EVIL != 0 { 3 } else { rng.below(4) as u32 };
            emit(render_gen(rng.below(1 << 40), cpu, os, feat, opt, None));
        }
        // 3. mutated repository dumps
        let n = if quick { 600 } else { 10000 };
        for i in 0..n {
            let name = TESTDATA[i % TESTDATA.len()];
            let k = if i < TESTDATA.len() { 0 } else { rng.range(1, 8) };
            emit(format!(
                "process file name:{name} opt:{} mut:{}:{k} sym:{}:{:x}",
                rng.below(4),
                rng.below(1 << 32),
                rng.below(1 << 32),
                (pg::F_SYM_FUNC | pg::F_SYM_CFI | pg::F_SYM_WIN | pg::F_SYM_CORRUPT) & rng.next() as u32
            ));
        }
        // 3b. memory-budget cases: many frames, big stacks, big symbol files
        let bigs: &[(u64, u64, u64)] = if quick {
            &[(4 << 20, 4096, 0), (65536, 8, 16), (262144, 64, 512), (4096, 8, 2048), (1 << 20, 256, 64), (16384, 1, 0)]
        } else {
            &[(4 << 20, 4096, 0), (65536, 8, 16), (262144, 64, 512), (4096, 8, 2048), (1 << 20, 256, 64), (16384, 1, 0), (16 << 20, 65536, 0), (1 << 20, 16, 1024), (512, 8, 8192), (262144, 4, 4096)]
        };
        for (k, (stack, step, symk)) in bigs.iter().enumerate() {
            for cpu in ["amd64", "x86", "arm64"] {
                emit(format!("process big seed:{} cpu:{cpu} stack:{stack} step:{step} symk:{symk} opt:{}", rng.below(1 << 32), (k as u32 + if cpu == "x86" { 2 } else { 0 }) % 4));
            }
        }
        // 4. kernel cases (model-compared)
        kernels::generate(tier, rng, emit);
        // 4b. argument recovery: x86 frames with generated function names
        argrec::generate(tier, rng, emit);
        // 5. the crashing-instruction analysis against the model (decoder sweep + random tails)
        opana::generate(tier, rng, emit);
    }

    fn model_request(&self, case: &str) -> Option<String> {
        // the request is derived from what the implementation produced (kernel inputs extracted from
        // the dump / the state); `exec` leaves it here
        let cached = LAST.with(|l| l.borrow().as_ref().filter(|(c, _)| c == case).map(|(_, r)| r.clone()));
        match cached {
            Some(r) => r,
            None => {
                let _ = self.exec(case);
                LAST.with(|l| l.borrow().as_ref().filter(|(c, _)| c == case).and_then(|(_, r)| r.clone()))
            }
        }
    }

    fn exec(&self, case: &str) -> ImplResult {
        let mut res = ImplResult::default();
        if std::env::var("VERIF_LOUD").is_ok() {
            std::panic::set_hook(Box::new(|info| eprintln!("panic at {:?}: {info}", info.location())));
        }
        let f: Vec<&str> = case.split(' ').filter(|s| !s.is_empty()).collect();
        if f.first() != Some(&"process") {
            res.out = "bad-op".into();
            return res;
        }
        if let Some(p) = parse_pipe(&f) {
            let Some(r) = run_with_budget(&p) else {
                res.out = "bad-op".into();
                LAST.with(|l| *l.borrow_mut() = Some((case.to_string(), None)));
                return res;
            };
            res.oracle = r.oracle;
            res.tags = r.tags;
            res.tags.push(format!("outcome:{}", r.process.split(':').next().unwrap_or("")));
            res.nontrivial = r.process == "ok";
            match r.kernel {
                Some((req, ans)) => {
                    res.out = ans;
                    LAST.with(|l| *l.borrow_mut() = Some((case.to_string(), Some(req))));
                }
                None => {
                    res.out = r.process;
                    LAST.with(|l| *l.borrow_mut() = Some((case.to_string(), None)));
                }
            }
            return res;
        }
        let req = match f.get(1).copied() {
            Some("opsweep") | Some("opone") => opana::exec(&f, &mut res),
            _ => kernels::exec(&f, &mut res),
        };
        LAST.with(|l| *l.borrow_mut() = Some((case.to_string(), req)));
        res
    }

    fn shrink(&self, case: &str, still_fails: &dyn Fn(&str) -> bool) -> String {
        let f: Vec<&str> = case.split(' ').filter(|s| !s.is_empty()).collect();
        if f.get(1) == Some(&"opscan") && f.len() == 5 {
            // name the single instruction
            let pfx = kv(f[2], "pfx").map(|p| if p == "-" { vec![] } else { unhex(p).unwrap_or_default() }).unwrap_or_default();
            let map = kv(f[3], "map").unwrap_or("1");
            let op: u8 = kv(f[4], "op").and_then(|s| s.parse().ok()).unwrap_or(0);
            for code in kernels::opscan_codes(&pfx, map, op) {
                let c = format!("process op code:{} rsp:4", hex(&code));
                if still_fails(&c) {
                    return c;
                }
            }
            return case.to_string();
        }
        if f.get(1) == Some(&"opsweep") && f.len() == 6 {
            // name the single instruction
            let pfx = kv(f[2], "pfx").map(|p| if p == "-" { vec![] } else { unhex(p).unwrap_or_default() }).unwrap_or_default();
            let map = kv(f[3], "map").unwrap_or("1");
            let op: u8 = kv(f[4], "op").and_then(|s| s.parse().ok()).unwrap_or(0);
            let (items, _) = opana::sweep_items(&pfx, map, op, true);
            for it in items {
                for p in [it.real.unwrap_or(0), 0, 1, 2] {
                    let c = format!("process opone code:{} prof:{p}", hex(&it.code));
                    if still_fails(&c) {
                        return c;
                    }
                }
            }
            return case.to_string();
        }
        let Some(Pipe::Gen { seed, cpu, os, mut feat, mut opt, mut mutation }) = parse_pipe(&f) else {
            return case.to_string();
        };
        let mut best = case.to_string();
        // drop the mutation, lower the option set, clear feature bits one at a time
        if mutation.is_some() {
            let c = render_gen(seed, &cpu, &os, feat, opt, None);
            if still_fails(&c) {
                mutation = None;
                best = c;
            } else if let Some((s, k)) = mutation {
                for k2 in 1..k {
                    let c = render_gen(seed, &cpu, &os, feat, opt, Some((s, k2)));
                    if still_fails(&c) {
                        mutation = Some((s, k2));
                        best = c;
                        break;
                    }
                }
            }
        }
        for o in 0..opt {
            let c = render_gen(seed, &cpu, &os, feat & if o < 3 { !pg::F_EVIL } else { !0 }, o, mutation);
            if still_fails(&c) {
                opt = o;
                if o < 3 {
                    feat &= !pg::F_EVIL;
                }
                best = c;
                break;
            }
        }
        for bit in 0..25 {
            if feat & (1 << bit) == 0 {
                continue;
            }
            let c = render_gen(seed, &cpu, &os, feat & !(1 << bit), opt, mutation);
            if still_fails(&c) {
                feat &= !(1 << bit);
                best = c;
            }
        }
        best
    }
}

fn describe(p: &Pipe) -> String {
    match p {
        Pipe::Gen { seed, cpu, os, feat, opt, mutation } => render_gen(*seed, cpu, os, *feat, *opt, *mutation),
        Pipe::File { name, mutation, .. } => format!("file {name} mut:{}:{}", mutation.0, mutation.1),
        Pipe::Raw { .. } => "raw".into(),
        Pipe::ArgRec { case, .. } => format!("argrec seed:{} ({} names)", case.seed, case.names.len()),
        Pipe::Big { seed, cpu, stack, step, symk, opt } => format!("process big seed:{seed} cpu:{cpu} stack:{stack} step:{step} symk:{symk} opt:{opt}"),
    }
}
