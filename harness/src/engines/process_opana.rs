//! op_analysis.rs side of engine `process` (C03): crashing amd64 instructions are decoded with the
//! real yaxpeax-x86 decoder, abstracted into the Lean model's instruction type (`abstract_operand`
//! / `abstract_instruction` below are the TRUSTED abstraction — one line per `Operand` variant),
//! the real analysis is run through the only public entry (`process_minidump` on a synthesized
//! dump whose exception context holds the chosen registers, with the instruction bytes at `rip`)
//! under `catch_unwind`, and what the `ProcessState` shows of the analysis is compared with the
//! compiled model `MdModel.OpAnalysis.analyze`.
//!
//! case lines
//!   process opsweep pfx:<hex|-> map:<1|0f|0f38|0f3a> op:<0..255> all:<0|1>
//!       every ModRM mod x reg x rm in {0,4,5} (+4 SIB forms for rm=4) of one opcode under one prefix
//!       string (legacy prefixes, REX, VEX, EVEX): all decoded instructions are abstracted and their
//!       shape judged (`Shape`); those with an opcode the analysis distinguishes — and one per
//!       distinct (opcode, operand shapes) otherwise, everything with all:1 — run through the real code
//!   process opone code:<hex> prof:<0..3>
//!       one instruction (first decoded instruction of the bytes), register profile `prof`
//! oracle classes: process-panics (the real analysis panicked), op-shape-outside (a decoded
//! instruction is outside the model's `Shape`, i.e. a panic arm is reachable with suitable
//! registers), op-decode-disagrees (the pipeline did / did not analyse what the decoder accepts).

use crate::common::*;
use minidump::format as md;
use minidump::*;
use minidump_processor::ProcessorOptions;
use minidump_synth::*;
use scroll::{Pread, Pwrite};
use std::collections::{BTreeMap, HashMap, HashSet};
use test_assembler::{Endian, Section};
use yaxpeax_x86::amd64::{InstDecoder, Instruction, Operand};

pub const CODE_BASE: u64 = 0x0000_5555_0000_1000;
pub const STACK_BASE: u64 = 0x0000_7ffd_0000_0000;
const GPR: [&str; 16] = ["rax", "rcx", "rdx", "rbx", "rsp", "rbp", "rsi", "rdi", "r8", "r9", "r10", "r11", "r12", "r13", "r14", "r15"];

/// opcode names the analysis tells apart AND that can reach a panic arm (the 33 access-derivable ones, CALLF, JMPE)
const RELEVANT: &[&str] = &[
    "ADD", "CALL", "CMP", "DEC", "INC", "JMP", "JMPF", "JO", "JNO", "JB", "JNB", "JZ", "JNZ", "JA", "JNA", "JS", "JNS", "JP", "JNP", "JL", "JGE", "JG",
    "JLE", "LEA", "MOV", "MOVAPS", "MOVUPS", "POP", "PUSH", "RETF", "RETURN", "SUB", "UCOMISS", "CALLF", "JMPE",
];
const CALL_LIKE: &[&str] = &["CALL", "CALLF", "JMP", "JMPF", "JMPE"];

// ------------------------------------------------------------------------------------ abstraction (trusted)

/// one `yaxpeax_x86::amd64::Operand` in the model's syntax
fn abstract_operand(op: Operand) -> String {
    match op {
        Operand::ImmediateI8 { .. }
        | Operand::ImmediateU8 { .. }
        | Operand::ImmediateI16 { .. }
        | Operand::ImmediateU16 { .. }
        | Operand::ImmediateI32 { .. }
        | Operand::ImmediateU32 { .. }
        | Operand::ImmediateI64 { .. }
        | Operand::ImmediateU64 { .. } => "imm".into(),
        Operand::Register { reg } => format!("reg:{}", reg.name()),
        Operand::RegisterMaskMerge { reg, .. } | Operand::RegisterMaskMergeSae { reg, .. } | Operand::RegisterMaskMergeSaeNoround { reg, .. } => format!("regm:{}", reg.name()),
        Operand::AbsoluteU32 { addr } => format!("abs32:{addr}"),
        Operand::AbsoluteU64 { addr } => format!("abs64:{addr}"),
        Operand::MemDeref { base } => format!("deref:{}", base.name()),
        Operand::Disp { base, disp } => format!("disp:{}:{disp}", base.name()),
        Operand::MemIndexScale { index, scale } => format!("is:{}:{scale}", index.name()),
        Operand::MemIndexScaleDisp { index, scale, disp } => format!("isd:{}:{scale}:{disp}", index.name()),
        Operand::MemBaseIndexScale { base, index, scale } => format!("bis:{}:{}:{scale}", base.name(), index.name()),
        Operand::MemBaseIndexScaleDisp { base, index, scale, disp } => format!("bisd:{}:{}:{scale}:{disp}", base.name(), index.name()),
        Operand::MemDerefMasked { base, .. } => format!("mderef:{}", base.name()),
        Operand::DispMasked { base, disp, .. } => format!("mdisp:{}:{disp}", base.name()),
        Operand::MemIndexScaleMasked { index, scale, .. } => format!("mis:{}:{scale}", index.name()),
        Operand::MemIndexScaleDispMasked { index, scale, disp, .. } => format!("misd:{}:{scale}:{disp}", index.name()),
        Operand::MemBaseIndexScaleMasked { base, index, scale, .. } => format!("mbis:{}:{}:{scale}", base.name(), index.name()),
        Operand::MemBaseIndexScaleDispMasked { base, index, scale, disp, .. } => format!("mbisd:{}:{}:{scale}:{disp}", base.name(), index.name()),
        Operand::Nothing => "nothing".into(),
        #[allow(unreachable_patterns)]
        _ => "unknown".into(),
    }
}

pub struct Abs {
    pub opc: String,
    /// `-` no memory access | `?` unknown size | n
    pub ms: String,
    pub ops: Vec<String>,
}
impl Abs {
    pub fn fields(&self) -> String {
        format!("opc:{} ms:{} ops:{}", self.opc, self.ms, if self.ops.is_empty() { "-".into() } else { self.ops.join(";") })
    }
    /// (opcode, memory-size class, operand kinds): what the distribution tags and the per-case
    /// choice of real runs are keyed on
    pub fn signature(&self) -> String {
        format!("{}/{}/{}", self.opc, if self.ms == "-" { "-" } else { "m" }, self.ops.iter().map(|o| o.split(':').next().unwrap_or("")).collect::<Vec<_>>().join(","))
    }
    /// the model's `Shape`, re-implemented for the oracle (the model's own verdict is compared too)
    pub fn shape_ok(&self) -> bool {
        let n = self.ops.len();
        if n > 4 {
            return false;
        }
        if CALL_LIKE.contains(&self.opc.as_str()) && n != 1 {
            return false;
        }
        if self.ms == "-" {
            return true;
        }
        let allowed: fn(usize) -> bool = match self.opc.as_str() {
            "ADD" | "SUB" | "CMP" | "UCOMISS" | "MOV" | "MOVAPS" | "MOVUPS" | "LEA" => |i| i <= 1,
            "CALL" | "JMP" | "JMPF" | "PUSH" | "DEC" | "INC" | "POP" => |i| i == 0,
            "RETURN" | "RETF" | "JO" | "JNO" | "JB" | "JNB" | "JZ" | "JNZ" | "JA" | "JNA" | "JS" | "JNS" | "JP" | "JNP" | "JL" | "JGE" | "JG" | "JLE" => |_| false,
            _ => return true,
        };
        self.ops.iter().enumerate().all(|(i, o)| !is_memory_kind(o) || allowed(i))
    }
}

fn is_memory_kind(o: &str) -> bool {
    !matches!(o.split(':').next().unwrap_or(""), "imm" | "reg" | "regm" | "nothing")
}

/// what op_analysis.rs can see of a decoded instruction
fn abstract_instruction(i: &Instruction) -> Abs {
    Abs {
        opc: format!("{:?}", i.opcode()),
        ms: match i.mem_size() {
            None => "-".into(),
            Some(s) => match s.bytes_size() {
                None => "?".into(),
                Some(n) => n.to_string(),
            },
        },
        ops: (0..i.operand_count()).map(|k| if k < 4 { abstract_operand(i.operand(k)) } else { "unknown".into() }).collect(),
    }
}

/// decode the first instruction of `bytes` exactly as op_analysis.rs does; the instruction's
/// length is the shortest prefix that decodes
pub fn decode(bytes: &[u8]) -> Option<(Instruction, usize)> {
    let d = InstDecoder::default();
    let ins = catch(|| d.decode_slice(bytes).ok()).ok()??;
    for n in 1..=bytes.len().min(16) {
        if d.decode_slice(&bytes[..n]).is_ok() {
            return Some((ins, n));
        }
    }
    Some((ins, bytes.len()))
}

// ------------------------------------------------------------------------------------ the dump

/// register profiles: values of rax,rcx,rdx,rbx,rsp,rbp,rsi,rdi,r8..r15 (the yaxpeax numbering)
pub fn profile(p: u32, seed: u64) -> [u64; 16] {
    match p {
        // every register a distinct single bit below 2^48: `check_for_bitflips` reports a flip to 0 for
        // every register the analysis names, so the register set is observable
        0 => std::array::from_fn(|i| 1u64 << (12 + 2 * i)),
        // pointers into the stack / code regions and small indices: call/jmp through memory and ret find targets
        1 => [STACK_BASE + 8, 1, 2, STACK_BASE + 16, STACK_BASE + 32, STACK_BASE + 24, STACK_BASE, CODE_BASE, 0, 3, STACK_BASE + 40, CODE_BASE + 8, 0, STACK_BASE + 48, u64::MAX, 1 << 63],
        // boundaries: wrapping sums, rsp < 8, zero bases
        2 => [u64::MAX, 1 << 61, 0xffff_ffff_ffff_fff8, 0, 4, 8, 0x8000_0000_0000_0000, 0x7fff_ffff_ffff_ffff, 1, 0xffff_ffff, 0x1_0000_0000, 0, u64::MAX - 7, 0x2000_0000_0000_0000, 16, STACK_BASE + 56],
        _ => {
            let mut r = Rng::new(seed);
            std::array::from_fn(|_| match r.below(6) {
                0 => 0,
                1 => u64::MAX,
                2 => STACK_BASE + 8 * r.below(8),
                3 => r.below(16),
                4 => 1u64 << r.below(64),
                _ => r.next(),
            })
        }
    }
}

pub fn stack_bytes() -> Vec<u8> {
    // 8 words: a null, a code address, stack addresses, a non-canonical value
    let words: [u64; 8] = [0, CODE_BASE + 2, STACK_BASE + 8, 0xdead_beef_dead_beef, 1, u64::MAX, CODE_BASE, 0x1234];
    words.iter().flat_map(|w| w.to_le_bytes()).collect()
}

/// a Windows amd64 dump: one thread (64-byte stack), an access-violation exception whose context has
/// `rip = CODE_BASE` and the given registers, a memory region with `code` (+ 16 NOPs) at `CODE_BASE`;
/// no memory-info streams, crash address 0x1234 (never a general-protection fault)
pub fn build_dump(code: &[u8], regs: &[u64; 16]) -> Option<Vec<u8>> {
    let endian = Endian::Little;
    let n = <md::CONTEXT_AMD64 as scroll::ctx::SizeWith<scroll::Endian>>::size_with(&scroll::LE);
    let mut ctx_bytes = vec![0u8; n];
    let mut c: md::CONTEXT_AMD64 = ctx_bytes.pread_with(0, scroll::LE).ok()?;
    c.context_flags = 0x10001f;
    c.rip = CODE_BASE;
    c.rax = regs[0];
    c.rcx = regs[1];
    c.rdx = regs[2];
    c.rbx = regs[3];
    c.rsp = regs[4];
    c.rbp = regs[5];
    c.rsi = regs[6];
    c.rdi = regs[7];
    c.r8 = regs[8];
    c.r9 = regs[9];
    c.r10 = regs[10];
    c.r11 = regs[11];
    c.r12 = regs[12];
    c.r13 = regs[13];
    c.r14 = regs[14];
    c.r15 = regs[15];
    ctx_bytes.pwrite_with(c, 0, scroll::LE).ok()?;
    let ctx_len = ctx_bytes.len() as u32;
    let mut dump = SynthMinidump::with_endian(endian).add(Section::with_endian(endian).append_bytes(&ctx_bytes));
    let si = SystemInfo::new(endian).set_processor_architecture(md::ProcessorArchitecture::PROCESSOR_ARCHITECTURE_AMD64 as u16).set_platform_id(md::PlatformId::VER_PLATFORM_WIN32_NT as u32);
    dump = dump.add_system_info(si);
    let tctx = Section::with_endian(endian).append_bytes(&ctx_bytes);
    let stack = Memory::with_section(Section::with_endian(endian).append_bytes(&stack_bytes()), STACK_BASE);
    dump = dump.add_thread(Thread::new(endian, 1, &stack, &tctx)).add(tctx).add_memory(stack);
    dump = dump.add_memory(Memory::with_section(Section::with_endian(endian).append_bytes(code).append_repeated(0x90, 16), CODE_BASE));
    let mut ex = Exception::new(endian);
    ex.thread_id = 1;
    ex.exception_record.exception_code = 0xc0000005;
    ex.exception_record.exception_flags = 0;
    ex.exception_record.exception_address = CODE_BASE;
    ex.exception_record.number_parameters = 2;
    ex.exception_record.exception_information[0] = 0; // read
    ex.exception_record.exception_information[1] = 0x1234;
    ex.thread_context = (ctx_len, 32);
    dump = dump.add_exception(ex);
    dump.finish()
}

/// counters of this run, shown in the engine's rule text (evidence)
pub static DECODED: std::sync::atomic::AtomicU64 = std::sync::atomic::AtomicU64::new(0);
pub static REAL_RUNS: std::sync::atomic::AtomicU64 = std::sync::atomic::AtomicU64::new(0);

thread_local! {
    static RT: tokio::runtime::Runtime = tokio::runtime::Builder::new_current_thread().enable_all().build().unwrap();
}

/// the canonical line of what the `ProcessState` shows of the analysis of `code` with `regs`
pub fn run_real(code: &[u8], regs: &[u64; 16], render: bool) -> Result<String, String> {
    let bytes = build_dump(code, regs).ok_or_else(|| "dump generator failed".to_string())?;
    catch(|| {
        let dump = match Minidump::read(bytes.as_slice()) {
            Ok(d) => d,
            Err(_) => return "unreadable".to_string(),
        };
        let provider = minidump_unwind::Symbolizer::new(minidump_unwind::string_symbol_supplier(HashMap::new()));
        let state = match RT.with(|rt| rt.block_on(minidump_processor::process_minidump_with_options(&dump, &provider, ProcessorOptions::stable_basic()))) {
            Ok(s) => s,
            Err(e) => return format!("err:{}", e.name()),
        };
        if render {
            let mut v = vec![];
            let _ = state.print(&mut v);
            v.clear();
            let _ = state.print_json(&mut v, false);
        }
        let Some(ei) = state.exception_info.as_ref() else { return "no-exception-info".to_string() };
        if ei.instruction_str.is_none() {
            return "undecoded".to_string();
        }
        let b = |x: bool| if x { '1' } else { '0' };
        let props = match &ei.instruction_properties {
            Some(p) => format!("{}{}{}{}", b(p.is_access_derivable), b(p.is_division), b(p.is_privileged), b(p.is_only_gpf_when_non_canonical)),
            None => "-".into(),
        };
        let acc = match &ei.memory_access_list {
            None => "?".to_string(),
            Some(l) if l.is_empty() => "-".to_string(),
            Some(l) => l
                .iter()
                .map(|a| format!("{}/{}/{}/{}", a.address_info.address, b(a.address_info.is_likely_null_pointer_dereference), a.size.map(|s| s.to_string()).unwrap_or_else(|| "?".into()), a.access_type))
                .collect::<Vec<_>>()
                .join(","),
        };
        let ip = match &ei.instruction_pointer_update {
            None => "?".to_string(),
            Some(u) => parse_ip_update(&format!("{u:?}")),
        };
        let mut flips: Vec<&str> = vec![];
        for f in &ei.possible_bit_flips {
            if let Some(r) = f.source_register {
                if flips.last() != Some(&r) {
                    flips.push(r);
                }
            }
        }
        format!("shape:1 props:{props} acc:{acc} ip:{ip} flips:{}", if flips.is_empty() { "-".into() } else { flips.join(",") })
    })
}

/// `InstructionPointerUpdate` cannot be named from outside the crate: read its `Debug` form
fn parse_ip_update(dbg: &str) -> String {
    if dbg == "NoUpdate" {
        return "none".into();
    }
    let num = |key: &str| -> Option<&str> {
        let i = dbg.find(key)? + key.len();
        let rest = &dbg[i..];
        let end = rest.find([',', ' ', '}']).unwrap_or(rest.len());
        Some(&rest[..end])
    };
    match (num("address: "), num("is_likely_null_pointer_dereference: ")) {
        (Some(a), Some(n)) if dbg.starts_with("Update") => format!("upd/{a}/{}", if n == "true" { '1' } else { '0' }),
        _ => format!("unparsed:{}", dbg.replace(' ', "_")),
    }
}

/// the model request of one real run: the abstraction, the register file, the two memory regions
fn ins_request(a: &Abs, code: &[u8], len_hint: usize, regs: &[u64; 16]) -> String {
    let _ = len_hint;
    let mut rf: Vec<String> = GPR.iter().zip(regs.iter()).map(|(n, v)| format!("{n}={v}")).collect();
    rf.push(format!("rip={CODE_BASE}"));
    let mut code_region = code.to_vec();
    code_region.extend(std::iter::repeat(0x90).take(16));
    format!("ins {} rf:{} mem:{}:{};{}:{} stk:{}:{}", a.fields(), rf.join(","), STACK_BASE, hex(&stack_bytes()), CODE_BASE, hex(&code_region), STACK_BASE, hex(&stack_bytes()))
}

// ------------------------------------------------------------------------------------ cases

fn kvf<'a>(f: &'a str, key: &str) -> Option<&'a str> {
    f.strip_prefix(key)?.strip_prefix(':')
}

/// the byte strings one `opsweep` case covers
pub fn sweep_codes(pfx: &[u8], map: &str, op: u8) -> Vec<Vec<u8>> {
    let mut out = vec![];
    let head = |c: &mut Vec<u8>| {
        c.extend_from_slice(pfx);
        match map {
            "0f" => c.push(0x0f),
            "0f38" => c.extend_from_slice(&[0x0f, 0x38]),
            "0f3a" => c.extend_from_slice(&[0x0f, 0x3a]),
            _ => {}
        }
        c.push(op);
    };
    // displacement / immediate bytes: a negative disp32 / a disp8 of -8, then immediates
    const TAIL: [u8; 12] = [0xf8, 0xff, 0xff, 0xff, 0x10, 0x20, 0x30, 0x40, 0x50, 0x60, 0x70, 0x7f];
    for md_ in 0..4u8 {
        for reg in 0..8u8 {
            for rm in [0u8, 3, 4, 5] {
                let modrm = (md_ << 6) | (reg << 3) | rm;
                if rm == 4 && md_ != 3 {
                    // SIB: (base=rbp/none, no index) (base=rbp/none, index=rcx*2) (base=rbx, no index) (base=rbx, index=rcx*8)
                    for sib in [0x25u8, 0x4d, 0x23, 0xcb] {
                        let mut c = vec![];
                        head(&mut c);
                        c.push(modrm);
                        c.push(sib);
                        c.extend_from_slice(&TAIL);
                        out.push(c);
                    }
                } else {
                    let mut c = vec![];
                    head(&mut c);
                    c.push(modrm);
                    c.extend_from_slice(&TAIL);
                    out.push(c);
                }
            }
        }
    }
    out
}

pub struct Item {
    pub code: Vec<u8>,
    pub abs: Abs,
    pub real: Option<u32>, // register profile of the real run
}

/// decode the variants, drop duplicates (an opcode without ModRM decodes to the same instruction
/// every time), decide which run through the real code
pub fn sweep_items(pfx: &[u8], map: &str, op: u8, all: bool) -> (Vec<Item>, usize) {
    let mut seen: HashSet<Vec<u8>> = HashSet::new();
    let mut sigs: HashSet<String> = HashSet::new();
    let mut items = vec![];
    let mut undecoded = 0;
    for code in sweep_codes(pfx, map, op) {
        let Some((ins, len)) = decode(&code) else {
            undecoded += 1;
            continue;
        };
        let code = code[..len].to_vec();
        if !seen.insert(code.clone()) {
            continue;
        }
        let abs = abstract_instruction(&ins);
        let new_sig = sigs.insert(abs.signature());
        let relevant = RELEVANT.contains(&abs.opc.as_str());
        let real = if all || relevant || new_sig || !abs.shape_ok() { Some((fnv64(&code) % 3) as u32) } else { None };
        items.push(Item { code, abs, real });
    }
    (items, undecoded)
}

fn tag_of(a: &Abs) -> Vec<String> {
    let mut t = vec![];
    if RELEVANT.contains(&a.opc.as_str()) {
        t.push(format!("opc:{}", a.opc));
    } else {
        t.push("opc:(other)".into());
    }
    let kinds: Vec<&str> = a.ops.iter().map(|o| o.split(':').next().unwrap_or("")).collect();
    t.push(format!("opshape:{}{}", if a.ms == "-" { "nomem " } else { "" }, if kinds.is_empty() { "-".to_string() } else { kinds.join(",") }));
    t
}

/// run a case; returns the model request
pub fn exec(f: &[&str], res: &mut ImplResult) -> Option<String> {
    match f.get(1).copied() {
        Some("opsweep") if f.len() == 6 => {
            res.tags.push("kind:opsweep".into());
            let parsed = (|| {
                let pfx = kvf(f[2], "pfx")?;
                let pfx = if pfx == "-" { vec![] } else { unhex(pfx)? };
                let map = kvf(f[3], "map")?;
                if !["1", "0f", "0f38", "0f3a"].contains(&map) {
                    return None;
                }
                let op: u8 = kvf(f[4], "op")?.parse().ok()?;
                let all = kvf(f[5], "all")? == "1";
                Some((pfx, map.to_string(), op, all))
            })();
            let Some((pfx, map, op, all)) = parsed else {
                res.out = "bad-op".into();
                return None;
            };
            let (items, undecoded) = sweep_items(&pfx, &map, op, all);
            let mut reqs: Vec<String> = vec![];
            let mut outs: Vec<String> = vec![];
            let mut tagset: BTreeMap<String, ()> = BTreeMap::new();
            let mut real_runs = 0;
            for it in &items {
                for t in tag_of(&it.abs) {
                    tagset.insert(t, ());
                }
                if !it.abs.shape_ok() {
                    res.oracle.push(("op-shape-outside".into(), format!("process opone code:{} prof:0 : decoded as {} — outside the shape under which the analysis is proved panic-free", hex(&it.code), it.abs.fields())));
                }
                match it.real {
                    None => {
                        reqs.push(format!("sh {}", it.abs.fields()));
                        outs.push("shape:1".into());
                    }
                    Some(p) => {
                        real_runs += 1;
                        let regs = profile(p, fnv64(&it.code));
                        reqs.push(ins_request(&it.abs, &it.code, it.code.len(), &regs));
                        match run_real(&it.code, &regs, real_runs % 8 == 1) {
                            Ok(line) => {
                                if line == "undecoded" {
                                    res.oracle.push(("op-decode-disagrees".into(), format!("process opone code:{} prof:{p} : the decoder accepts the bytes but the state has no instruction", hex(&it.code))));
                                }
                                outs.push(line);
                            }
                            Err(msg) => {
                                res.oracle.push(("process-panics".into(), format!("process opone code:{} prof:{p} : {msg}", hex(&it.code))));
                                outs.push("PANIC shape:1".into());
                            }
                        }
                    }
                }
            }
            DECODED.fetch_add(items.len() as u64, std::sync::atomic::Ordering::Relaxed);
            REAL_RUNS.fetch_add(real_runs as u64, std::sync::atomic::Ordering::Relaxed);
            res.tags.extend(tagset.into_keys());
            res.tags.push(format!("sweep-real-runs:{}", match real_runs { 0 => "0", 1..=7 => "1-7", 8..=63 => "8-63", _ => "64+" }));
            res.tags.push(format!("sweep-decoded:{}", match items.len() { 0 => "0", 1 => "1", 2..=31 => "2-31", _ => "32+" }));
            res.nontrivial = real_runs > 0;
            if items.is_empty() {
                res.out = format!("none undecoded:{undecoded}");
                return None;
            }
            res.out = outs.join(" // ");
            Some(format!("process opana batch {}", reqs.join(" // ")))
        }
        Some("opone") if f.len() == 4 => {
            res.tags.push("kind:opone".into());
            let (Some(code), Some(p)) = (kvf(f[2], "code").and_then(unhex), kvf(f[3], "prof").and_then(|s| s.parse::<u32>().ok())) else {
                res.out = "bad-op".into();
                return None;
            };
            if code.is_empty() || code.len() > 32 {
                res.out = "bad-op".into();
                return None;
            }
            let regs = profile(p, fnv64(&code));
            // the dump's code region is the case's bytes followed by 16 NOPs: that is what gets decoded
            let mut padded = code.clone();
            padded.extend(std::iter::repeat(0x90).take(16));
            let dec = decode(&padded);
            let real = run_real(&code, &regs, true);
            match (&dec, &real) {
                (_, Err(msg)) => {
                    res.oracle.push(("process-panics".into(), format!("instruction {}: {msg}", hex(&code))));
                    res.out = "PANIC shape:1".into();
                }
                (None, Ok(line)) => {
                    if line != "undecoded" {
                        res.oracle.push(("op-decode-disagrees".into(), format!("the decoder rejects {} but the state shows an analysed instruction: {line}", hex(&code))));
                    }
                    res.tags.push("opone:undecoded".into());
                    res.out = line.clone();
                    return None;
                }
                (Some(_), Ok(line)) => {
                    if line == "undecoded" {
                        res.oracle.push(("op-decode-disagrees".into(), format!("the decoder accepts {} but the state has no instruction", hex(&code))));
                    }
                    res.out = line.clone();
                }
            }
            let (ins, len) = dec?;
            DECODED.fetch_add(1, std::sync::atomic::Ordering::Relaxed);
            REAL_RUNS.fetch_add(1, std::sync::atomic::Ordering::Relaxed);
            let abs = abstract_instruction(&ins);
            res.tags.extend(tag_of(&abs));
            res.tags.push(format!("prof:{p}"));
            if res.out.contains(" acc:") && !res.out.contains(" acc:- ") && !res.out.contains(" acc:? ") {
                res.tags.push("opone:accesses".into());
            }
            if res.out.contains(" ip:upd/") {
                res.tags.push("opone:ip-update".into());
            }
            if !res.out.ends_with("flips:-") {
                res.tags.push("opone:flips".into());
            }
            if !abs.shape_ok() {
                res.oracle.push(("op-shape-outside".into(), format!("{} decodes as {} — outside the shape under which the analysis is proved panic-free", hex(&padded[..len]), abs.fields())));
            }
            res.nontrivial = true;
            // the model sees the whole region the dump holds (the bytes of the case + NOPs)
            Some(format!("process opana {}", ins_request(&abs, &code, len, &regs)))
        }
        _ => {
            res.out = "bad-op".into();
            None
        }
    }
}

/// prefix strings of the sweep: legacy prefixes, REX forms, VEX (C5 / C4 per map), EVEX (with and without a mask register)
pub fn sweep_prefixes(quick: bool) -> Vec<(&'static str, &'static [&'static str])> {
    const LEGACY_MAPS: &[&str] = &["1", "0f", "0f38", "0f3a"];
    const ONE: &[&str] = &["1"];
    let mut v: Vec<(&'static str, &'static [&'static str])> = vec![
        ("-", LEGACY_MAPS),
        ("48", LEGACY_MAPS),
        ("66", LEGACY_MAPS),
        ("f3", LEGACY_MAPS),
        ("f2", LEGACY_MAPS),
        ("67", LEGACY_MAPS),
        ("43", LEGACY_MAPS),
        // VEX: C5 (map 0F), C4 with mmmmm = 1, 2, 3; pp = 0 / 1; EVEX: map 1 and 2, with mask k1 / zeroing
        ("c5f8", ONE),
        ("c4e279", ONE),
        ("c4e379", ONE),
        ("62f17c08", ONE),
        ("62f27d49", ONE),
    ];
    if !quick {
        v.extend([
            ("f0", LEGACY_MAPS),
            ("64", LEGACY_MAPS),
            ("65", LEGACY_MAPS),
            ("4c", LEGACY_MAPS),
            ("6648", LEGACY_MAPS),
            ("6667", LEGACY_MAPS),
            ("f348", LEGACY_MAPS),
            ("f267", LEGACY_MAPS),
            ("2e41", LEGACY_MAPS),
            ("c5fd", ONE),
            ("c5fb", ONE),
            ("c5fa", ONE),
            ("c4e1f9", ONE),
            ("c4c17c", ONE),
            ("c4e2fd", ONE),
            ("c4e3fd", ONE),
            ("62f1fd48", ONE),
            ("62f17c8b", ONE),
            ("62f3fd28", ONE),
            ("62d17c4f", ONE),
        ] as [(&'static str, &'static [&'static str]); 20]);
    }
    v
}

pub fn generate(tier: Tier, rng: &mut Rng, emit: &mut dyn FnMut(String)) {
    let quick = tier == Tier::Quick;
    for (pfx, maps) in sweep_prefixes(quick) {
        for map in maps {
            for op in 0..=255u32 {
                // the thorough tier runs every decoded instruction of the unprefixed and REX.W sweeps through the real code
                let all = !quick && (pfx == "-" || pfx == "48");
                emit(format!("process opsweep pfx:{pfx} map:{map} op:{op} all:{}", all as u8));
            }
        }
    }
    // random tails behind every prefix / opcode-map head, and guided instruction bytes
    let heads: &[&[u8]] = &[&[], &[0x48], &[0x66], &[0x67], &[0xf3], &[0xf2], &[0x41], &[0x4f], &[0x0f], &[0x48, 0x0f], &[0x66, 0x0f], &[0x0f, 0x38], &[0x0f, 0x3a], &[0xc5], &[0xc4], &[0x62], &[0xff], &[0x48, 0xff], &[0x8f], &[0xf0]];
    for _ in 0..(if quick { 12000 } else { 150000 }) {
        let mut code: Vec<u8> = rng.pick(heads).to_vec();
        let n = rng.range(1, 10);
        for _ in 0..n {
            code.push(rng.next() as u8);
        }
        emit(format!("process opone code:{} prof:{}", hex(&code), rng.below(4)));
    }
    for _ in 0..(if quick { 3000 } else { 30000 }) {
        emit(format!("process opone code:{} prof:{}", hex(&super::pipeline_gen::gen_code(rng)), rng.below(4)));
    }
}
