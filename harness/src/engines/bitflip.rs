//! Engine `bitflip` — placeholder (not written yet).
use crate::common::*;

pub struct Bitflip;

impl Engine for Bitflip {
    fn name(&self) -> &'static str {
        "bitflip"
    }
    fn rule(&self) -> String {
        "not implemented".into()
    }
    fn generate(&self, _tier: Tier, _rng: &mut Rng, _emit: &mut dyn FnMut(String)) {}
    fn exec(&self, _case: &str) -> ImplResult {
        ImplResult::default()
    }
}
