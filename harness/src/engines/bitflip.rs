//! Engine `bitflip` (C19): synthesized minidumps → `minidump_processor::process_minidump` →
//! `exception_info.possible_bit_flips`, against the Lean model `MdModel.BitFlip`, plus the
//! property's own oracle on the implementation's output.
//!
//! case lines:
//!   `bitflip run cpu:<c> os:<win|linux|mac> exc:<code>:<flags>:<nparams>:<info0>:<info1>:<exaddr>
//!            regs:<none|name=val,..> ins:<table key|none> map:<none|info/lo:size:prot,..|maps/lo:hi:perm,..|both/..>`
//!   `bitflip conf <nc> <null> <low> <nearby> <poison>`      (BitFlipDetails::confidence, exhaustive)
//!
//! `try_bit_flips` / `check_for_bitflips` are private: they are reached only through
//! `process_minidump`. What `op_analysis` (yaxpeax) and the crash-reason tree contribute is
//! *observed* on the result (`exception_info.{address, adjusted_address, reason, instruction_str}`)
//! and handed to the model; the instruction's registers come from the fixed encoding table below,
//! which is cross-checked against the observed `memory_access_list`.

use crate::common::*;
use minidump::system_info::PointerWidth;
use minidump::*;
use minidump_common::format as md;
use minidump_processor::{AdjustedAddress, BitFlipDetails, ProcessState};
use minidump_synth as synth;
use minidump_synth::DumpSection;
use minidump_unwind::{simple_symbol_supplier, Symbolizer};
use scroll::ctx::SizeWith;
use scroll::{Pread, Pwrite};
use std::cell::RefCell;
use test_assembler::{Endian, Section};

pub struct Bitflip;

/// every exact confidence value is a multiple of 1/GRID (see MdModel.BitFlip.confGrid)
const GRID: f64 = 320000.0;

// ------------------------------------------------------------------------------------------ table

struct Ins {
    key: &'static str,
    bytes: &'static [u8],
    /// registers of explicit memory operands (base, index), as `RegSpec::name()` gives them
    regs: &'static [&'static str],
    /// base + index*scale + disp of the (single) explicit memory operand, if it has one whose
    /// registers are all 64-bit GPRs
    base: Option<&'static str>,
    index: Option<(&'static str, u64)>,
    disp: i64,
    has_mem: bool,
}

const INS: &[Ins] = &[
    Ins { key: "mov_rax_[rbx]", bytes: &[0x48, 0x8b, 0x03], regs: &["rbx"], base: Some("rbx"), index: None, disp: 0, has_mem: true },
    Ins { key: "mov_rax_[rbx+rcx*8+16]", bytes: &[0x48, 0x8b, 0x44, 0xcb, 0x10], regs: &["rbx", "rcx"], base: Some("rbx"), index: Some(("rcx", 8)), disp: 16, has_mem: true },
    Ins { key: "mov_[rdi+32]_rsi", bytes: &[0x48, 0x89, 0x77, 0x20], regs: &["rdi"], base: Some("rdi"), index: None, disp: 32, has_mem: true },
    Ins { key: "mov_al_[rsp]", bytes: &[0x8a, 0x04, 0x24], regs: &["rsp"], base: Some("rsp"), index: None, disp: 0, has_mem: true },
    Ins { key: "mov_rax_[r12+r13*2]", bytes: &[0x4b, 0x8b, 0x04, 0x6c], regs: &["r12", "r13"], base: Some("r12"), index: Some(("r13", 2)), disp: 0, has_mem: true },
    Ins { key: "add_[r8+r9*4-8]_rdx", bytes: &[0x4b, 0x01, 0x54, 0x88, 0xf8], regs: &["r8", "r9"], base: Some("r8"), index: Some(("r9", 4)), disp: -8, has_mem: true },
    // base sorts after index / "r10" < "r9" as strings / the same register twice: BTreeSet order and dedup
    Ins { key: "mov_rax_[rcx+rbx*1]", bytes: &[0x48, 0x8b, 0x04, 0x19], regs: &["rcx", "rbx"], base: Some("rcx"), index: Some(("rbx", 1)), disp: 0, has_mem: true },
    Ins { key: "mov_rax_[r9+r10*1]", bytes: &[0x4b, 0x8b, 0x04, 0x11], regs: &["r9", "r10"], base: Some("r9"), index: Some(("r10", 1)), disp: 0, has_mem: true },
    Ins { key: "mov_rax_[rbx+rbx*1]", bytes: &[0x48, 0x8b, 0x04, 0x1b], regs: &["rbx", "rbx"], base: Some("rbx"), index: Some(("rbx", 1)), disp: 0, has_mem: true },
    Ins { key: "mov_eax_[eax]", bytes: &[0x67, 0x8b, 0x00], regs: &["eax"], base: None, index: None, disp: 0, has_mem: false },
    Ins { key: "mov_rax_[rip+256]", bytes: &[0x48, 0x8b, 0x05, 0x00, 0x01, 0x00, 0x00], regs: &["rip"], base: Some("rip"), index: None, disp: 256, has_mem: true },
    Ins { key: "jmp_[rax]", bytes: &[0xff, 0x20], regs: &["rax"], base: Some("rax"), index: None, disp: 0, has_mem: true },
    Ins { key: "mov_rax_[rsi*4+64]", bytes: &[0x48, 0x8b, 0x04, 0xb5, 0x40, 0x00, 0x00, 0x00], regs: &["rsi"], base: None, index: Some(("rsi", 4)), disp: 64, has_mem: true },
    Ins { key: "lea_rax_[rbx+8]", bytes: &[0x48, 0x8d, 0x43, 0x08], regs: &["rbx"], base: None, index: None, disp: 0, has_mem: false },
    Ins { key: "nop", bytes: &[0x90], regs: &[], base: None, index: None, disp: 0, has_mem: false },
    Ins { key: "push_rbx", bytes: &[0x53], regs: &[], base: None, index: None, disp: 0, has_mem: false },
    Ins { key: "mov_rax_[0x1000]", bytes: &[0x48, 0x8b, 0x04, 0x25, 0x00, 0x10, 0x00, 0x00], regs: &[], base: None, index: None, disp: 0, has_mem: false },
    Ins { key: "div_rcx", bytes: &[0x48, 0xf7, 0xf1], regs: &[], base: None, index: None, disp: 0, has_mem: false },
    // not decodable: op_analysis fails, no instruction registers
    Ins { key: "truncated", bytes: &[0x48], regs: &[], base: None, index: None, disp: 0, has_mem: false },
    Ins { key: "invalid", bytes: &[0x06], regs: &[], base: None, index: None, disp: 0, has_mem: false },
];

const AMD64_REGS: &[&str] = &[
    "rax", "rdx", "rcx", "rbx", "rsi", "rdi", "rbp", "rsp", "r8", "r9", "r10", "r11", "r12", "r13",
    "r14", "r15", "rip",
];
const PPC64_REGS: &[&str] = &[
    "srr0", "srr1", "r0", "r1", "r2", "r3", "r4", "r5", "r6", "r7", "r8", "r9", "r10", "r11", "r12",
    "r13", "r14", "r15", "r16", "r17", "r18", "r19", "r20", "r21", "r22", "r23", "r24", "r25", "r26",
    "r27", "r28", "r29", "r30", "r31", "cr", "xer", "lr", "ctr", "vrsave",
];

/// hardware numbering of the amd64 general purpose registers
const AMD64_HW: [&str; 16] = [
    "rax", "rcx", "rdx", "rbx", "rsp", "rbp", "rsi", "rdi", "r8", "r9", "r10", "r11", "r12", "r13", "r14", "r15",
];

struct InsInfo {
    key: String,
    bytes: Vec<u8>,
    regs: Vec<&'static str>,
    base: Option<&'static str>,
    index: Option<(&'static str, u64)>,
    disp: i64,
    has_mem: bool,
}

/// A table key, or a synthesized `mov rax, [base + index*scale + disp]` in SIB form:
/// `sib.<base|none>.<index|none>.<1|2|4|8>.<disp>` (any of the 16 GPRs as base, any but rsp as index).
fn find_ins(key: &str) -> Option<InsInfo> {
    if let Some(i) = INS.iter().find(|i| i.key == key) {
        return Some(InsInfo {
            key: key.to_string(),
            bytes: i.bytes.to_vec(),
            regs: i.regs.to_vec(),
            base: i.base,
            index: i.index,
            disp: i.disp,
            has_mem: i.has_mem,
        });
    }
    let p: Vec<&str> = key.split('.').collect();
    if p.len() != 5 || p[0] != "sib" {
        return None;
    }
    let hw = |n: &str| AMD64_HW.iter().position(|r| *r == n);
    let base = if p[1] == "none" { None } else { Some(hw(p[1])?) };
    let index = if p[2] == "none" { None } else { Some(hw(p[2])?) };
    if index == Some(4) {
        return None; // rsp cannot be an index
    }
    let scale: u64 = p[3].parse().ok()?;
    let sbits = match scale {
        1 => 0u8,
        2 => 1,
        4 => 2,
        8 => 3,
        _ => return None,
    };
    let disp: i32 = p[4].parse().ok()?;
    if base.is_none() && index.is_none() {
        return None;
    }
    let x = index.map(|i| (i >> 3) as u8).unwrap_or(0);
    let b = base.map(|i| (i >> 3) as u8).unwrap_or(0);
    let rex = 0x48 | (x << 1) | b;
    let idx3 = index.map(|i| (i & 7) as u8).unwrap_or(4);
    let (md, base3, dbytes): (u8, u8, Vec<u8>) = match base {
        None => (0, 5, disp.to_le_bytes().to_vec()),
        Some(bi) => {
            let b3 = (bi & 7) as u8;
            if disp == 0 && b3 != 5 {
                (0, b3, vec![])
            } else if (-128..=127).contains(&disp) {
                (1, b3, vec![disp as i8 as u8])
            } else {
                (2, b3, disp.to_le_bytes().to_vec())
            }
        }
    };
    let mut bytes = vec![rex, 0x8b, (md << 6) | 4, (sbits << 6) | (idx3 << 3) | base3];
    bytes.extend(dbytes);
    let mut regs = vec![];
    if let Some(bi) = base {
        regs.push(AMD64_HW[bi]);
    }
    if let Some(ii) = index {
        regs.push(AMD64_HW[ii]);
    }
    Some(InsInfo {
        key: key.to_string(),
        bytes,
        regs,
        base: base.map(|i| AMD64_HW[i]),
        index: index.map(|i| (AMD64_HW[i], scale)),
        disp: disp as i64,
        has_mem: true,
    })
}

// ------------------------------------------------------------------------------------------- case

#[derive(Clone, Debug)]
struct Exc {
    code: u32,
    flags: u32,
    nparams: u32,
    info0: u64,
    info1: u64,
    addr: u64,
}

#[derive(Clone, Debug, PartialEq)]
enum MapKind {
    None,
    Info,
    Maps,
    /// both streams present (the same region list twice): the code prefers the info list
    Both,
}

#[derive(Clone, Debug)]
struct Region {
    lo: u64,
    b: u64,
    /// protection bits (info) — or for maps bit0=r bit1=w bit2=x
    p: u32,
}

#[derive(Clone, Debug)]
struct Case {
    cpu: String,
    os: String,
    exc: Exc,
    regs: Option<Vec<(String, u64)>>,
    ins: String,
    kind: MapKind,
    regions: Vec<Region>,
}

fn perm_str(p: u32) -> String {
    let mut s = String::new();
    if p & 1 != 0 {
        s.push('r');
    }
    if p & 2 != 0 {
        s.push('w');
    }
    if p & 4 != 0 {
        s.push('x');
    }
    if s.is_empty() {
        s.push('-');
    }
    s
}

fn parse_perm(s: &str) -> Option<u32> {
    if s == "-" {
        return Some(0);
    }
    let mut p = 0;
    for c in s.chars() {
        p |= match c {
            'r' => 1,
            'w' => 2,
            'x' => 4,
            _ => return None,
        };
    }
    Some(p)
}

fn render_map(kind: &MapKind, regions: &[Region]) -> String {
    let body = |as_maps: bool| {
        regions
            .iter()
            .map(|r| {
                if as_maps {
                    format!("{}:{}:{}", r.lo, r.b, perm_str(r.p))
                } else {
                    format!("{}:{}:{}", r.lo, r.b, r.p)
                }
            })
            .collect::<Vec<_>>()
            .join(",")
    };
    match kind {
        MapKind::None => "none".into(),
        MapKind::Info => format!("info/{}", body(false)),
        MapKind::Both => format!("both/{}", body(false)),
        MapKind::Maps => format!("maps/{}", body(true)),
    }
}

fn render(c: &Case) -> String {
    let regs = match &c.regs {
        None => "none".to_string(),
        Some(v) if v.is_empty() => "-".to_string(),
        Some(v) => v.iter().map(|(n, x)| format!("{n}={x}")).collect::<Vec<_>>().join(","),
    };
    format!(
        "bitflip run cpu:{} os:{} exc:{}:{}:{}:{}:{}:{} regs:{} ins:{} map:{}",
        c.cpu, c.os, c.exc.code, c.exc.flags, c.exc.nparams, c.exc.info0, c.exc.info1, c.exc.addr, regs, c.ins,
        render_map(&c.kind, &c.regions)
    )
}

fn parse_case(line: &str) -> Option<Case> {
    let f: Vec<&str> = line.split(' ').filter(|s| !s.is_empty()).collect();
    if f.len() != 8 || f[0] != "bitflip" || f[1] != "run" {
        return None;
    }
    let cpu = f[2].strip_prefix("cpu:")?.to_string();
    let os = f[3].strip_prefix("os:")?.to_string();
    let e: Vec<&str> = f[4].strip_prefix("exc:")?.split(':').collect();
    if e.len() != 6 {
        return None;
    }
    let exc = Exc {
        code: e[0].parse().ok()?,
        flags: e[1].parse().ok()?,
        nparams: e[2].parse().ok()?,
        info0: e[3].parse().ok()?,
        info1: e[4].parse().ok()?,
        addr: e[5].parse().ok()?,
    };
    let r = f[5].strip_prefix("regs:")?;
    let regs = if r == "none" {
        None
    } else if r == "-" {
        Some(vec![])
    } else {
        let mut v = vec![];
        for p in r.split(',') {
            let (n, x) = p.split_once('=')?;
            v.push((n.to_string(), x.parse().ok()?));
        }
        Some(v)
    };
    let ins = f[6].strip_prefix("ins:")?.to_string();
    if ins != "none" && find_ins(&ins).is_none() {
        return None;
    }
    let m = f[7].strip_prefix("map:")?;
    let (kind, body) = if m == "none" {
        (MapKind::None, "")
    } else {
        let (k, b) = m.split_once('/')?;
        (
            match k {
                "info" => MapKind::Info,
                "maps" => MapKind::Maps,
                "both" => MapKind::Both,
                _ => return None,
            },
            b,
        )
    };
    let mut regions = vec![];
    for p in body.split(',').filter(|s| !s.is_empty()) {
        let q: Vec<&str> = p.split(':').collect();
        if q.len() != 3 {
            return None;
        }
        let pr = if kind == MapKind::Maps { parse_perm(q[2])? } else { q[2].parse().ok()? };
        regions.push(Region { lo: q[0].parse().ok()?, b: q[1].parse().ok()?, p: pr });
    }
    match cpu.as_str() {
        "amd64" | "x86" | "arm64" | "ppc64" | "mips64" | "arm" | "ppc" | "unknown" => {}
        _ => return None,
    }
    match os.as_str() {
        "win" | "linux" | "mac" => {}
        _ => return None,
    }
    // register names must exist for the cpu
    if let Some(v) = &regs {
        let names: &[&str] = match cpu.as_str() {
            "amd64" => AMD64_REGS,
            "ppc64" => PPC64_REGS,
            "x86" => &["eip", "esp"],
            "arm64" => &["pc", "sp"],
            _ => &[],
        };
        if v.iter().any(|(n, _)| !names.contains(&n.as_str())) {
            return None;
        }
        if cpu == "x86" && v.iter().any(|(_, x)| *x > u32::MAX as u64) {
            return None;
        }
    }
    Some(Case { cpu, os, exc, regs, ins, kind, regions })
}

// ------------------------------------------------------------------------------------ dump builder

fn arch_of(cpu: &str) -> u16 {
    use md::ProcessorArchitecture::*;
    (match cpu {
        "amd64" => PROCESSOR_ARCHITECTURE_AMD64,
        "x86" => PROCESSOR_ARCHITECTURE_INTEL,
        "arm64" => PROCESSOR_ARCHITECTURE_ARM64,
        "ppc64" => PROCESSOR_ARCHITECTURE_PPC64,
        "mips64" => PROCESSOR_ARCHITECTURE_MIPS64,
        "arm" => PROCESSOR_ARCHITECTURE_ARM,
        "ppc" => PROCESSOR_ARCHITECTURE_PPC,
        _ => PROCESSOR_ARCHITECTURE_UNKNOWN,
    }) as u16
}

fn platform_of(os: &str) -> u32 {
    (match os {
        "win" => md::PlatformId::VER_PLATFORM_WIN32_NT,
        "linux" => md::PlatformId::Linux,
        _ => md::PlatformId::MacOs,
    }) as u32
}

fn reg_of(regs: &[(String, u64)], name: &str) -> u64 {
    regs.iter().rev().find(|(n, _)| n == name).map(|(_, v)| *v).unwrap_or(0)
}

/// the exception/thread context section for the cpu, holding `regs` (others zero)
fn context_section(cpu: &str, regs: &[(String, u64)]) -> Section {
    let le = scroll::LE;
    match cpu {
        "amd64" => {
            let mut c = md::CONTEXT_AMD64::default();
            c.context_flags = 0x10001f;
            let g = |n: &str| reg_of(regs, n);
            c.rax = g("rax");
            c.rdx = g("rdx");
            c.rcx = g("rcx");
            c.rbx = g("rbx");
            c.rsi = g("rsi");
            c.rdi = g("rdi");
            c.rbp = g("rbp");
            c.rsp = g("rsp");
            c.r8 = g("r8");
            c.r9 = g("r9");
            c.r10 = g("r10");
            c.r11 = g("r11");
            c.r12 = g("r12");
            c.r13 = g("r13");
            c.r14 = g("r14");
            c.r15 = g("r15");
            c.rip = g("rip");
            let mut bytes = vec![0u8; md::CONTEXT_AMD64::size_with(&le)];
            bytes.pwrite_with(c, 0, le).expect("write amd64 context");
            Section::with_endian(Endian::Little).append_bytes(&bytes)
        }
        "ppc64" => {
            let zero = vec![0u8; md::CONTEXT_PPC64::size_with(&le)];
            let mut c: md::CONTEXT_PPC64 = zero.pread_with(0, le).expect("read zero ppc64 context");
            c.context_flags = 0x1000000 | 0x3;
            let g = |n: &str| reg_of(regs, n);
            c.srr0 = g("srr0");
            c.srr1 = g("srr1");
            for i in 0..32 {
                c.gpr[i] = g(&format!("r{i}"));
            }
            c.cr = g("cr");
            c.xer = g("xer");
            c.lr = g("lr");
            c.ctr = g("ctr");
            c.vrsave = g("vrsave");
            let mut bytes = zero.clone();
            bytes.pwrite_with(c, 0, le).expect("write ppc64 context");
            Section::with_endian(Endian::Little).append_bytes(&bytes)
        }
        "x86" => synth::x86_context(Endian::Little, reg_of(regs, "eip") as u32, reg_of(regs, "esp") as u32),
        "arm64" => synth::arm64_context(Endian::Little, reg_of(regs, "pc"), reg_of(regs, "sp")),
        // no readable context for these architectures in this harness
        _ => synth::amd64_context(Endian::Little, 0, 0),
    }
}

fn ip_name(cpu: &str) -> &'static str {
    match cpu {
        "amd64" => "rip",
        "ppc64" => "srr0",
        "x86" => "eip",
        _ => "pc",
    }
}

fn build_dump(c: &Case) -> Vec<u8> {
    let regs: Vec<(String, u64)> = c.regs.clone().unwrap_or_default();
    let context = context_section(&c.cpu, &regs);
    let context_label = context.file_offset();
    let context_size = context.file_size();
    let stack = synth::Memory::with_section(Section::with_endian(Endian::Little), 0);
    let thread = synth::Thread::new(Endian::Little, 1, &stack, &context);
    // the context goes first so that its file offset is known before the exception record cites it
    let mut dump = synth::SynthMinidump::with_endian(Endian::Little).add(context);
    let system_info = synth::SystemInfo::new(Endian::Little)
        .set_processor_architecture(arch_of(&c.cpu))
        .set_platform_id(platform_of(&c.os));
    let mut ex = synth::Exception::new(Endian::Little);
    ex.thread_id = 1;
    ex.exception_record.exception_code = c.exc.code;
    ex.exception_record.exception_flags = c.exc.flags;
    ex.exception_record.number_parameters = c.exc.nparams;
    ex.exception_record.exception_information[0] = c.exc.info0;
    ex.exception_record.exception_information[1] = c.exc.info1;
    ex.exception_record.exception_address = c.exc.addr;
    if c.regs.is_some() {
        ex.thread_context = (
            context_size.value().expect("context size") as u32,
            context_label.value().expect("context offset") as u32,
        );
    }
    dump = dump.add_thread(thread).add_exception(ex).add_system_info(system_info);
    if c.ins != "none" {
        let ins = find_ins(&c.ins).expect("table key");
        let ip = reg_of(&regs, ip_name(&c.cpu));
        let mem = synth::Memory::with_section(Section::with_endian(Endian::Little).append_bytes(&ins.bytes), ip);
        dump = dump.add_memory(mem);
    }
    dump = dump.add_memory(stack);
    if c.kind == MapKind::Info || c.kind == MapKind::Both {
        for r in &c.regions {
            dump = dump.add_memory_info(synth::MemoryInfo::new(Endian::Little, r.lo, r.lo, 0, r.b, 0x1000, r.p, 0));
        }
    }
    if c.kind == MapKind::Maps || c.kind == MapKind::Both {
        let mut text = String::new();
        for (i, r) in c.regions.iter().enumerate() {
            let p = if c.kind == MapKind::Maps { r.p } else { 7 };
            let perms = format!(
                "{}{}{}p",
                if p & 1 != 0 { 'r' } else { '-' },
                if p & 2 != 0 { 'w' } else { '-' },
                if p & 4 != 0 { 'x' } else { '-' }
            );
            text.push_str(&format!("{:x}-{:x} {} 00000000 00:00 0 /lib/x{}\n", r.lo, r.b, perms, i));
        }
        dump = dump.set_linux_maps(text.as_bytes());
    }
    dump.finish().expect("synth dump")
}

thread_local! {
    static RT: tokio::runtime::Runtime = tokio::runtime::Builder::new_current_thread().build().expect("tokio runtime");
    /// last (case line -> model request) computed by `exec` on this thread
    static LAST: RefCell<Option<(String, Option<String>)>> = const { RefCell::new(None) };
}

fn process(bytes: Vec<u8>) -> ProcessState {
    let dump = Minidump::read(bytes).expect("synth dump reads");
    RT.with(|rt| {
        rt.block_on(async {
            minidump_processor::process_minidump(&dump, &Symbolizer::new(simple_symbol_supplier(vec![])))
                .await
                .expect("process_minidump")
        })
    })
}

// ---------------------------------------------------------------------------------------- oracle

/// is_readable / is_writable / is_executable of a region as the *documentation* of the two
/// formats defines them (independent of the model): (r, w, x)
fn perms_of(kind: &MapKind, r: &Region) -> (bool, bool, bool) {
    if *kind == MapKind::Maps {
        (r.p & 1 != 0, r.p & 2 != 0, r.p & 4 != 0)
    } else {
        let p = r.p;
        (
            p & (0x02 | 0x04 | 0x20 | 0x40) != 0,
            p & (0x04 | 0x08 | 0x40 | 0x80) != 0,
            p & (0x10 | 0x20 | 0x40 | 0x80) != 0,
        )
    }
}

fn own_range(kind: &MapKind, r: &Region) -> Option<(u64, u64)> {
    if *kind == MapKind::Maps {
        if r.lo > r.b {
            None
        } else {
            Some((r.lo, r.b))
        }
    } else if r.b == 0 {
        None
    } else {
        r.lo.checked_add(r.b).map(|e| (r.lo, e - 1))
    }
}

/// the crashing kind of access: 0 = undetermined, 1 = read, 2 = write, 3 = execute
fn op_of(reason: &CrashReason) -> u8 {
    use minidump_common::errors::ExceptionCodeWindowsAccessType as A;
    match reason {
        CrashReason::WindowsAccessViolation(A::READ) => 1,
        CrashReason::WindowsAccessViolation(A::WRITE) => 2,
        CrashReason::WindowsAccessViolation(A::EXEC) => 3,
        _ => 0,
    }
}

fn permits(op: u8, p: (bool, bool, bool)) -> bool {
    match op {
        0 => true,
        1 => p.0,
        2 => p.1,
        _ => p.2,
    }
}

fn regions_at<'a>(c: &'a Case, a: u64) -> Vec<&'a Region> {
    c.regions
        .iter()
        .filter(|r| matches!(own_range(&c.kind, r), Some((lo, hi)) if lo <= a && a <= hi))
        .collect()
}

fn details_str(d: &BitFlipDetails) -> String {
    format!(
        "{}{}{}.{}.{}",
        d.was_non_canonical as u8, d.is_null as u8, d.was_low as u8, d.nearby_registers, d.poison_registers as u8
    )
}

/// quantise a confidence to the grid; Err if it is not within 1e-6 of a grid point or not finite
fn grid(conf: f32) -> Result<i64, String> {
    let c = conf as f64;
    if !c.is_finite() {
        return Err(format!("confidence {conf} is not finite"));
    }
    let k = (c * GRID).round();
    if (c - k / GRID).abs() > 1e-6 {
        return Err(format!("confidence {conf} is not within 1e-6 of k/320000 (k={k})"));
    }
    Ok(k as i64)
}

fn exec_conf(f: &[&str]) -> ImplResult {
    let mut res = ImplResult::default();
    let b = |s: &str| match s {
        "0" => Some(false),
        "1" => Some(true),
        _ => None,
    };
    let (Some(nc), Some(nul), Some(low), Ok(near), Some(poi)) = (b(f[0]), b(f[1]), b(f[2]), f[3].parse::<u32>(), b(f[4])) else {
        res.out = "bad-op".into();
        return res;
    };
    let d = BitFlipDetails { was_non_canonical: nc, is_null: nul, was_low: low, nearby_registers: near, poison_registers: poi };
    res.tags.push("kind:conf".into());
    res.nontrivial = true;
    match catch(|| d.confidence()) {
        Err(m) => {
            res.out = "PANIC".into();
            res.oracle.push(("confidence-panics".into(), m));
        }
        Ok(c) => {
            if !(c >= 0.0 && c <= 1.0) {
                res.oracle.push(("confidence-out-of-unit-interval".into(), format!("{d:?} -> {c}")));
            }
            match grid(c) {
                Ok(k) => res.out = k.to_string(),
                Err(m) => {
                    res.out = format!("{c}");
                    res.oracle.push(("confidence-off-grid".into(), m));
                }
            }
        }
    }
    res
}

struct Observed {
    out: String,
    request: Option<String>,
}

fn run_case(c: &Case, res: &mut ImplResult) -> Observed {
    let state = process(build_dump(c));
    let Some(info) = state.exception_info.as_ref() else {
        res.oracle.push(("harness-sanity".into(), "no exception_info".into()));
        return Observed { out: "no-exception".into(), request: None };
    };
    let cpu = state.system_info.cpu;
    let is64 = cpu.pointer_width() == PointerWidth::Bits64;
    let gated_platform = !is64 || cpu == system_info::Cpu::Arm64;
    let op = op_of(&info.reason);
    let regs: Option<Vec<(String, u64)>> = c.regs.clone();
    let ins = find_ins(&c.ins);
    let ins = ins.as_ref();
    let analysed = info.instruction_str.is_some();

    // ---- sanity of the harness' own assumptions (a failure here is a harness bug, not a finding)
    let have_ctx = regs.is_some() && matches!(c.cpu.as_str(), "amd64" | "ppc64" | "x86" | "arm64");
    if let (Some(ins), true, true) = (ins, analysed, c.cpu == "amd64") {
        if ins.has_mem {
            let r = regs.as_deref().unwrap_or(&[]);
            let mut a = ins.base.map(|b| reg_of(r, b)).unwrap_or(0);
            if let Some((ix, sc)) = ins.index {
                a = a.wrapping_add(reg_of(r, ix).wrapping_mul(sc));
            }
            a = a.wrapping_add(ins.disp as u64);
            let seen = info
                .memory_access_list
                .as_ref()
                .map(|l| l.accesses.iter().any(|m| m.address_info.address == a))
                .unwrap_or(false)
                // (the enum's type is not nameable from outside the crate: use its Debug form)
                || format!("{:?}", info.instruction_pointer_update).contains(&format!("address: {a},"));
            if !seen && info.memory_access_list.is_some() {
                res.oracle.push((
                    "harness-sanity".into(),
                    format!("encoding table: {} expected access at {a:#x}, observed {:?}", ins.key, info.memory_access_list),
                ));
            }
        }
    }
    if analysed && c.cpu != "amd64" {
        res.oracle.push(("harness-sanity".into(), "instruction analysed on a non-amd64 dump".into()));
    }

    // ---- determinism (C13 borrows this class): candidates found through SEVERAL registers must come in
    // the same order in every run (each run builds fresh hash containers with fresh seeds)
    {
        let srcs: std::collections::BTreeSet<String> = info.possible_bit_flips.iter().map(|f| format!("{:?}", f.source_register)).collect();
        if srcs.len() >= 2 {
            let first = format!("{:?}", info.possible_bit_flips);
            for run in 1..=4 {
                let again = process(build_dump(c));
                let now = again.exception_info.as_ref().map(|i| format!("{:?}", i.possible_bit_flips)).unwrap_or_default();
                if now != first {
                    res.oracle.push((
                        "bit-flips-differ-between-runs".into(),
                        format!("run 0: {first}  run {run}: {now}"),
                    ));
                    break;
                }
            }
            res.tags.push("det:several-source-registers".into());
        }
    }

    // ---- canonical output
    let mut out = String::from("flips:");
    for f in &info.possible_bit_flips {
        let conf = match f.confidence {
            None => {
                res.oracle.push(("confidence-missing".into(), format!("{f:?}")));
                "none".to_string()
            }
            Some(cf) => {
                if !(cf >= 0.0 && cf <= 1.0) {
                    res.oracle.push(("confidence-out-of-unit-interval".into(), format!("{f:?}")));
                }
                if (cf - f.details.confidence()).abs() > 1e-6 {
                    res.oracle.push(("confidence-not-from-details".into(), format!("{f:?}")));
                }
                match grid(cf) {
                    Ok(k) => k.to_string(),
                    Err(m) => {
                        res.oracle.push(("confidence-off-grid".into(), m));
                        format!("{cf}")
                    }
                }
            }
        };
        out.push_str(&format!(
            "{}/{}/{}/{};",
            f.address.0,
            f.source_register.unwrap_or("-"),
            details_str(&f.details),
            conf
        ));
    }

    // ---- the property's oracle on the implementation alone
    let nullptr = matches!(info.adjusted_address, Some(AdjustedAddress::NullPointerWithOffset(_)));
    let noncanon = match &info.adjusted_address {
        Some(AdjustedAddress::NonCanonical(a)) => Some(a.0),
        _ => None,
    };
    if gated_platform && !info.possible_bit_flips.is_empty() {
        res.oracle.push(("flips-on-gated-platform".into(), format!("cpu {cpu} reports {} flips", info.possible_bit_flips.len())));
    }
    if nullptr && !info.possible_bit_flips.is_empty() {
        res.oracle.push(("flips-despite-null-pointer-with-offset".into(), format!("{:?}", info.possible_bit_flips)));
    }
    let (rlo, rhi) = if noncanon.is_some() {
        (48u32, 64u32)
    } else if cpu == system_info::Cpu::X86_64 {
        (0, 48)
    } else {
        (0, 64)
    };
    let main_examined = noncanon.unwrap_or(info.address.0);
    for f in &info.possible_bit_flips {
        let examined = match f.source_register {
            None => Some(main_examined),
            Some(reg) => {
                if let Some(ins) = ins {
                    if !ins.regs.contains(&reg) {
                        res.oracle.push(("register-pass-foreign-register".into(), format!("{reg} is not a register of {}", ins.key)));
                    }
                }
                regs.as_ref().map(|r| reg_of(r, reg))
            }
        };
        let Some(v) = examined else {
            res.oracle.push(("register-pass-without-context".into(), format!("{f:?}")));
            continue;
        };
        let diff = f.address.0 ^ v;
        if diff.count_ones() != 1 || diff.trailing_zeros() < rlo || diff.trailing_zeros() >= rhi {
            res.oracle.push((
                "flip-not-single-bit-in-range".into(),
                format!("candidate {:#x} vs examined {v:#x} (src {:?}): xor = {diff:#x}, allowed bits {rlo}..{rhi}", f.address.0, f.source_register),
            ));
        }
        if f.address.0 != 0 {
            let here = regions_at(c, f.address.0);
            if !here.iter().any(|r| permits(op, perms_of(&c.kind, r))) {
                res.oracle.push((
                    "flip-not-mapped-or-not-permitted".into(),
                    format!("candidate {:#x} (op {op}): regions containing it: {here:?}", f.address.0),
                ));
            }
        }
        // none when the examined address is itself accessible (every region containing it permits)
        // With overlapping regions the table keeps only the first of each overlapping group
        // (C08: lookups are sound, and complete for entries that intersect no other entry), so
        // "accessible" is unambiguous only when the containing region is isolated.
        let at = regions_at(c, v);
        let isolated = at.len() == 1 && {
            let me = own_range(&c.kind, at[0]).unwrap();
            c.regions
                .iter()
                .filter(|r| !std::ptr::eq(*r, at[0]))
                .filter_map(|r| own_range(&c.kind, r))
                .all(|o| !(me.0 <= o.1 && me.1 >= o.0))
        };
        if !at.is_empty() && !isolated {
            res.tags.push("examined-in-overlapping-regions".into());
        }
        if isolated && at.iter().all(|r| permits(op, perms_of(&c.kind, r))) {
            res.oracle.push((
                "flips-although-examined-accessible".into(),
                format!("examined {v:#x} (src {:?}) lies in {at:?} which permits op {op}", f.source_register),
            ));
        }
        if f.details.is_null != (f.address.0 == 0) {
            res.oracle.push(("details-is-null-wrong".into(), format!("{f:?}")));
        }
    }

    // ---- tags / non-triviality
    res.tags.push(format!("cpu:{}", c.cpu));
    res.tags.push(format!("map:{:?}", c.kind));
    res.tags.push(format!("regions:{}", match c.regions.len() { 0 => "0", 1 => "1", 2..=4 => "2-4", 5..=16 => "5-16", _ => "17-64" }));
    res.tags.push(format!("op:{op}"));
    res.tags.push(format!("adjusted:{}", if nullptr { "nullptr" } else if noncanon.is_some() { "noncanonical" } else { "none" }));
    res.tags.push(format!("flips:{}", match info.possible_bit_flips.len() { 0 => "0", 1 => "1", 2..=4 => "2-4", _ => "5+" }));
    for f in &info.possible_bit_flips {
        let v = match f.source_register {
            None => Some(main_examined),
            Some(reg) => regs.as_ref().map(|r| reg_of(r, reg)),
        };
        if let Some(v) = v {
            let d = f.address.0 ^ v;
            if d.count_ones() == 1 {
                res.tags.push(format!("flipped-bit:{}", match d.trailing_zeros() { 0..=11 => "0-11", 12..=46 => "12-46", 47 => "47", 48 => "48", 49..=62 => "49-62", _ => "63" }));
            }
        }
    }
    if info.possible_bit_flips.iter().any(|f| f.source_register.is_some()) {
        res.tags.push("register-pass-flip".into());
    }
    if info.possible_bit_flips.iter().any(|f| f.address.0 == 0) {
        res.tags.push("null-candidate".into());
    }
    if info.possible_bit_flips.iter().any(|f| f.details.nearby_registers > 0) {
        res.tags.push("nearby>0".into());
    }
    if info.possible_bit_flips.iter().any(|f| f.details.poison_registers) {
        res.tags.push("poison".into());
    }
    if c.regions.iter().any(|r| matches!(own_range(&c.kind, r), Some((_, hi)) if hi == u64::MAX)) {
        res.tags.push("region-ends-at-top".into());
    }
    if analysed {
        res.tags.push("instruction-analysed".into());
    }
    res.nontrivial = !info.possible_bit_flips.is_empty()
        || (!gated_platform && !c.regions.is_empty() && regions_at(c, main_examined).is_empty());

    // ---- the model request: case inputs + what op_analysis / the reason tree produced
    let cpu_s = match cpu {
        system_info::Cpu::X86 => "x86",
        system_info::Cpu::X86_64 => "amd64",
        system_info::Cpu::Ppc => "ppc",
        system_info::Cpu::Ppc64 => "ppc64",
        system_info::Cpu::Sparc => "sparc",
        system_info::Cpu::Arm => "arm",
        system_info::Cpu::Arm64 => "arm64",
        system_info::Cpu::Mips => "mips",
        system_info::Cpu::Mips64 => "mips64",
        _ => "unknown",
    };
    let reason_s = ["other", "read", "write", "exec"][op as usize];
    let adj_s = match &info.adjusted_address {
        None => "none".to_string(),
        Some(AdjustedAddress::NonCanonical(a)) => format!("nc={}", a.0),
        Some(AdjustedAddress::NullPointerWithOffset(a)) => format!("np={}", a.0),
    };
    let ctx_s = if have_ctx {
        let r = regs.as_deref().unwrap_or(&[]);
        let (names, size): (&[&str], u32) = match c.cpu.as_str() {
            "amd64" => (AMD64_REGS, 8),
            "ppc64" => (PPC64_REGS, 8),
            // gated platforms: the context is never read by the analysis
            _ => (&[], 4),
        };
        format!(
            "{size}/{}",
            names.iter().map(|n| format!("{n}={}", reg_of(r, n))).collect::<Vec<_>>().join(",")
        )
    } else {
        "none".to_string()
    };
    let iregs_s = match (analysed, ins) {
        (true, Some(i)) if !i.regs.is_empty() => i.regs.join(","),
        _ => "-".to_string(),
    };
    let map_s = match c.kind {
        MapKind::None => "info/".to_string(),
        MapKind::Both => render_map(&MapKind::Info, &c.regions),
        _ => render_map(&c.kind, &c.regions),
    };
    let request = format!(
        "bitflip run cpu:{cpu_s} reason:{reason_s} addr:{} adj:{adj_s} ctx:{ctx_s} iregs:{iregs_s} map:{map_s}",
        info.address.0
    );
    Observed { out, request: Some(request) }
}

// -------------------------------------------------------------------------------------- generator

const PROTS: &[u32] = &[0x01, 0x02, 0x04, 0x08, 0x10, 0x20, 0x40, 0x80, 0x00, 0x104, 0x202, 0x42];
const POISON: &[u64] = &[0xe5e5e5e5e5e5e5e5, 0xa5a5a5a5a5a5a5a5, 0x2b2b2b2b2b2b2b2b, 0xcdcdcdcdcdcdcdcd, 0x4141414141414141, 0xe5];

fn gen_regions(rng: &mut Rng, kind: &MapKind, n: usize) -> Vec<Region> {
    let mut rs = vec![];
    let bases: [u64; 6] = [
        0x0000_7f00_0000_0000 + (rng.below(1 << 20) << 12),
        0x0000_0000_0040_0000 + (rng.below(1 << 8) << 12),
        0x0000_5555_0000_0000 + (rng.below(1 << 16) << 12),
        0xffff_8000_0000_0000 + (rng.below(1 << 20) << 12),
        0x0001_0000_0000_0000 + (rng.below(1 << 20) << 12),
        rng.next() & !0xfff,
    ];
    let mut cursor = *rng.pick(&bases);
    for _ in 0..n {
        let shape = rng.below(20);
        let pages = 1 + rng.below(4);
        let p = if *kind == MapKind::Maps { rng.below(8) as u32 } else { *rng.pick(PROTS) };
        let (lo, size) = match shape {
            0 => (0, 0x1000 * pages),                                 // NULL page mapped
            1 => (u64::MAX - 0x1000 * pages + 1, 0x1000 * pages),     // ends at 2^64-1
            2 => (*rng.pick(&bases), 0),                              // empty
            3 => (u64::MAX - 0xfff, 0x2000),                          // overflows
            4 if !rs.is_empty() => {                                  // overlaps a previous one
                let q: &Region = rng.pick(&rs);
                (q.lo.wrapping_add(0x800), 0x1000)
            }
            5 => {
                cursor = *rng.pick(&bases);
                (cursor, 0x1000 * pages)
            }
            6 => (1u64 << rng.below(64), 0x1000),                     // a power of two: neighbours of 0
            _ => {
                let gap = if rng.chance(1, 2) { 0 } else { 0x1000 * rng.below(3) };
                let lo = cursor.wrapping_add(gap);
                cursor = lo.wrapping_add(0x1000 * pages);
                (lo, 0x1000 * pages)
            }
        };
        let b = if *kind == MapKind::Maps {
            // inclusive final address; empty/overflow shapes become lo > hi
            if size == 0 {
                lo.wrapping_sub(1)
            } else {
                lo.saturating_add(size - 1)
            }
        } else {
            size
        };
        rs.push(Region { lo, b, p });
    }
    rs
}

/// an address "interesting" w.r.t. the regions
fn gen_addr(rng: &mut Rng, kind: &MapKind, rs: &[Region]) -> u64 {
    let valid: Vec<(u64, u64)> = rs.iter().filter_map(|r| own_range(kind, r)).collect();
    let inside = |rng: &mut Rng| -> u64 {
        if valid.is_empty() {
            rng.next()
        } else {
            let (lo, hi) = *rng.pick(&valid);
            match rng.below(4) {
                0 => lo,
                1 => hi,
                _ => lo + rng.below((hi - lo).saturating_add(1).max(1)),
            }
        }
    };
    let bit = |rng: &mut Rng| -> u64 {
        match rng.below(8) {
            0 => *rng.pick(&[0u64, 11, 12, 13, 46, 47, 48, 49, 62, 63]), // boundaries of the ranges / page / cut-offs
            1 => 48 + rng.below(16),
            _ => rng.below(64),
        }
    };
    match rng.below(16) {
        0..=6 => inside(rng) ^ (1u64 << bit(rng)), // a single-bit neighbour of mapped memory
        7 => inside(rng),                                 // accessible itself
        8 => 1u64 << rng.below(64),                       // neighbour of NULL
        9 => rng.below(0x3000),                           // near NULL / low
        10 => inside(rng) ^ (1u64 << (47 + rng.below(3))), // around the canonical boundary
        11 => inside(rng) ^ (3u64 << rng.below(63)),       // two bits off
        12 => match rng.below(4) {
            0 => 0,
            1 => u64::MAX,
            2 => 0x0000_8000_0000_0000,
            _ => 0xffff_7fff_ffff_ffff,
        },
        13 => inside(rng).wrapping_add(rng.below(0x2000)).wrapping_sub(0x1000),
        _ => rng.next(),
    }
}

fn gen_exc(rng: &mut Rng, os: &str, addr: u64) -> Exc {
    match os {
        "win" => match rng.below(10) {
            0 => Exc { code: 0xc0000005, flags: 0, nparams: 2, info0: 0, info1: u64::MAX, addr: 0x1000 }, // GPF shape
            1 => Exc { code: 0xc0000005, flags: 0, nparams: rng.below(2) as u32, info0: *rng.pick(&[0, 1, 8]), info1: addr, addr },
            2 => Exc { code: 0xc000001d, flags: 0, nparams: 0, info0: 0, info1: 0, addr },
            3 => Exc { code: 0xc0000006, flags: 0, nparams: 3, info0: *rng.pick(&[0, 1, 8]), info1: addr, addr: 0x2000 },
            _ => Exc { code: 0xc0000005, flags: 0, nparams: 2, info0: *rng.pick(&[0, 0, 1, 1, 8, 8, 2]), info1: addr, addr: 0x2000 },
        },
        "linux" => match rng.below(6) {
            0 => Exc { code: 11, flags: 0x80, nparams: 0, info0: 0, info1: 0, addr: 0 }, // SIGSEGV / SI_KERNEL
            1 => Exc { code: 7, flags: 0x80, nparams: 0, info0: 0, info1: 0, addr: 0 },  // SIGBUS / SI_KERNEL
            _ => Exc { code: 11, flags: *rng.pick(&[1, 2]), nparams: 0, info0: 0, info1: 0, addr },
        },
        _ => match rng.below(4) {
            0 => Exc { code: 1, flags: 13, nparams: 0, info0: 0, info1: 0, addr: 0 }, // EXC_BAD_ACCESS / EXC_I386_GPFLT
            _ => Exc { code: 1, flags: 1, nparams: 0, info0: 0, info1: 0, addr },
        },
    }
}

fn gen_case(rng: &mut Rng, big: bool) -> Case {
    let cpu = match rng.below(20) {
        0 => "x86",
        1 => "arm64",
        2 | 3 => "ppc64",
        4 => "mips64",
        5 => *rng.pick(&["arm", "ppc", "unknown"]),
        _ => "amd64",
    }
    .to_string();
    let os = match rng.below(10) {
        0..=4 => "win",
        5..=7 => "linux",
        _ => "mac",
    }
    .to_string();
    let kind = match rng.below(20) {
        0 => MapKind::None,
        1 => MapKind::Both,
        2..=9 => MapKind::Maps,
        _ => MapKind::Info,
    };
    let n = if kind == MapKind::None {
        0
    } else if big {
        rng.range(17, 64) as usize
    } else {
        match rng.below(10) {
            0 => 0,
            1 | 2 => 1,
            3..=6 => rng.range(2, 4) as usize,
            _ => rng.range(5, 16) as usize,
        }
    };
    let regions = gen_regions(rng, &kind, n);
    let addr = gen_addr(rng, &kind, &regions);
    let exc = gen_exc(rng, &os, addr);
    let ins = if rng.chance(1, 8) {
        "none".to_string()
    } else if rng.chance(1, 2) {
        rng.pick(INS).key.to_string()
    } else {
        let base = if rng.chance(1, 8) { "none" } else { *rng.pick(&AMD64_HW) };
        let mut index = if rng.chance(1, 3) { "none" } else { *rng.pick(&AMD64_HW) };
        if index == "rsp" || (base == "none" && index == "none") {
            index = "rcx";
        }
        let disp: i64 = match rng.below(6) {
            0 | 1 => 0,
            2 => rng.below(256) as i64 - 128,
            3 => 8 * rng.below(16) as i64,
            4 => rng.below(1 << 31) as i64,
            _ => -(rng.below(1 << 31) as i64) - 1,
        };
        format!("sib.{base}.{index}.{}.{disp}", rng.pick(&[1u64, 2, 4, 8]))
    };
    let regs = if rng.chance(1, 8) {
        None
    } else {
        let names: &[&str] = match cpu.as_str() {
            "amd64" => AMD64_REGS,
            "ppc64" => PPC64_REGS,
            "x86" => &["eip", "esp"],
            "arm64" => &["pc", "sp"],
            _ => &[],
        };
        let mut v: Vec<(String, u64)> = vec![];
        let ip = 0x40_0000 + (rng.below(16) << 4);
        for n in names {
            let val = if *n == ip_name(&cpu) {
                ip
            } else if cpu == "x86" {
                rng.below(1 << 32)
            } else {
                match rng.below(12) {
                    0 => 0,
                    1 => *rng.pick(POISON),
                    2 | 3 => addr.wrapping_add(rng.below(0x2400)).wrapping_sub(0x1200), // nearby or just not
                    4..=7 => gen_addr(rng, &kind, &regions),
                    8 => rng.below(64),
                    _ => continue, // zero
                }
            };
            v.push((n.to_string(), val));
        }
        // make the instruction's base register interesting more often
        if cpu == "amd64" {
            if let Some(i) = find_ins(&ins) {
                for r in &i.regs {
                    if AMD64_REGS.contains(r) && *r != "rip" && rng.chance(3, 4) {
                        v.retain(|(n, _)| n != r);
                        let val = match rng.below(8) {
                            0 => 0,
                            1 => addr,
                            _ => gen_addr(rng, &kind, &regions),
                        };
                        v.push((r.to_string(), val));
                    }
                }
            }
        }
        let gpf = (os == "win" && exc.code == 0xc0000005 && exc.nparams >= 2 && exc.info0 == 0 && exc.info1 == u64::MAX)
            || (os == "linux" && exc.flags == 0x80)
            || (os == "mac" && exc.flags == 13);
        if cpu == "amd64" && gpf && rng.chance(3, 4) {
            if let Some(i) = find_ins(&ins) {
                if let Some(b) = i.base {
                    if b != "rip" {
                        let target = gen_addr(rng, &kind, &regions);
                        let val = match rng.below(4) {
                            0 => target ^ (1u64 << 47),
                            _ => target ^ (1u64 << (48 + rng.below(16))),
                        };
                        v.retain(|(n, _)| n != b && Some(n.as_str()) != i.index.map(|x| x.0));
                        v.push((b.to_string(), val.wrapping_sub(i.disp as u64)));
                    }
                }
            }
        }
        Some(v)
    };
    Case { cpu, os, exc, regs, ins, kind, regions }
}

impl Engine for Bitflip {
    fn name(&self) -> &'static str {
        "bitflip"
    }
    fn rule(&self) -> String {
        "case = synthesized minidump (cpu amd64/x86/arm64/ppc64/mips64/arm/ppc/unknown; os win/linux/mac; exception record incl. Windows AV read/write/exec, GPF shapes of the three OSes; exception context with all 17 amd64 / 39 ppc64 registers or none; memory at rip holding one of 20 fixed encodings or a synthesized `mov rax,[base+index*scale+disp]` over all 16x15 base/index registers, 4 scales, disp8/disp32; memory-info list or Linux maps (or both, or none) with 0..64 regions of every protection/permission mix incl. NULL page, region ending at 2^64-1, empty, overflowing and overlapping regions), crash address chosen as a one-bit / two-bit neighbour of mapped memory, of NULL, inside a region, around the canonical boundary or random. Plus BitFlipDetails::confidence on all combinations of its inputs. non-trivial = at least one flip reported, or a 64-bit non-ARM64 dump with a non-empty map whose examined address is not mapped; distinct = distinct case line".into()
    }
    fn exhaustive_part(&self) -> Option<String> {
        Some("BitFlipDetails::confidence(): all 2^4 flag combinations x nearby_registers in {0,1,2,3,4,5,17,2^32-1} (128 records; the function only distinguishes min(nearby,4)). Systematic single-region product: 64 bit positions x {amd64 user, amd64 kernel-half, ppc64} x {read, write, exec, undetermined} x 8 permission mixes (6144 dumps)".into())
    }

    fn generate(&self, tier: Tier, rng: &mut Rng, emit: &mut dyn FnMut(String)) {
        for bits in 0..16u32 {
            for near in [0u32, 1, 2, 3, 4, 5, 17, u32::MAX] {
                emit(format!(
                    "bitflip conf {} {} {} {} {}",
                    bits & 1,
                    (bits >> 1) & 1,
                    (bits >> 2) & 1,
                    near,
                    (bits >> 3) & 1
                ));
            }
        }
        // ---- systematic: every bit position x cpu x kind of access x permission mix, one region
        for i in 0..64u32 {
            for (cpu, target) in [("amd64", 0x0000_7f00_1234_5000u64), ("amd64", 0xffff_9000_0000_1000), ("ppc64", 0x0000_7f00_1234_5000)] {
                for (code, nparams, info0) in [(0xc0000005u32, 2u32, 0u64), (0xc0000005, 2, 1), (0xc0000005, 2, 8), (0xc000001d, 0, 0)] {
                    for perm in 0..8u32 {
                        let examined = (target + 0x10) ^ (1u64 << i);
                        let c = Case {
                            cpu: cpu.to_string(),
                            os: "win".to_string(),
                            exc: Exc { code, flags: 0, nparams, info0, info1: examined, addr: examined },
                            regs: None,
                            ins: "none".to_string(),
                            kind: MapKind::Maps,
                            regions: vec![Region { lo: target, b: target + 0xfff, p: perm }],
                        };
                        emit(render(&c));
                    }
                }
            }
        }
        let n = if tier == Tier::Quick { 200000 } else { 600000 };
        for i in 0..n {
            let c = gen_case(rng, i % 8 == 7);
            emit(render(&c));
        }
    }

    fn exec(&self, case: &str) -> ImplResult {
        let mut res = ImplResult::default();
        let f: Vec<&str> = case.split(' ').filter(|s| !s.is_empty()).collect();
        if f.len() == 7 && f[0] == "bitflip" && f[1] == "conf" {
            return exec_conf(&f[2..]);
        }
        let Some(c) = parse_case(case) else {
            res.out = "bad-op".into();
            LAST.with(|l| *l.borrow_mut() = Some((case.to_string(), Some(case.to_string()))));
            return res;
        };
        res.tags.push("kind:run".into());
        match catch(|| {
            let mut r = ImplResult::default();
            let o = run_case(&c, &mut r);
            (r, o)
        }) {
            Ok((r, o)) => {
                res.oracle = r.oracle;
                res.tags.extend(r.tags);
                res.nontrivial = r.nontrivial;
                res.out = o.out;
                LAST.with(|l| *l.borrow_mut() = Some((case.to_string(), o.request)));
            }
            Err(msg) => {
                res.out = "PANIC".into();
                res.oracle.push(("processing-panics".into(), msg));
                LAST.with(|l| *l.borrow_mut() = Some((case.to_string(), None)));
            }
        }
        res
    }

    fn model_request(&self, case: &str) -> Option<String> {
        if case.starts_with("bitflip conf ") {
            return Some(case.to_string());
        }
        let cached = LAST.with(|l| match &*l.borrow() {
            Some((c, r)) if c == case => Some(r.clone()),
            _ => None,
        });
        match cached {
            Some(r) => r,
            None => {
                let _ = self.exec(case);
                LAST.with(|l| match &*l.borrow() {
                    Some((c, r)) if c == case => r.clone(),
                    _ => None,
                })
            }
        }
    }

    fn shrink(&self, case: &str, still_fails: &dyn Fn(&str) -> bool) -> String {
        let Some(mut c) = parse_case(case) else { return case.to_string() };
        let mut progress = true;
        while progress {
            progress = false;
            let mut i = 0;
            while i < c.regions.len() {
                let mut d = c.clone();
                d.regions.remove(i);
                if still_fails(&render(&d)) {
                    c = d;
                    progress = true;
                } else {
                    i += 1;
                }
            }
            if let Some(regs) = c.regs.clone() {
                let mut i = 0;
                let mut regs = regs;
                while i < regs.len() {
                    if regs[i].0 == ip_name(&c.cpu) {
                        i += 1;
                        continue;
                    }
                    let mut d = c.clone();
                    let mut r2 = regs.clone();
                    r2.remove(i);
                    d.regs = Some(r2.clone());
                    if still_fails(&render(&d)) {
                        regs = r2;
                        c = d;
                        progress = true;
                    } else {
                        i += 1;
                    }
                }
            }
            if c.ins != "none" {
                let mut d = c.clone();
                d.ins = "none".into();
                if still_fails(&render(&d)) {
                    c = d;
                    progress = true;
                }
            }
        }
        render(&c)
    }
}
