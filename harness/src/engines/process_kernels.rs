//! Kernel side of engine `process`: the inputs of the modelled arithmetic kernels are extracted
//! from a dump / a processed state, the answers are read off what the real code produced
//! (the `ProcessState`, the JSON and text reports), and both go to the Lean model
//! (`MdModel.Process.kernel`).
//!
//! kernel case lines
//!   process limitscase <hex raw stream bytes>
//!   process fpo local:<n> saved:<n> params:<n> abp:<0|1> esp:<n|-> eip:<n|-> ebp:<n|-> ebx:<n|-> gcps:<n> gc:<0|1> mem:<a=v,..|->
//!   process pushcase op:<push|call|pop|ret> rsp:<n>
//!   process guardcase kind:<info|maps> regions:<a:b:p,..> addr:<n>     (p: 0 = no access, 1 = accessible)

use super::pipeline_gen as pg;
use crate::common::*;
use breakpad_symbols::{FrameWalker, SimpleModule, SymbolFile};
use minidump::format as md;
use minidump::*;
use minidump_processor::{Limit, LinuxProcLimits, ProcessState, ProcessorOptions};
use minidump_synth::*;
use std::collections::HashMap;
use test_assembler::{Endian, Section};

const MAX_REGIONS: usize = 64;
const MAX_FRAMES: usize = 48;
const MAX_MODS: usize = 32;

// ------------------------------------------------------------------------------------ limits

fn lim_str(l: &Limit) -> String {
    match l {
        Limit::Unlimited => "u".into(),
        Limit::Limited(n) => n.to_string(),
        Limit::Error => "e".into(),
    }
}

fn limits_answer(l: &LinuxProcLimits) -> String {
    let mut v: Vec<_> = l.limits.iter().collect();
    v.sort_by(|a, b| a.0.cmp(b.0));
    format!(
        "ok n={} {}",
        v.len(),
        v.iter().map(|(n, e)| format!("{}={}/{}/{}", hex(n.as_bytes()), lim_str(&e.soft), lim_str(&e.hard), hex(e.unit.as_bytes()))).collect::<Vec<_>>().join(";")
    )
}

fn limits_request(raw: &[u8]) -> String {
    format!("limits {}", hex(String::from_utf8_lossy(raw).as_bytes()))
}

// ------------------------------------------------------------------------------------ guard

fn raw_region(r: &UnifiedMemoryInfo) -> (u64, u64, bool) {
    let acc = r.is_readable() || r.is_writable() || r.is_executable();
    match r {
        UnifiedMemoryInfo::Info(i) => (i.raw.base_address, i.raw.region_size, acc),
        UnifiedMemoryInfo::Map(m) => (m.map.address.0, m.map.address.1, acc),
    }
}
fn region_str(r: (u64, u64, bool)) -> String {
    format!("{}:{}:{}", r.0, r.1, r.2 as u8)
}

fn guard_kernel(dump: &Minidump<'_, &[u8]>, state: &ProcessState) -> Option<(String, String)> {
    let accesses = &state.exception_info.as_ref()?.memory_access_list.as_ref()?.accesses;
    if accesses.is_empty() || accesses.len() > 8 {
        return None;
    }
    let info = dump.get_stream::<MinidumpMemoryInfoList>().ok();
    let maps = dump.get_stream::<MinidumpLinuxMaps>().ok();
    let uni = UnifiedMemoryInfoList::new(info, maps)?;
    let kind = if uni.info().is_some() { "info" } else { "maps" };
    let regions: Vec<String> = uni.by_addr().map(|r| region_str(raw_region(&r))).collect();
    if regions.len() > MAX_REGIONS {
        return None;
    }
    let accs: Vec<String> = accesses
        .iter()
        .map(|a| match uni.memory_info_at_address(a.address_info.address) {
            Some(r) => region_str(raw_region(&r)),
            None => "none".into(),
        })
        .collect();
    let req = format!("guard {kind} regions:{} acc:{}", if regions.is_empty() { "-".into() } else { regions.join(",") }, accs.join(","));
    let ans = format!("flags:{}", accesses.iter().map(|a| if a.address_info.is_likely_guard_page { "1" } else { "0" }).collect::<Vec<_>>().join(","));
    Some((req, ans))
}

// ------------------------------------------------------------------------------------ printer

fn parse_hex(v: &serde_json::Value) -> Option<u64> {
    u64::from_str_radix(v.as_str()?.strip_prefix("0x")?, 16).ok()
}

/// the `base - end` lines of a section of the text report
fn text_ends(text: &str, header: &str) -> Option<Vec<u64>> {
    let start = text.find(&format!("\n{header}\n"))? + header.len() + 2;
    let mut out = vec![];
    for line in text[start..].lines() {
        if line.is_empty() {
            break;
        }
        let mut it = line.split(' ');
        let _base = it.next()?;
        if it.next()? != "-" {
            return None;
        }
        out.push(u64::from_str_radix(it.next()?.strip_prefix("0x")?, 16).ok()?);
    }
    Some(out)
}

fn printer_kernel(state: &ProcessState, json: &[u8], text: Option<&str>) -> Option<(String, String)> {
    let j: serde_json::Value = serde_json::from_slice(json).ok()?;
    let mods: Vec<(u64, u64)> = state.modules.iter().map(|m| (m.raw.base_of_image, m.raw.size_of_image as u64)).collect();
    let unl: Vec<(u64, u64)> = state.unloaded_modules.iter().map(|m| (m.raw.base_of_image, m.raw.size_of_image as u64)).collect();
    if mods.len() > MAX_MODS || unl.len() > MAX_MODS {
        return None;
    }
    let tmods: Vec<(u64, u64)> = state.modules.by_addr().map(|m| (m.raw.base_of_image, m.raw.size_of_image as u64)).collect();
    let tunl: Vec<(u64, u64)> = state.unloaded_modules.by_addr().map(|m| (m.raw.base_of_image, m.raw.size_of_image as u64)).collect();
    // text ends are compared only when the report's lines can be told apart (names without line breaks)
    let t_ends = text.and_then(|t| text_ends(t, "Loaded modules:")).filter(|v| v.len() == tmods.len());
    let tu_ends = text.and_then(|t| text_ends(t, "Unloaded modules:")).filter(|v| v.len() == tunl.len());
    let lst = |v: &[(u64, u64)]| if v.is_empty() { "-".to_string() } else { v.iter().map(|(a, b)| format!("{a}:{b}")).collect::<Vec<_>>().join(",") };
    let nums = |v: &[u64]| v.iter().map(|x| x.to_string()).collect::<Vec<_>>().join(",");
    let jm: Vec<u64> = j.get("modules")?.as_array()?.iter().map(|m| parse_hex(m.get("end_addr")?)).collect::<Option<_>>()?;
    let ju: Vec<u64> = j.get("unloaded_modules")?.as_array()?.iter().map(|m| parse_hex(m.get("end_addr")?)).collect::<Option<_>>()?;
    let mut frames_req: Vec<String> = vec![];
    let mut frames_ans: Vec<String> = vec![];
    let jthreads = j.get("threads")?.as_array()?;
    'outer: for (t, stack) in state.threads.iter().enumerate() {
        let jframes = jthreads.get(t)?.get("frames")?.as_array()?;
        for (i, f) in stack.frames.iter().enumerate() {
            if frames_req.len() >= MAX_FRAMES {
                break 'outer;
            }
            let o = |x: Option<u64>| x.map(|v| v.to_string()).unwrap_or_else(|| "-".into());
            frames_req.push(format!("{}:{}:{}:-", f.instruction, o(f.module.as_ref().map(|m| m.raw.base_of_image)), o(f.function_base)));
            let jf = jframes.get(i)?;
            let g = |k: &str| match jf.get(k) {
                Some(serde_json::Value::Null) | None => "-".to_string(),
                Some(v) => parse_hex(v).map(|x| x.to_string()).unwrap_or_else(|| "?".into()),
            };
            frames_ans.push(format!("{}:{}:-", g("module_offset"), g("function_offset")));
        }
    }
    let req = format!(
        "printer mods:{} tmods:{} unl:{} tunl:{} frames:{}",
        lst(&mods),
        if t_ends.is_some() { lst(&tmods) } else { "-".into() },
        lst(&unl),
        if tu_ends.is_some() { lst(&tunl) } else { "-".into() },
        if frames_req.is_empty() { "-".into() } else { frames_req.join(",") }
    );
    let ans = format!(
        "mods:{} tmods:{} unl:{} tunl:{} frames:{}",
        nums(&jm),
        nums(&t_ends.unwrap_or_default()),
        nums(&ju),
        nums(&tu_ends.unwrap_or_default()),
        frames_ans.join(",")
    );
    Some((req, ans))
}

/// the composite request / answer of a pipeline case
pub fn pipeline_kernels(dump: &Minidump<'_, &[u8]>, state: &ProcessState, json: Option<&[u8]>, text: Option<&[u8]>, bounds: &[(usize, u64, u64)]) -> Option<(String, String)> {
    let mut reqs: Vec<String> = vec![];
    let mut anss: Vec<String> = vec![];
    if let (Ok(l), Some(parsed)) = (dump.get_stream::<MinidumpLinuxProcLimits>(), state.linux_proc_limits.as_ref()) {
        let raw = l.raw_bytes();
        if raw.len() <= 4096 {
            reqs.push(limits_request(&raw));
            anss.push(limits_answer(parsed));
        }
    }
    if let Some((r, a)) = guard_kernel(dump, state) {
        reqs.push(r);
        anss.push(a);
    }
    if let Some(j) = json {
        let text = text.and_then(|t| std::str::from_utf8(t).ok());
        if let Some((r, a)) = printer_kernel(state, j, text) {
            reqs.push(r);
            anss.push(a);
        }
    }
    if !bounds.is_empty() && bounds.len() <= 64 {
        reqs.push(format!("bound {}", bounds.iter().map(|(_, f, b)| format!("{f}:{b}")).collect::<Vec<_>>().join(",")));
        anss.push("ok".into()); // what the property demands; a longer stack shows as a model diff AND as `too-many-frames`
    }
    if reqs.is_empty() {
        return None;
    }
    Some((format!("process kern {}", reqs.join(" // ")), anss.join(" // ")))
}

// ------------------------------------------------------------------------------------ kernel-only cases

fn kvf<'a>(f: &'a str, key: &str) -> Option<&'a str> {
    f.strip_prefix(key)?.strip_prefix(':')
}
fn opt_u64(s: &str) -> Option<Option<u64>> {
    if s == "-" {
        Some(None)
    } else {
        s.parse().ok().map(Some)
    }
}

/// a walker with the behaviour of `CfiStackWalker<CONTEXT_X86>` on explicit register/memory maps
struct X86Walker {
    instruction: u64,
    gc: bool,
    gcps: u32,
    callee: HashMap<&'static str, u64>,
    caller: HashMap<&'static str, u64>,
    mem: HashMap<u64, u64>,
}
const X86_REGS: &[&str] = &["eip", "esp", "ebp", "ebx", "esi", "edi"];
impl FrameWalker for X86Walker {
    fn get_instruction(&self) -> u64 {
        self.instruction
    }
    fn has_grand_callee(&self) -> bool {
        self.gc
    }
    fn get_grand_callee_parameter_size(&self) -> u32 {
        self.gcps
    }
    fn get_register_at_address(&self, address: u64) -> Option<u64> {
        self.mem.get(&address).copied()
    }
    fn get_callee_register(&self, name: &str) -> Option<u64> {
        self.callee.get(name).copied()
    }
    fn set_caller_register(&mut self, name: &str, val: u64) -> Option<()> {
        let n = X86_REGS.iter().find(|r| **r == name)?;
        let v = u32::try_from(val).ok()?;
        self.caller.insert(n, v as u64);
        Some(())
    }
    fn clear_caller_register(&mut self, name: &str) {
        let name = name.trim_start_matches('$');
        self.caller.remove(name);
    }
    fn set_cfa(&mut self, val: u64) -> Option<()> {
        self.set_caller_register("esp", val)
    }
    fn set_ra(&mut self, val: u64) -> Option<()> {
        self.set_caller_register("eip", val)
    }
}

fn exec_fpo(f: &[&str]) -> Option<String> {
    if f.len() != 13 {
        return None;
    }
    let local: u32 = kvf(f[2], "local")?.parse().ok()?;
    let saved: u32 = kvf(f[3], "saved")?.parse().ok()?;
    let params: u32 = kvf(f[4], "params")?.parse().ok()?;
    let abp: u32 = kvf(f[5], "abp")?.parse().ok()?;
    let mut callee: HashMap<&'static str, u64> = HashMap::new();
    for (i, name) in ["esp", "eip", "ebp", "ebx"].iter().enumerate() {
        if let Some(v) = opt_u64(kvf(f[6 + i], name)?)? {
            if v > u32::MAX as u64 {
                return None; // not an x86 register value
            }
            callee.insert(X86_REGS.iter().find(|r| *r == name).unwrap(), v);
        }
    }
    let gcps: u32 = kvf(f[10], "gcps")?.parse().ok()?;
    let gc = kvf(f[11], "gc")? == "1";
    let mut mem = HashMap::new();
    let m = kvf(f[12], "mem")?;
    if m != "-" {
        for e in m.split(',') {
            let (a, v) = e.split_once('=')?;
            // first entry wins (as `List.find?` in the model)
            mem.entry(a.parse::<u64>().ok()?).or_insert(v.parse::<u64>().ok()?);
        }
    }
    let text = format!("MODULE windows x86 000000000000000000000000000000000 m.pdb\nSTACK WIN 0 1000 100 0 0 {params:x} {saved:x} {local:x} 0 0 {abp}\n");
    let sym = SymbolFile::from_bytes(text.as_bytes()).ok()?;
    let module = SimpleModule { base_address: Some(0x400000), size: Some(0x10000), ..Default::default() };
    let mut w = X86Walker { instruction: 0x401010, gc, gcps, callee, caller: HashMap::new(), mem };
    Some(match sym.walk_frame(&module, &mut w) {
        None => "none".into(),
        Some(()) => format!(
            "some eip={} esp={} ebp={} ebx={}",
            w.caller.get("eip").map(|v| v.to_string()).unwrap_or("?".into()),
            w.caller.get("esp").map(|v| v.to_string()).unwrap_or("?".into()),
            w.caller.get("ebp").map(|v| v.to_string()).unwrap_or("?".into()),
            w.caller.get("ebx").map(|v| v.to_string()).unwrap_or("-".into())
        ),
    })
}

/// a small amd64 dump: one thread, an exception whose context has `rip` at `code`, the given
/// `rsp`/`rax`, and memory-info regions or Linux maps
fn mini_dump(code: &[u8], rsp: u64, rax: u64, info: &[(u64, u64, bool)], maps: Option<&[(u64, u64, bool)]>, windows: bool) -> Option<Vec<u8>> {
    let endian = Endian::Little;
    let mut rng = Rng::new(7);
    let code_base = 0x0000_5555_0000_1000u64;
    let regs = pg::Regs { ip: code_base, sp: rsp, fp: 0, lr: 0, gen: [rax, 0, 0, 0] };
    let ctx_bytes = loop {
        // `make_context` picks zero or random fill; take a zero-filled one
        let b = pg::make_context("amd64", false, &mut rng, &regs, false);
        if b[8..32].iter().all(|x| *x == 0) {
            break b;
        }
    };
    let ctx_len = ctx_bytes.len() as u32;
    let mut dump = SynthMinidump::with_endian(endian).add(Section::with_endian(endian).append_bytes(&ctx_bytes));
    let si = SystemInfo::new(endian).set_processor_architecture(md::ProcessorArchitecture::PROCESSOR_ARCHITECTURE_AMD64 as u16).set_platform_id(if windows {
        md::PlatformId::VER_PLATFORM_WIN32_NT as u32
    } else {
        md::PlatformId::Linux as u32
    });
    dump = dump.add_system_info(si);
    let tctx = Section::with_endian(endian).append_bytes(&ctx_bytes);
    let stack = Memory::with_section(Section::with_endian(endian).append_repeated(0, 64), 0x7ffd_0000_0000);
    dump = dump.add_thread(Thread::new(endian, 1, &stack, &tctx)).add(tctx).add_memory(stack);
    dump = dump.add_memory(Memory::with_section(Section::with_endian(endian).append_bytes(code).append_repeated(0x90, 16), code_base));
    let mut ex = Exception::new(endian);
    ex.thread_id = 1;
    ex.exception_record.exception_code = if windows { 0xc0000005 } else { 11 };
    ex.exception_record.exception_flags = if windows { 0 } else { 1 };
    ex.exception_record.exception_address = code_base;
    ex.exception_record.number_parameters = 2;
    ex.exception_record.exception_information[1] = rax;
    ex.thread_context = (ctx_len, 32);
    dump = dump.add_exception(ex);
    for (base, size, acc) in info {
        let prot = if *acc { 4 } else { 1 };
        dump = dump.add_memory_info(MemoryInfo::new(endian, *base, *base, prot, *size, 0x1000, prot, 0x20000));
    }
    if let Some(maps) = maps {
        let mut s = String::new();
        for (a, b, acc) in maps {
            s.push_str(&format!("{a:x}-{b:x} {} 00000000 00:00 0 \n", if *acc { "rw-p" } else { "---p" }));
        }
        dump = dump.set_linux_maps(s.as_bytes());
    }
    dump.finish()
}

fn process_bytes(bytes: &[u8]) -> Result<Option<ProcessState>, String> {
    catch(|| {
        let dump = Minidump::read(bytes).ok()?;
        let provider = minidump_unwind::Symbolizer::new(minidump_unwind::string_symbol_supplier(HashMap::new()));
        let rt = tokio::runtime::Builder::new_current_thread().enable_all().build().unwrap();
        rt.block_on(minidump_processor::process_minidump_with_options(&dump, &provider, ProcessorOptions::stable_basic())).ok()
    })
}

/// run a kernel-only case; returns the model request
pub fn exec(f: &[&str], res: &mut ImplResult) -> Option<String> {
    match f.get(1).copied() {
        Some("limitscase") if f.len() == 3 => {
            let raw = unhex(f[2]);
            let Some(raw) = raw else {
                res.out = "bad-op".into();
                return None;
            };
            res.tags.push("kind:kernel-limits".into());
            let r = catch(|| {
                let bytes = SynthMinidump::with_endian(Endian::Little).set_linux_proc_limits(&raw).finish()?;
                let dump = Minidump::read(bytes.as_slice()).ok()?;
                let stream = dump.get_stream::<MinidumpLinuxProcLimits>().ok()?;
                Some(limits_answer(&LinuxProcLimits::from(stream)))
            });
            match r {
                Err(msg) => {
                    res.out = "PANIC".into();
                    res.oracle.push(("process-panics".into(), format!("LinuxProcLimits::from: {msg}")));
                }
                Ok(None) => res.out = "unreadable".into(),
                Ok(Some(a)) => {
                    res.nontrivial = !a.starts_with("ok n=0");
                    res.out = a;
                }
            }
            Some(format!("process {}", limits_request(&raw)))
        }
        Some("fpo") => {
            res.tags.push("kind:kernel-fpo".into());
            match catch(|| exec_fpo(f)) {
                Err(msg) => {
                    res.out = "PANIC".into();
                    res.oracle.push(("process-panics".into(), format!("walk_with_stack_win_fpo: {msg}")));
                }
                Ok(None) => {
                    res.out = "bad-op".into();
                }
                Ok(Some(a)) => {
                    res.nontrivial = a != "none";
                    res.tags.push(format!("fpo:{}", if a == "none" { "none" } else { "some" }));
                    res.out = a;
                }
            }
            Some(f.join(" "))
        }
        Some("pushcase") if f.len() == 4 => {
            res.tags.push("kind:kernel-push".into());
            let (Some(op), Some(rsp)) = (kvf(f[2], "op"), kvf(f[3], "rsp").and_then(|s| s.parse::<u64>().ok())) else {
                res.out = "bad-op".into();
                return None;
            };
            let code: &[u8] = match op {
                "push" => &[0x50],
                "call" => &[0xff, 0xd0],
                "pop" => &[0x58],
                "ret" => &[0xc3],
                _ => {
                    res.out = "bad-op".into();
                    return None;
                }
            };
            let Some(bytes) = mini_dump(code, rsp, 0x1234_5000, &[], None, true) else {
                res.out = "bad-op".into();
                return None;
            };
            match process_bytes(&bytes) {
                Err(msg) => {
                    res.out = "PANIC".into();
                    res.oracle.push(("process-panics".into(), format!("{op} with rsp={rsp:#x}: {msg}")));
                }
                Ok(state) => {
                    let addr = state.as_ref().and_then(|s| s.exception_info.as_ref()).and_then(|e| e.memory_access_list.as_ref()).and_then(|l| l.accesses.last().map(|a| a.address_info.address));
                    match addr {
                        Some(a) => {
                            res.out = format!("addr:{a}");
                            res.nontrivial = true;
                        }
                        None => res.out = "no-access-list".into(),
                    }
                }
            }
            Some(format!("process push {op} {rsp}"))
        }
        Some("guardcase") if f.len() == 5 => {
            res.tags.push("kind:kernel-guard".into());
            let parsed = (|| {
                let kind = kvf(f[2], "kind")?;
                let mut regions = vec![];
                let r = kvf(f[3], "regions")?;
                if r != "-" {
                    for e in r.split(',') {
                        let p: Vec<&str> = e.split(':').collect();
                        if p.len() != 3 {
                            return None;
                        }
                        regions.push((p[0].parse::<u64>().ok()?, p[1].parse::<u64>().ok()?, p[2] == "1"));
                    }
                }
                Some((kind, regions, kvf(f[4], "addr")?.parse::<u64>().ok()?))
            })();
            let Some((kind, regions, addr)) = parsed else {
                res.out = "bad-op".into();
                return None;
            };
            // mov rax, [rax]
            let bytes = match kind {
                "info" => mini_dump(&[0x48, 0x8b, 0x00], 0x7ffd_0000_0010, addr, &regions, None, true),
                "maps" => mini_dump(&[0x48, 0x8b, 0x00], 0x7ffd_0000_0010, addr, &[], Some(&regions), false),
                _ => None,
            };
            let Some(bytes) = bytes else {
                res.out = "bad-op".into();
                return None;
            };
            match process_bytes(&bytes) {
                Err(msg) => {
                    res.out = "PANIC".into();
                    res.oracle.push(("process-panics".into(), format!("guard-page check: {msg}")));
                    None
                }
                Ok(None) => {
                    res.out = "unprocessable".into();
                    None
                }
                Ok(Some(state)) => {
                    let dump = Minidump::read(bytes.as_slice()).ok()?;
                    match guard_kernel(&dump, &state) {
                        Some((req, ans)) => {
                            res.nontrivial = ans.contains('1');
                            res.tags.push(format!("guard:{}", if ans.contains('1') { "flagged" } else { "clear" }));
                            res.out = ans;
                            Some(format!("process {req}"))
                        }
                        None => {
                            res.out = "no-guard-kernel".into();
                            None
                        }
                    }
                }
            }
        }
        Some("op") if f.len() == 4 => {
            // one crashing amd64 instruction through the whole pipeline (oracle-only)
            res.tags.push("kind:op".into());
            let (Some(code), Some(rsp)) = (kvf(f[2], "code").and_then(unhex), kvf(f[3], "rsp").and_then(|s| s.parse::<u64>().ok())) else {
                res.out = "bad-op".into();
                return None;
            };
            match run_op(&code, rsp) {
                Err(msg) => {
                    res.out = "PANIC".into();
                    res.oracle.push(("process-panics".into(), format!("instruction {}: {msg}", hex(&code))));
                }
                Ok(decoded) => {
                    res.nontrivial = decoded;
                    res.out = if decoded { "decoded".into() } else { "undecoded".into() };
                }
            }
            None
        }
        Some("opscan") if f.len() == 5 => {
            // a sweep over ModRM bytes for one (prefix, opcode map, opcode): oracle-only
            res.tags.push("kind:opscan".into());
            let parsed = (|| {
                let pfx = kvf(f[2], "pfx")?;
                let pfx = if pfx == "-" { vec![] } else { unhex(pfx)? };
                let map = kvf(f[3], "map")?;
                let op: u8 = kvf(f[4], "op")?.parse().ok()?;
                Some((pfx, map.to_string(), op))
            })();
            let Some((pfx, map, op)) = parsed else {
                res.out = "bad-op".into();
                return None;
            };
            let mut decoded = 0;
            let mut total = 0;
            for code in opscan_codes(&pfx, &map, op) {
                total += 1;
                match run_op(&code, 4) {
                    Err(msg) => {
                        res.oracle.push(("process-panics".into(), format!("process op code:{} rsp:4 : {msg}", hex(&code))));
                        break;
                    }
                    Ok(true) => decoded += 1,
                    Ok(false) => {}
                }
            }
            res.nontrivial = decoded > 0;
            res.out = format!("scanned:{total} decoded:{decoded}");
            None
        }
        _ => {
            res.out = "bad-op".into();
            None
        }
    }
}

/// the instruction variants one `opscan` case covers
pub fn opscan_codes(pfx: &[u8], map: &str, op: u8) -> Vec<Vec<u8>> {
    let mut out = vec![];
    for md_ in 0..4u8 {
        for reg in 0..8u8 {
            for rm in [0u8, 3, 4, 5] {
                let mut c = pfx.to_vec();
                if map == "0f" {
                    c.push(0x0f);
                }
                c.push(op);
                c.push((md_ << 6) | (reg << 3) | rm);
                // SIB (base=rbx/rbp, index=rcx, scale 8) + displacement / immediate bytes
                c.extend_from_slice(&[if reg % 2 == 0 { 0xcb } else { 0xcd }, 0xf8, 0xff, 0xff, 0x7f, 0x10, 0x20, 0x30, 0x40]);
                out.push(c);
            }
        }
    }
    out
}

/// process a dump whose crashing instruction is `code`; Ok(true) if op analysis produced an instruction string
fn run_op(code: &[u8], rsp: u64) -> Result<bool, String> {
    let Some(bytes) = mini_dump(code, rsp, 0xffff_ffff_ffff_fff8, &[(0xffff_ffff_ffff_e000, 0x1000, false)], None, true) else {
        return Ok(false);
    };
    let state = process_bytes(&bytes)?;
    let Some(state) = state else { return Ok(false) };
    // the reports must render as well
    catch(|| {
        let mut v = vec![];
        let _ = state.print(&mut v);
        v.clear();
        let _ = state.print_json(&mut v, false);
    })?;
    Ok(state.exception_info.as_ref().is_some_and(|e| e.instruction_str.is_some()))
}

pub fn generate(tier: Tier, rng: &mut Rng, emit: &mut dyn FnMut(String)) {
    let quick = tier == Tier::Quick;
    // ---- limits
    let directed: &[&[u8]] = &[
        b"",
        b"\n",
        b"Limit  Soft  Hard  Units\n",
        b"Limit  Soft  Hard  Units\nMax cpu time\n",
        b"Limit  Soft  Hard  Units\nMax cpu time  unlimited\n",
        b"Limit  Soft  Hard  Units\nMax cpu time  unlimited  unlimited\n",
        b"Limit  Soft  Hard  Units\nMax cpu time  unlimited  unlimited  seconds\n",
        b"Limit  Soft  Hard  Units\nMax cpu time  1  2  seconds  extra  more\n",
        b"h\na  b  c\na  d  e  f\n",
        b"h\n  \n   \n    \n",
        b"h\n a   b   c \n",
        b"h\nx  18446744073709551615  18446744073709551616  +5\n",
        b"h\nx  +  -1  \xc2\xa0u\xc2\xa0\n",
        b"h\n\xe2\x80\x83name\xe2\x80\x83  7  unlimited \n",
        b"h\nn\xff  1\xfe  2\n",
        b"Max only  1  2",
    ];
    for d in directed {
        emit(format!("process limitscase {}", hex(d)));
    }
    for _ in 0..(if quick { 1000 } else { 10000 }) {
        emit(format!("process limitscase {}", hex(&pg::gen_limits(rng))));
    }
    // ---- fpo
    let sizes = [0u64, 4, 8, 0xc, 0x10, 0x1000, 0x7fffffff, 0x80000000, 0xfffffff8, 0xfffffffc, 0xffffffff];
    let esps = [0u64, 4, 7, 8, 100, 0x1000, 0x7fffff00, 0xfffffff0, 0xfffffffc, 0xffffffff];
    for _ in 0..(if quick { 2000 } else { 30000 }) {
        let small = rng.chance(2, 3);
        let pick = |rng: &mut Rng| if small { *rng.pick(&sizes[..6]) } else { *rng.pick(&sizes) };
        let (local, saved, params, gcps) = (pick(rng), pick(rng), pick(rng), pick(rng));
        let abp = rng.below(2);
        let esp = if rng.chance(1, 12) { None } else { Some(*rng.pick(&esps)) };
        let eip = if rng.chance(1, 8) { None } else { Some(*rng.pick(&[0x401010u64, 4096, 0])) };
        let ebp = if rng.chance(1, 8) { None } else { Some(*rng.pick(&[0u64, 0x2000, 0xffffffff])) };
        let ebx = if rng.chance(1, 2) { None } else { Some(rng.below(1 << 32)) };
        let gc = rng.below(2);
        // memory at the addresses the walk will look at
        let mut mem: Vec<String> = vec![];
        if let Some(e) = esp {
            let fs = local + saved + gcps;
            let ra = e + fs;
            let val = |rng: &mut Rng| *rng.pick(&[0x401010u64, 4096, 0x12345678, 0xffffffff, 0x1_0000_0000, u64::MAX]);
            if rng.chance(5, 6) {
                mem.push(format!("{ra}={}", if rng.chance(1, 3) { eip.unwrap_or(0x401010) } else { val(rng) }));
            }
            if rng.chance(2, 3) {
                mem.push(format!("{}={}", ra + 4, val(rng)));
            }
            let slot = (e + gcps + saved).wrapping_sub(8);
            if rng.chance(3, 4) {
                mem.push(format!("{slot}={}", val(rng)));
            }
        }
        let o = |x: Option<u64>| x.map(|v| v.to_string()).unwrap_or_else(|| "-".into());
        emit(format!(
            "process fpo local:{local} saved:{saved} params:{params} abp:{abp} esp:{} eip:{} ebp:{} ebx:{} gcps:{gcps} gc:{gc} mem:{}",
            o(esp),
            o(eip),
            o(ebp),
            o(ebx),
            if mem.is_empty() { "-".into() } else { mem.join(",") }
        ));
    }
    // ---- push / call / pop / ret with every small rsp and the boundaries
    let mut rsps: Vec<u64> = (0..=16).collect();
    rsps.extend([u64::MAX, u64::MAX - 7, 1 << 63, 0x7ffd_0000_0000, 0xffff_ffff]);
    for op in ["push", "call", "pop", "ret"] {
        for r in &rsps {
            emit(format!("process pushcase op:{op} rsp:{r}"));
        }
    }
    // ---- guard pages
    for _ in 0..(if quick { 1000 } else { 10000 }) {
        let kind = if rng.chance(1, 2) { "info" } else { "maps" };
        let page = match rng.below(5) {
            0 => 0xffff_ffff_ffff_f000u64,
            1 => 0xffff_ffff_ffff_e000,
            2 => 0,
            3 => 0x1000,
            _ => (rng.next() & !0xfff) & 0x0000_7fff_ffff_f000,
        };
        let addr = page.wrapping_add(rng.below(0x1000));
        let size = *rng.pick(&[0x1000u64, 0x1000, 0x2000, 0x8000, 0x10000]);
        let mut regions: Vec<(u64, u64, bool)> = vec![];
        let enc = |base: u64, size: u64, acc: bool| -> (u64, u64, bool) {
            if kind == "info" {
                (base, size, acc)
            } else {
                (base, base.wrapping_add(size).wrapping_sub(1), acc)
            }
        };
        // the accessed region: mostly without access
        regions.push(enc(page, size, rng.chance(1, 5)));
        if rng.chance(3, 4) {
            regions.push(enc(page.wrapping_add(size), 0x1000, rng.chance(3, 4)));
        }
        if rng.chance(3, 4) {
            regions.push(enc(page.wrapping_sub(0x2000), 0x2000, rng.chance(3, 4)));
        }
        if rng.chance(1, 3) {
            regions.push(enc(0xffff_ffff_ffff_f000, 0x1000, rng.chance(1, 2)));
        }
        if rng.chance(1, 4) {
            regions.push(enc(0xffff_ffff_ffff_e000, 0x1000, rng.chance(1, 2)));
        }
        if rng.chance(1, 6) {
            regions.push((rng.next(), *rng.pick(&[0u64, 1, u64::MAX]), true));
        }
        // order in the dump is arbitrary
        if rng.chance(1, 2) {
            regions.reverse();
        }
        regions.dedup();
        emit(format!("process guardcase kind:{kind} regions:{} addr:{addr}", regions.iter().map(|r| format!("{}:{}:{}", r.0, r.1, r.2 as u8)).collect::<Vec<_>>().join(",")));
    }
    // ---- the crashing-instruction sweep moved to `process_opana.rs` (`opsweep`: model-compared, more
    // prefixes and maps); `opscan` case lines are still understood (corpus / old replays)
    for _ in 0..(if quick { 1000 } else { 10000 }) {
        emit(format!("process op code:{} rsp:{}", hex(&pg::gen_code(rng)), *rng.pick(&[0u64, 4, 8, 0x7ffd_0000_0010, u64::MAX])));
    }
}
