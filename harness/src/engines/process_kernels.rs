//! Kernel side of engine `process` (model-compared part). Placeholder until the Lean model exists.
use crate::common::*;
use minidump::Minidump;
use minidump_processor::ProcessState;

pub fn pipeline_kernels(_dump: &Minidump<'_, &[u8]>, _state: &ProcessState, _json: Option<&[u8]>, _bounds: &[(usize, u64, u64)]) -> Option<(String, String)> {
    None
}
pub fn generate(_tier: Tier, _rng: &mut Rng, _emit: &mut dyn FnMut(String)) {}
pub fn exec(_f: &[&str], res: &mut ImplResult) {
    res.out = "bad-op".into();
}
