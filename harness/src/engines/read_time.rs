//! C01, the `time` leaf: `format_time_t` / `format_system_time` (minidump/src/minidump.rs, private) reached
//! through the printers that embed them — `Minidump::print` (header `time_date_stamp`),
//! `MinidumpMiscInfo::print` (`process_create_time`, `time_zone.standard_date` / `daylight_date`) — on a
//! 276-byte dump built around the value, compared byte for byte with MdModel.TimeFmt
//! (`read timefmt t <n>` / `read timefmt st <y> <mo> <d> <h> <mi> <s> <ms>`).
//!
//! Case lines: `read time t <u32>` and `read time st <year> <month> <day> <hour> <minute> <second> <ms>`
//! (seven `u16`; the day of week is dropped by the code and sent as 0).
//! Oracle class `time-format-differs`: the two printers disagree with each other, the text has not the
//! RFC 3339 shape `YYYY-MM-DDTHH:MM:SS[.f{1,3}]Z`, or reading the text back (an independent
//! days-from-civil computation) does not give the value that went in / the validity rule of the `time`
//! crate (month 1-12, day within the month, year <= 9999, 24/60/60/1000) is not the one applied.

use crate::common::*;
use minidump::*;

pub enum TimeCase {
    T(u32),
    St([u16; 7]),
}

pub fn parse(case: &str) -> Option<TimeCase> {
    let f: Vec<&str> = case.split(' ').filter(|s| !s.is_empty()).collect();
    if f.len() < 3 || f[0] != "read" || f[1] != "time" {
        return None;
    }
    match (f[2], f.len()) {
        ("t", 4) => Some(TimeCase::T(f[3].parse().ok()?)),
        ("st", 10) => {
            let mut v = [0u16; 7];
            for i in 0..7 {
                v[i] = f[3 + i].parse().ok()?;
            }
            Some(TimeCase::St(v))
        }
        _ => None,
    }
}

pub fn is_time_case(case: &str) -> bool {
    case.starts_with("read time ")
}

pub fn model_request(tc: &TimeCase) -> String {
    match tc {
        TimeCase::T(n) => format!("read timefmt t {n}"),
        TimeCase::St(v) => format!("read timefmt st {} {} {} {} {} {} {}", v[0], v[1], v[2], v[3], v[4], v[5], v[6]),
    }
}

fn is_leap(y: i64) -> bool {
    y % 4 == 0 && (y % 100 != 0 || y % 400 == 0)
}
fn dim(y: i64, m: i64) -> i64 {
    match m {
        2 => if is_leap(y) { 29 } else { 28 },
        4 | 6 | 9 | 11 => 30,
        _ => 31,
    }
}
/// Days since 1970-01-01 by counting (independent of the era algorithm of the model).
fn days_by_counting(y: i64, m: i64, d: i64) -> i64 {
    let mut days = 0i64;
    for yy in 1970..y {
        days += if is_leap(yy) { 366 } else { 365 };
    }
    for mm in 1..m {
        days += dim(y, mm);
    }
    days + d - 1
}

fn first_second(y: i64, m: i64, d: i64) -> i64 {
    days_by_counting(y, m, d) * 86400
}

pub fn generate(quick: bool, rng: &mut Rng, emit: &mut dyn FnMut(String)) {
    let mut ts: Vec<i64> = vec![0, 1, 59, 60, 61, 3599, 3600, 86399, 86400, 86401, (1 << 31) - 1, 1 << 31, (1 << 31) + 1, (1i64 << 32) - 2, (1i64 << 32) - 1,
        951782400, 951782399, 951868799, 951868800, 68169600, 68255999, 68256000, 4107542400, 4107456000, 4107542399];
    for y in 1970..=2106i64 {
        let every_month = matches!(y, 1970..=1973 | 1999..=2001 | 2004 | 2023 | 2024 | 2037..=2039 | 2096 | 2099..=2101 | 2104..=2106);
        for m in 1..=12i64 {
            if every_month || m <= 3 || m == 12 {
                let a = first_second(y, m, 1);
                ts.extend_from_slice(&[a - 1, a, a + 1]);
                if m == 2 {
                    let b = first_second(y, 2, 28);
                    ts.extend_from_slice(&[b - 1, b, b + 86399, b + 86400, b + 2 * 86400 - 1, b + 2 * 86400]);
                }
            }
        }
    }
    for t in ts {
        if (0..=u32::MAX as i64).contains(&t) {
            emit(format!("read time t {t}"));
        }
    }
    for _ in 0..(if quick { 3000 } else { 30000 }) {
        let t = match rng.below(4) {
            0 => rng.below(1 << 31),
            1 => rng.below(1 << 32),
            2 => (rng.below(49711) * 86400 + *rng.pick(&[0u64, 1, 86399, 43200])).min(u32::MAX as u64),
            _ => 1_600_000_000 + rng.below(300_000_000),
        };
        emit(format!("read time t {t}"));
    }
    // SYSTEMTIME: every combination of the boundary years / months / days with a few times of day
    let years = [0u16, 1, 4, 100, 400, 1600, 1900, 1970, 2000, 2023, 2024, 2100, 9999, 10000, 32768, 65535];
    let months = [0u16, 1, 2, 3, 4, 11, 12, 13, 255, 256, 257, 258, 268, 65535];
    let days = [0u16, 1, 28, 29, 30, 31, 32, 255, 256, 257, 284, 285, 286, 287, 65535];
    let tods: [[u16; 4]; 12] = [[0, 0, 0, 0], [23, 59, 59, 999], [24, 0, 0, 0], [0, 60, 0, 0], [0, 0, 60, 0], [0, 0, 0, 1000], [12, 30, 30, 500],
        [1, 2, 3, 120], [1, 2, 3, 7], [256, 256, 256, 0], [279, 315, 315, 65535], [9, 9, 9, 10]];
    for &y in &years {
        for &m in &months {
            for &d in &days {
                let k = if quick { 2 } else { 12 };
                for i in 0..k {
                    let t = if quick { *rng.pick(&tods) } else { tods[i] };
                    emit(format!("read time st {y} {m} {d} {} {} {} {}", t[0], t[1], t[2], t[3]));
                }
            }
        }
    }
    for t in &tods {
        emit(format!("read time st 2024 2 29 {} {} {} {}", t[0], t[1], t[2], t[3]));
    }
    for ms in 0..=1000u16 {
        emit(format!("read time st 2001 9 9 1 46 40 {ms}"));
    }
    for _ in 0..(if quick { 2000 } else { 20000 }) {
        let mostly = |rng: &mut Rng, lo: u64, hi: u64| -> u16 {
            match rng.below(12) {
                0 => rng.below(65536) as u16,
                1 => (rng.range(lo, hi) + 256 * rng.below(3)) as u16,
                2 => (hi + 1) as u16,
                _ => rng.range(lo, hi) as u16,
            }
        };
        let y = match rng.below(6) { 0 => rng.below(65536) as u16, 1 => rng.below(10001) as u16, _ => rng.range(1890, 2110) as u16 };
        let v = [y, mostly(rng, 1, 12), mostly(rng, 1, 31), mostly(rng, 0, 23), mostly(rng, 0, 59), mostly(rng, 0, 59), mostly(rng, 0, 999)];
        emit(format!("read time st {} {} {} {} {} {} {}", v[0], v[1], v[2], v[3], v[4], v[5], v[6]));
    }
}

/// header (32) + one directory entry (12) + MINIDUMP_MISC_INFO_3 (232), little endian
fn build(n: u32, st: &[u16; 7]) -> Vec<u8> {
    let mut b = Vec::with_capacity(276);
    let p32 = |b: &mut Vec<u8>, v: u32| b.extend_from_slice(&v.to_le_bytes());
    p32(&mut b, 0x504d444d);
    p32(&mut b, 0x0000a793);
    p32(&mut b, 1);
    p32(&mut b, 32);
    p32(&mut b, 0);
    p32(&mut b, n);
    b.extend_from_slice(&[0u8; 8]);
    p32(&mut b, 15); // MiscInfoStream
    p32(&mut b, 232);
    p32(&mut b, 44);
    let mut m = vec![0u8; 232];
    m[0..4].copy_from_slice(&232u32.to_le_bytes());
    m[4..8].copy_from_slice(&(0x2u32 | 0x40).to_le_bytes()); // PROCESS_TIMES | TIMEZONE
    m[12..16].copy_from_slice(&n.to_le_bytes());
    // SYSTEMTIME: year, month, day_of_week, day, hour, minute, second, milliseconds
    let sys = [st[0], st[1], 0, st[2], st[3], st[4], st[5], st[6]];
    for at in [128usize, 212] {
        for (i, v) in sys.iter().enumerate() {
            m[at + 2 * i..at + 2 * i + 2].copy_from_slice(&v.to_le_bytes());
        }
    }
    b.extend_from_slice(&m);
    b
}

fn field_after<'a>(text: &'a str, key: &str) -> Option<&'a str> {
    for l in text.lines() {
        if let Some(r) = l.strip_prefix(key) {
            return Some(r);
        }
    }
    None
}

struct Printed {
    header: String,
    create: String,
    standard: String,
    daylight: String,
}

fn run(n: u32, st: &[u16; 7]) -> Result<Printed, String> {
    let bytes = build(n, st);
    let dump = Minidump::read(bytes).map_err(|e| format!("read: {e}"))?;
    let mut h = Vec::new();
    dump.print(&mut h).map_err(|e| format!("print: {e}"))?;
    let h = String::from_utf8(h).map_err(|_| "header print not utf-8".to_string())?;
    let misc = dump.get_stream::<MinidumpMiscInfo>().map_err(|e| format!("misc: {e}"))?;
    let mut m = Vec::new();
    misc.print(&mut m).map_err(|e| format!("print: {e}"))?;
    let m = String::from_utf8(m).map_err(|_| "misc print not utf-8".to_string())?;
    // `{:#x} {}`: the text follows the first blank after the hex number
    let after_hex = |s: &str| -> Option<String> { s.split_once(' ').map(|(_, r)| r.to_string()) };
    Ok(Printed {
        header: field_after(&h, "  time_date_stamp      = ").and_then(after_hex).ok_or("no time_date_stamp line")?,
        create: field_after(&m, "  process_create_time          = ").and_then(after_hex).ok_or("no process_create_time line")?,
        standard: field_after(&m, "    standard_date = ").ok_or("no standard_date line")?.to_string(),
        daylight: field_after(&m, "    daylight_date = ").ok_or("no daylight_date line")?.to_string(),
    })
}

/// `YYYY-MM-DDTHH:MM:SS[.f{1,3}]Z` → (y, mo, d, h, mi, s, fraction digits)
fn read_back(s: &str) -> Option<([i64; 6], String)> {
    let b = s.as_bytes();
    if b.len() < 20 || !s.is_ascii() {
        return None;
    }
    let num = |r: std::ops::Range<usize>| -> Option<i64> {
        if b[r.clone()].iter().all(|c| c.is_ascii_digit()) { s[r].parse().ok() } else { None }
    };
    if b[4] != b'-' || b[7] != b'-' || b[10] != b'T' || b[13] != b':' || b[16] != b':' || b[b.len() - 1] != b'Z' {
        return None;
    }
    let f = [num(0..4)?, num(5..7)?, num(8..10)?, num(11..13)?, num(14..16)?, num(17..19)?];
    let frac = if b.len() == 20 {
        String::new()
    } else {
        if b[19] != b'.' || b.len() > 24 || b.len() < 22 {
            return None;
        }
        let fr = &s[20..b.len() - 1];
        if !fr.bytes().all(|c| c.is_ascii_digit()) || fr.ends_with('0') {
            return None;
        }
        fr.to_string()
    };
    Some((f, frac))
}

pub fn exec(tc: &TimeCase) -> ImplResult {
    let mut res = ImplResult::default();
    let differs = |res: &mut ImplResult, d: String| res.oracle.push(("time-format-differs".into(), d));
    let shown = |s: &str| if s.is_empty() { "-".to_string() } else { s.to_string() };
    match tc {
        TimeCase::T(n) => {
            res.tags.push("cat=time-t".into());
            match catch(|| run(*n, &[0; 7])) {
                Err(p) => {
                    res.out = format!("PANIC: {p}");
                    res.oracle.push(("panic".into(), p));
                }
                Ok(Err(e)) => {
                    res.out = format!("ERR {e}");
                    res.oracle.push(("time-harness".into(), e));
                }
                Ok(Ok(p)) => {
                    res.out = format!("time={}", shown(&p.header));
                    res.nontrivial = true;
                    if p.header != p.create {
                        differs(&mut res, format!("header `{}` vs misc info `{}`", p.header, p.create));
                    }
                    match read_back(&p.header) {
                        Some((f, frac)) if frac.is_empty() => {
                            let back = days_by_counting(f[0], f[1], f[2]) * 86400 + f[3] * 3600 + f[4] * 60 + f[5];
                            let valid = (1..=12).contains(&f[1]) && f[2] >= 1 && f[2] <= dim(f[0], f[1]) && f[3] < 24 && f[4] < 60 && f[5] < 60;
                            if back != *n as i64 || !valid {
                                differs(&mut res, format!("{n} printed as `{}`, which reads back as {back}", p.header));
                            }
                            res.tags.push(format!("year-{}x", f[0] / 10));
                        }
                        _ => differs(&mut res, format!("{n} printed as `{}`: not YYYY-MM-DDTHH:MM:SSZ", p.header)),
                    }
                }
            }
        }
        TimeCase::St(v) => {
            res.tags.push("cat=time-st".into());
            match catch(|| run(0, v)) {
                Err(p) => {
                    res.out = format!("PANIC: {p}");
                    res.oracle.push(("panic".into(), p));
                }
                Ok(Err(e)) => {
                    res.out = format!("ERR {e}");
                    res.oracle.push(("time-harness".into(), e));
                }
                Ok(Ok(p)) => {
                    res.out = format!("time={}", shown(&p.standard));
                    res.nontrivial = true;
                    if p.standard != p.daylight {
                        differs(&mut res, format!("standard `{}` vs daylight `{}`", p.standard, p.daylight));
                    }
                    // the casts of the code: month/day/hour/minute/second `as u8`
                    let (y, mo, d, h, mi, s, ms) = (v[0] as i64, (v[1] as u8) as i64, (v[2] as u8) as i64, (v[3] as u8) as i64, (v[4] as u8) as i64, (v[5] as u8) as i64, v[6] as i64);
                    let valid = (1..=12).contains(&mo) && y <= 9999 && d >= 1 && d <= dim(y, mo) && h < 24 && mi < 60 && s < 60 && ms < 1000;
                    if p.standard == "<invalid date>" {
                        res.tags.push("time-invalid".into());
                        if valid {
                            differs(&mut res, format!("{v:?} is a valid date, printed as <invalid date>"));
                        }
                    } else {
                        res.tags.push(if v[1] > 255 || v[2] > 255 || v[3] > 255 || v[4] > 255 || v[5] > 255 { "time-valid-truncated" } else { "time-valid" }.into());
                        match read_back(&p.standard) {
                            Some((f, frac)) => {
                                let want_frac = if ms == 0 { String::new() } else { format!("{ms:03}").trim_end_matches('0').to_string() };
                                if !valid || f != [y, mo, d, h, mi, s] || frac != want_frac {
                                    differs(&mut res, format!("{v:?} printed as `{}`", p.standard));
                                }
                                res.tags.push(format!("frac-{}", frac.len()));
                            }
                            None => differs(&mut res, format!("{v:?} printed as `{}`: not RFC 3339", p.standard)),
                        }
                    }
                }
            }
        }
    }
    res
}
