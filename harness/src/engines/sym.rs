//! Engine `sym` (C09, C10): the streaming Breakpad symbol-file parser of the repository
//! (`SymbolFile::from_bytes`, `SymbolFile::parse(chunking reader, recording callback)`) against the
//! Lean model `MdModel.SymParse` / `MdModel.Stream`, plus the two properties' own oracles evaluated
//! on the implementation alone.
//!
//! case line:  `sym parse <input> sched:<whole | item,item,..>`
//!             <input> = `.`-separated segments: plain hex, or `XX*N` (byte XX repeated N times); `-` = empty
//!             item = `n` (one read of n bytes) | `n*k` (k reads of n bytes) | `n~` (n bytes for ever);
//!             after the schedule is exhausted every read fills the space it is given.
//! answer:     `ok <canonical SymbolFile> cb:<fnv64>:<len>:<calls>` | `err <kind> <line> cb:..` | `PANIC`

use crate::common::*;
use breakpad_symbols::fuzzing_private_exports::WinStackThing;
use breakpad_symbols::{SymbolError, SymbolFile};
use std::fmt::Write as _;
use std::io::Read;

pub struct Sym;

/// the property text's thresholds (C10: "lines shorter than 80 KiB"; C09: "fixed-size window")
const HALF: usize = 80 * 1024;
const MAXCAP: usize = 160 * 1024;

// ------------------------------------------------------------------------------------------- case

fn parse_case(case: &str) -> Option<(Vec<u8>, String)> {
    let f: Vec<&str> = case.split(' ').filter(|s| !s.is_empty()).collect();
    if f.len() != 4 || f[0] != "sym" || f[1] != "parse" {
        return None;
    }
    let input = decode_input(f[2])?;
    let sched = f[3].strip_prefix("sched:")?.to_string();
    Some((input, sched))
}

/// input encoding: `.`-separated segments, each plain hex or `XX*N` (byte XX, N times); `-` = empty
fn decode_input(s: &str) -> Option<Vec<u8>> {
    if s == "-" {
        return Some(vec![]);
    }
    let mut out = vec![];
    for seg in s.split('.') {
        if let Some((x, n)) = seg.split_once('*') {
            let b = unhex(x)?;
            if b.len() != 1 {
                return None;
            }
            let n: usize = n.parse().ok()?;
            out.extend(std::iter::repeat(b[0]).take(n));
        } else {
            out.extend(unhex(seg)?);
        }
    }
    Some(out)
}

fn encode_input(input: &[u8]) -> String {
    if input.is_empty() {
        return "-".into();
    }
    let mut segs: Vec<String> = vec![];
    let mut plain = String::new();
    let mut i = 0;
    while i < input.len() {
        let b = input[i];
        let mut j = i;
        while j < input.len() && input[j] == b {
            j += 1;
        }
        if j - i >= 24 {
            if !plain.is_empty() {
                segs.push(std::mem::take(&mut plain));
            }
            segs.push(format!("{:02x}*{}", b, j - i));
        } else {
            for _ in i..j {
                let _ = write!(plain, "{:02x}", b);
            }
        }
        i = j;
    }
    if !plain.is_empty() {
        segs.push(plain);
    }
    segs.join(".")
}

fn render(input: &[u8], sched: &str) -> String {
    format!("sym parse {} sched:{}", encode_input(input), sched)
}

/// mirror of `MdModel.Sym.parseSched`
fn expand_sched(spec: &str, input_len: usize) -> Option<Vec<usize>> {
    if spec == "whole" {
        return Some(vec![]);
    }
    let mut out = vec![];
    for item in spec.split(',').filter(|s| !s.is_empty()) {
        if let Some(n) = item.strip_suffix('~') {
            let n: usize = n.parse().ok()?;
            out.extend(std::iter::repeat(n).take(input_len + 8));
        } else if let Some((n, k)) = item.split_once('*') {
            let n: usize = n.parse().ok()?;
            let k: usize = k.parse().ok()?;
            out.extend(std::iter::repeat(n).take(k));
        } else {
            out.push(item.parse().ok()?);
        }
    }
    Some(out)
}

/// A reader that follows the schedule: the i-th successful read returns
/// `min(max(n_i,1), buf.len(), remaining)`; afterwards it fills the buffer it is given; it returns 0
/// only for an empty buffer or at end of input (the contract of `Read`).
struct ChunkReader<'a> {
    data: &'a [u8],
    pos: usize,
    sched: Vec<usize>,
    idx: usize,
}
impl Read for ChunkReader<'_> {
    fn read(&mut self, buf: &mut [u8]) -> std::io::Result<usize> {
        let remaining = self.data.len() - self.pos;
        if buf.is_empty() || remaining == 0 {
            return Ok(0);
        }
        let want = if self.idx < self.sched.len() {
            let k = self.sched[self.idx];
            self.idx += 1;
            k.max(1)
        } else {
            usize::MAX
        };
        let n = want.min(buf.len()).min(remaining);
        buf[..n].copy_from_slice(&self.data[self.pos..self.pos + n]);
        self.pos += n;
        Ok(n)
    }
}

// ----------------------------------------------------------------------------------- canonical dump

fn dump(f: &SymbolFile) -> String {
    let mut s = String::new();
    let hx = |t: &str| hex(t.as_bytes());
    let _ = write!(s, "mod={},{};files:", hx(&f.module_id), hx(&f.debug_file));
    let mut files: Vec<_> = f.files.iter().collect();
    files.sort();
    s.push_str(&files.iter().map(|(k, v)| format!("{k}={}", hx(v))).collect::<Vec<_>>().join(","));
    s.push_str(";origins:");
    let mut origins: Vec<_> = f.inline_origins.iter().collect();
    origins.sort();
    s.push_str(&origins.iter().map(|(k, v)| format!("{k}={}", hx(v))).collect::<Vec<_>>().join(","));
    s.push_str(";pub:");
    s.push_str(
        &f.publics
            .iter()
            .map(|p| format!("{}/{}/{}", p.address, p.parameter_size, hx(&p.name)))
            .collect::<Vec<_>>()
            .join(","),
    );
    s.push_str(";func:");
    let mut first = true;
    for (r, func) in f.functions.ranges_values() {
        if !first {
            s.push(';');
        }
        first = false;
        let _ = write!(
            s,
            "{}-{} {} {} {} {} L[",
            r.start, r.end, func.address, func.size, func.parameter_size, hx(&func.name)
        );
        s.push_str(
            &func
                .lines
                .ranges_values()
                .map(|(r, l)| format!("{}-{} {} {} {} {}", r.start, r.end, l.address, l.size, l.file, l.line))
                .collect::<Vec<_>>()
                .join(","),
        );
        s.push_str("] I[");
        s.push_str(
            &func
                .inlinees
                .iter()
                .map(|i| format!("{} {} {} {} {} {}", i.depth, i.address, i.size, i.call_file, i.call_line, i.origin_id))
                .collect::<Vec<_>>()
                .join(","),
        );
        s.push(']');
    }
    s.push_str(";cfi:");
    s.push_str(
        &f.cfi_stack_info
            .ranges_values()
            .map(|(r, c)| {
                format!(
                    "{}-{} {} {} {} A[{}]",
                    r.start,
                    r.end,
                    c.init.address,
                    c.size,
                    hx(&c.init.rules),
                    c.add_rules.iter().map(|a| format!("{}:{}", a.address, hx(&a.rules))).collect::<Vec<_>>().join(",")
                )
            })
            .collect::<Vec<_>>()
            .join(";"),
    );
    for (label, table) in [(";wfd:", &f.win_stack_framedata_info), (";wfpo:", &f.win_stack_fpo_info)] {
        s.push_str(label);
        s.push_str(
            &table
                .ranges_values()
                .map(|(r, w)| {
                    let t = match &w.program_string_or_base_pointer {
                        WinStackThing::ProgramString(p) => format!("P{}", hx(p)),
                        WinStackThing::AllocatesBasePointer(b) => (if *b { "B1" } else { "B0" }).to_string(),
                    };
                    format!(
                        "{}-{} {} {} {} {} {} {} {} {} {}",
                        r.start,
                        r.end,
                        w.address,
                        w.size,
                        w.prologue_size,
                        w.epilogue_size,
                        w.parameter_size,
                        w.saved_register_size,
                        w.local_size,
                        w.max_stack_size,
                        t
                    )
                })
                .collect::<Vec<_>>()
                .join(";"),
        );
    }
    s.push_str(";url=");
    match &f.url {
        Some(u) => s.push_str(&hx(u)),
        None => s.push_str("none"),
    }
    s
}

fn shorten(d: &str) -> String {
    if d.len() <= 1500 {
        d.to_string()
    } else {
        format!("#{:x}:{}", fnv64(d.as_bytes()), d.len())
    }
}

/// outcome of one parse as the protocol prints it (without the callback part)
#[derive(Clone, PartialEq, Debug)]
enum Outc {
    Ok(String),
    Err(u32, u64),
    Panic(String),
}

fn outcome_of(r: Result<Result<SymbolFile, SymbolError>, String>) -> Outc {
    match r {
        Err(p) => Outc::Panic(p),
        Ok(Ok(f)) => match catch(|| dump(&f)) {
            Ok(d) => Outc::Ok(d),
            Err(p) => Outc::Panic(p),
        },
        Ok(Err(SymbolError::ParseError(msg, line))) => {
            let kind = if msg.starts_with("failed to parse file") {
                1
            } else if msg.starts_with("MODULE line found after") {
                2
            } else if msg.starts_with("empty SymbolFile") {
                3
            } else if msg.starts_with("unexpected EOF") {
                4
            } else {
                99
            };
            Outc::Err(kind, line)
        }
        Ok(Err(_)) => Outc::Err(98, 0),
    }
}

fn show(o: &Outc) -> String {
    match o {
        Outc::Ok(d) => format!("ok {}", shorten(d)),
        Outc::Err(k, l) => format!("err {k} {l}"),
        Outc::Panic(_) => "PANIC".to_string(),
    }
}

fn run_whole(input: &[u8]) -> Outc {
    outcome_of(catch(|| SymbolFile::from_bytes(input)))
}

/// (outcome, concatenated callback bytes, number of callback calls)
fn run_sched(input: &[u8], sched: Vec<usize>) -> (Outc, Vec<u8>, usize) {
    let mut cb: Vec<u8> = Vec::new();
    let mut calls = 0usize;
    let r = catch(|| {
        let reader = ChunkReader { data: input, pos: 0, sched, idx: 0 };
        SymbolFile::parse(reader, |b: &[u8]| {
            cb.extend_from_slice(b);
            calls += 1;
        })
    });
    (outcome_of(r), cb, calls)
}

/// lengths (without the terminator) of all lines, the unterminated tail included
fn line_lengths(input: &[u8]) -> Vec<usize> {
    input.split(|b| *b == b'\n').map(|l| l.len()).collect()
}

/// same table, or an error in both (C10's reading of "the same outcome")
fn same_outcome(a: &Outc, b: &Outc) -> bool {
    match (a, b) {
        (Outc::Ok(x), Outc::Ok(y)) => x == y,
        (Outc::Err(..), Outc::Err(..)) => true,
        _ => false,
    }
}

// -------------------------------------------------------------------------------------- generator

struct Gen<'a> {
    r: &'a mut Rng,
    /// allow fields that make the whole file a parse error
    poison: bool,
    eol: u8, // 0 = \n, 1 = \r\n, 2 = mixed incl. \r\r\n
    tabs: bool,
    /// (address, size) of the previous record of each range-table kind (0 FUNC, 1 line, 2 STACK WIN,
    /// 3 STACK CFI INIT): a quarter of the records are placed relative to their predecessor in the
    /// same table (identical, nested, overlapping in exactly one byte, adjacent, one byte apart)
    near: [Option<(u64, u64)>; 4],
}

impl Gen<'_> {
    fn sp(&mut self) -> &'static str {
        if self.tabs {
            *self.r.pick(&[" ", "\t", "  ", " \t "])
        } else if self.r.chance(1, 30) {
            "  "
        } else {
            " "
        }
    }
    fn eol(&mut self) -> &'static str {
        match self.eol {
            0 => "\n",
            1 => "\r\n",
            _ => *self.r.pick(&["\n", "\r\n", "\r\r\n", "\n"]),
        }
    }
    fn hex64(&mut self) -> String {
        match self.r.below(16) {
            0 => "0".into(),
            1 => "ffffffffffffffff".into(),
            2 => "FFFFFFFFFFFFFFF0".into(),
            3 if self.poison => "10000000000000000".into(), // 17 digits
            4 => format!("{:x}", self.r.below(8) * 16),
            5 => format!("{:016x}", self.r.below(1 << 20)),
            6 => format!("{:x}", u64::MAX - self.r.below(64)),
            _ => format!("{:x}", self.r.below(1 << 16)),
        }
    }
    /// address and size fields of a record that goes into range table `kind`
    fn addr_size(&mut self, kind: usize) -> (String, String) {
        if let Some((a, sz)) = self.near[kind] {
            if self.r.chance(1, 4) {
                let end = a.wrapping_add(sz); // first byte after the predecessor
                let na = match self.r.below(7) {
                    0 => a,
                    1 => a.wrapping_add(1),
                    2 | 3 => end.wrapping_sub(1), // shares exactly the predecessor's last byte
                    4 => end,                     // adjacent
                    5 => end.wrapping_add(1),
                    _ => a.wrapping_sub(self.r.below(3)),
                };
                let ns = match self.r.below(5) {
                    0 => sz,
                    1 => 1,
                    2 => a.wrapping_sub(na).wrapping_add(1) & 0xffff, // ends on the predecessor's first byte
                    _ => 1 + self.r.below(0x20),
                };
                self.near[kind] = Some((na, ns));
                return (format!("{na:x}"), format!("{ns:x}"));
            }
        }
        let (a, s) = (self.hex64(), self.hex32());
        if a.len() <= 16 {
            if let (Ok(av), Ok(sv)) = (u64::from_str_radix(&a, 16), u64::from_str_radix(&s, 16)) {
                self.near[kind] = Some((av, sv));
            }
        }
        (a, s)
    }
    fn hex32(&mut self) -> String {
        match self.r.below(16) {
            0 => "0".into(),
            1 => "ffffffff".into(),
            2 if self.poison => "100000000".into(), // 9 digits
            3 => "1".into(),
            4 => format!("{:08X}", self.r.below(256)),
            _ => format!("{:x}", self.r.below(200)),
        }
    }
    fn dec32(&mut self) -> String {
        match self.r.below(16) {
            0 => "0".into(),
            1 => "4294967295".into(),
            2 if self.poison => "4294967296".into(),
            3 if self.poison => "99999999999".into(), // 11 digits
            4 => "0000000001".into(),
            _ => format!("{}", self.r.below(50)),
        }
    }
    fn name(&mut self, out: &mut Vec<u8>) {
        match self.r.below(20) {
            0 => {}
            1 => out.extend_from_slice("naïve::fn<λ> 函数 🦀".as_bytes()),
            2 if self.poison => out.extend_from_slice(b"bad\xff\xfename"),
            3 if self.poison => out.extend_from_slice(b"\xc0\xafoverlong"),
            4 if self.poison => out.extend_from_slice(b"sur\xed\xa0\x80rogate"),
            5 => out.extend_from_slice(b"\xf4\x8f\xbf\xbf max scalar \xf0\x90\x80\x80"),
            6 if self.poison => out.extend_from_slice(b"cr\rinside"),
            7 => out.extend_from_slice(b"std::vector<int, std::allocator<int> >::push_back(int const&)"),
            8 => out.extend_from_slice(b" leading and trailing "),
            _ => {
                let n = self.r.range(1, 12);
                for _ in 0..n {
                    out.push(b'a' + self.r.below(26) as u8);
                }
            }
        }
    }
    fn line(&mut self, out: &mut Vec<u8>, parts: &[&str]) {
        for (i, p) in parts.iter().enumerate() {
            if i > 0 {
                let s = self.sp();
                out.extend_from_slice(s.as_bytes());
            }
            out.extend_from_slice(p.as_bytes());
        }
    }
    fn named(&mut self, out: &mut Vec<u8>, parts: &[&str], pad: usize) {
        self.line(out, parts);
        let s = self.sp();
        out.extend_from_slice(s.as_bytes());
        self.name(out);
        for _ in 0..pad {
            out.push(b'x');
        }
        let e = self.eol();
        out.extend_from_slice(e.as_bytes());
    }

    /// one record (possibly several lines); `pad` lengthens its name field
    fn record(&mut self, out: &mut Vec<u8>, pad: usize) {
        match self.r.below(24) {
            0 => self.named(out, &["INFO", "CODE_ID"], pad),
            1 => self.named(out, &["INFO URL"], pad),
            2 => self.named(out, &["INFO", "URLx"], pad),
            3 | 4 => {
                let id = self.dec32();
                self.named(out, &["FILE", &id], pad)
            }
            5 => {
                let id = self.dec32();
                self.named(out, &["INLINE_ORIGIN", &id], pad)
            }
            6 | 7 | 8 => {
                let (a, p) = (self.hex64(), self.hex32());
                if self.r.chance(1, 4) {
                    self.named(out, &["PUBLIC", "m", &a, &p], pad)
                } else {
                    self.named(out, &["PUBLIC", &a, &p], pad)
                }
            }
            9..=13 => {
                let ((a, s), p) = (self.addr_size(0), self.hex32());
                if self.r.chance(1, 5) {
                    self.named(out, &["FUNC", "m", &a, &s, &p], pad)
                } else {
                    self.named(out, &["FUNC", &a, &s, &p], pad)
                }
                let n = self.r.below(6);
                for _ in 0..n {
                    match self.r.below(8) {
                        0 => {
                            let id = self.dec32();
                            // sub-line form needs exactly one space after the keyword
                            out.extend_from_slice(b"INLINE_ORIGIN ");
                            out.extend_from_slice(id.as_bytes());
                            out.push(b' ');
                            self.name(out);
                            let e = self.eol();
                            out.extend_from_slice(e.as_bytes());
                        }
                        1 | 2 => {
                            let (d, cl, cf, o) = (self.dec32(), self.dec32(), self.dec32(), self.dec32());
                            let mut parts: Vec<String> = vec!["INLINE".into(), d, cl, cf, o];
                            for _ in 0..self.r.range(1, 3) {
                                parts.push(self.hex64());
                                parts.push(self.hex32());
                            }
                            let refs: Vec<&str> = parts.iter().map(|s| s.as_str()).collect();
                            self.line(out, &refs);
                            if self.poison && self.r.chance(1, 10) {
                                out.push(b' ');
                            }
                            let e = self.eol();
                            out.extend_from_slice(e.as_bytes());
                        }
                        3 => {
                            let e = self.eol();
                            out.extend_from_slice(e.as_bytes()); // blank line ends the FUNC
                        }
                        _ => {
                            let ((a, s), l, f) = (self.addr_size(1), self.dec32(), self.dec32());
                            self.line(out, &[&a, &s, &l, &f]);
                            let e = self.eol();
                            out.extend_from_slice(e.as_bytes());
                        }
                    }
                }
            }
            14 | 15 | 16 => {
                let ty = *self.r.pick(&["4", "0", "4", "0", "1", "a"]);
                let hp = match ty {
                    "4" => *self.r.pick(&["1", "1", "1", "0"]),
                    "0" => *self.r.pick(&["0", "0", "0", "1"]),
                    _ => *self.r.pick(&["0", "1", "7"]),
                };
                let (a, sz) = self.addr_size(2);
                let mut f: Vec<String> = vec![sz];
                f.extend((0..6).map(|_| self.hex32()));
                let mut parts = vec!["STACK WIN", ty, &a];
                parts.extend(f.iter().map(|s| s.as_str()));
                parts.push(hp);
                let mut tmp = Vec::new();
                self.line(&mut tmp, &parts);
                out.extend_from_slice(&tmp);
                let s = self.sp();
                out.extend_from_slice(s.as_bytes());
                if ty == "0" && self.r.chance(1, 2) {
                    out.extend_from_slice(if self.r.chance(1, 2) { b"1" } else { b"0" });
                } else {
                    out.extend_from_slice(b"$T0 .raSearch = $eip $T0 ^ = $esp $T0 4 + =");
                    for _ in 0..pad {
                        out.push(b'x');
                    }
                }
                let e = self.eol();
                out.extend_from_slice(e.as_bytes());
            }
            17..=19 => {
                let (a, s) = self.addr_size(3);
                self.line(out, &["STACK CFI INIT", &a, &s, ".cfa: $esp 4 + .ra: .cfa 4 - ^"]);
                for _ in 0..pad {
                    out.push(b'y');
                }
                let e = self.eol();
                out.extend_from_slice(e.as_bytes());
                for _ in 0..self.r.below(4) {
                    let a = self.hex64();
                    self.line(out, &["STACK CFI", &a, ".cfa: $esp 8 +"]);
                    let e = self.eol();
                    out.extend_from_slice(e.as_bytes());
                }
            }
            20 => {
                let e = self.eol();
                out.extend_from_slice(e.as_bytes());
            }
            21 if self.poison => {
                let junk: &[&[u8]] = &[
                    b"STACK CFI 10 orphan rule",
                    b"INLINE 0 1 2 3 10 4",
                    b"garbage line",
                    b"FUNC",
                    b"FUNC 10",
                    b"PUBLIC zz 0 x",
                    b"MODULE Linux x86 abc late",
                    b"\rFILE 1 x",
                    b"FILE 1",
                    b"FILE  ",
                    b"STACK WIN 4 10 10 0 0 0 0 0 0 12 x",
                    b"STACK WIN 44 10 10 0 0 0 0 0 0 1 x",
                    b"10 10 1",
                    b"\0\0\0",
                ];
                let j = *self.r.pick(junk);
                out.extend_from_slice(j);
                let e = self.eol();
                out.extend_from_slice(e.as_bytes());
            }
            _ => {
                let (a, p) = (self.hex64(), self.hex32());
                self.named(out, &["PUBLIC", &a, &p], pad)
            }
        }
    }
}

struct FileOpts {
    target: usize,
    poison: bool,
    /// lengths of extra-long records to sprinkle in
    long: Vec<usize>,
    final_newline: bool,
}

fn gen_file(r: &mut Rng, o: &FileOpts) -> Vec<u8> {
    let eol = match r.below(6) {
        0 => 1,
        1 => 2,
        _ => 0,
    };
    let tabs = r.chance(1, 8);
    let mut g = Gen { r, poison: o.poison, eol, tabs, near: [None; 4] };
    let mut out = Vec::new();
    if !g.r.chance(1, 12) {
        let id = if g.r.chance(1, 6) { "0" } else { "D3096ED481217FD4C16B29CD9BC208BA0" };
        let os = *g.r.pick(&["Linux", "windows", "mac", "x"]);
        g.line(&mut out, &["MODULE", os, "x86_64", id]);
        let s = g.sp();
        out.extend_from_slice(s.as_bytes());
        out.extend_from_slice(b"firefox bin");
        let e = g.eol();
        out.extend_from_slice(e.as_bytes());
    }
    let mut longs = o.long.clone();
    // positions (in records) where the long ones go
    while out.len() < o.target || !longs.is_empty() {
        if !longs.is_empty() && (out.len() >= o.target || g.r.chance(1, 6)) {
            let l = longs.remove(0);
            g.record(&mut out, l);
        } else {
            g.record(&mut out, 0);
        }
        if out.len() > o.target + 4_000_000 {
            break;
        }
    }
    if !o.final_newline {
        while matches!(out.last(), Some(b'\n') | Some(b'\r')) {
            out.pop();
        }
        if g.r.chance(1, 3) {
            out.extend_from_slice(b"\nPUBLIC 10 0 tail without newline");
        }
    }
    out
}

fn corrupt(r: &mut Rng, data: &mut Vec<u8>) {
    let n = r.range(1, 4);
    for _ in 0..n {
        if data.is_empty() {
            data.push(b'\n');
            continue;
        }
        let i = r.below(data.len() as u64) as usize;
        match r.below(8) {
            0 => data[i] = r.below(256) as u8,
            1 => data[i] ^= 1 << r.below(8),
            2 => {
                data.remove(i);
            }
            3 => data.insert(i, *r.pick(&[b'\n', b'\r', b' ', b'\t', 0u8, 0xffu8, b'0'])),
            4 => data[i] = b'\n',
            5 => data[i] = b'\r',
            6 => data.truncate(i),
            _ => data[i] = b' ',
        }
    }
}

/// Upper estimate of the model's work: (number of reads) × (window size)
fn cost(input: &[u8], sched: &str) -> u64 {
    let lens = line_lengths(input);
    let maxline = lens.iter().copied().max().unwrap_or(0).min(MAXCAP) as u64;
    let len = input.len() as u64;
    let min_chunk: u64 = if sched == "whole" {
        5000
    } else {
        sched
            .split(',')
            .filter_map(|it| it.trim_end_matches('~').split('*').next().and_then(|n| n.parse::<u64>().ok()))
            .min()
            .unwrap_or(5000)
            .clamp(1, 5000)
    };
    let reads = len / min_chunk + 20;
    reads * (maxline + min_chunk + 64)
}

fn random_sched(r: &mut Rng, len: usize) -> String {
    const T: [u64; 5] = [10240, 20480, 40960, 81920, 163840];
    match r.below(12) {
        0 => "whole".into(),
        1 => format!("{}~", r.range(1, 9)),
        2 => format!("{}~", r.range(10, 600)),
        3 => format!("{}~", r.range(600, 12000)),
        4 => {
            // around a threshold
            let t = *r.pick(&T);
            format!("{}~", (t + r.below(7)).saturating_sub(3).max(1))
        }
        5 => {
            let t = *r.pick(&T) / 2;
            format!("{}~", (t + r.below(7)).saturating_sub(3).max(1))
        }
        6 | 7 => {
            // random list then a constant
            let n = r.range(1, 12);
            let mut items: Vec<String> = (0..n)
                .map(|_| match r.below(4) {
                    0 => format!("{}", r.range(1, 16)),
                    1 => format!("{}", r.range(1, 3000)),
                    2 => format!("{}", *r.pick(&T) - 2 + r.below(5)),
                    _ => format!("{}*{}", r.range(1, 2000), r.range(1, 20)),
                })
                .collect();
            items.push(match r.below(3) {
                0 => "whole".into(),
                1 => format!("{}~", r.range(1, 64)),
                _ => format!("{}~", r.range(64, 20000)),
            });
            if items.last().map(|s| s == "whole").unwrap_or(false) {
                items.pop();
            }
            if items.is_empty() {
                "whole".into()
            } else {
                items.join(",")
            }
        }
        8 => {
            // a split at a random offset, then everything
            format!("{}", r.range(1, len.max(1) as u64))
        }
        9 => {
            // a few bytes at a time around a random offset (small files: exact position)
            let off = r.range(1, len.max(1) as u64);
            format!("{},1*{}", off, r.range(1, 8))
        }
        10 => format!("{},{}~", r.range(1, 10240), *r.pick(&[1u64, 2, 3, 5, 10240, 5120])),
        _ => format!("{}*{},{}~", r.range(1, 50), r.range(1, 200), r.range(1000, 11000)),
    }
}

const SMALL_FILES: &[&[u8]] = &[
    b"MODULE Linux x86 D3096ED481217FD4C16B29CD9BC208BA0 firefox-bin\nINFO blah\nFILE 0 foo.c\nFUNC 1000 30 10 some func\n1000 10 42 0\nINLINE 0 3 0 1 1000 8 1010 4\nINLINE_ORIGIN 1 inl\nPUBLIC m 2000 4 pub name\n",
    b"MODULE windows x86 abc f.pdb\r\nSTACK WIN 4 900 30 a 9 b 7 c 5 1 prog string\r\nSTACK WIN 0 1000 30 a1 91 b1 71 c1 51 0 1\r\nSTACK WIN 4 910 20 a 9 b 7 c 5 1 $T0\r\n",
    b"MODULE Linux x86 abc f\nSTACK CFI INIT f00 f0 init rules\nSTACK CFI f00 some rules\nSTACK CFI f04 more\nSTACK CFI INIT 2000 10 a\nFUNC 10 10 0 f\n10 4 1 1\n\n14 4 2 1\n",
    b"MODULE a\nb c d e\n",
    b"MODULE a b c d\nFILE 1 a\rb\n",
    b"MODULE a b c d\r\r\nFILE 1 a\r\r\n\r\n\nPUBLIC 1 0 x\r\n",
    b"FUNC 1 1 0 f\nINLINE_ORIGIN\t7 tabbed origin\nINLINE 0 1 1 7 1 1  \n",
    b"FUNC 1 1 0 f\nINLINE 0 1 1 7 1 1 2 1 zz\nPUBLIC 5 0 p\n",
    b"FUNC ffffffffffffffff 1 0 top\nffffffffffffffff 1 1 1\nffffffffffffffff 2 1 1\nFUNC fffffffffffffff0 10 0 top2\nFUNC fffffffffffffff0 11 0 ovf\nPUBLIC ffffffffffffffff ffffffff p\n",
    b"FILE 4294967295 max\nFILE 4294967296 toolarge\n",
    b"FILE 1 a\nFILE 1 b\nFILE 0 c\nINLINE_ORIGIN 0 x\nINLINE_ORIGIN 0 y\nPUBLIC 10 0 b\nPUBLIC 10 0 a\nPUBLIC 10 1 a\nPUBLIC 9 0 z\n",
    b"PUBLIC 10000000000000000 0 seventeen digits\n",
    b"PUBLIC 10 100000000 nine digits\n",
    b"INFO URL http://example.com/sym\nINFO URLx not a url\nINFO\nINFO \n",
    b"FUNC 10 20 0 a\n10 10 1 1\n18 10 2 1\n10 10 1 1\n30 0 3 1\nFUNC 10 20 0 a\nFUNC 18 20 0 b\nFUNC 40 8 0 c\nFUNC 40 8 0 c\n",
    b"STACK WIN 4 0 a 0 0 0 0 0 0 1 x\nSTACK WIN 4 1 9 0 0 0 0 0 0 1 y\nSTACK WIN 4 4 6 0 0 0 0 0 0 1 z\nSTACK WIN 4 4 6 0 0 0 0 0 0 1 z\nSTACK WIN 4 2 100 0 0 0 0 0 0 1 w\nSTACK WIN 4 10 0 0 0 0 0 0 0 1 empty\nSTACK WIN 4 5 5 0 0 0 0 0 0 0 inconsistent\n",
    b"STACK CFI 10 orphan\n",
    b"INLINE 0 1 2 3 10 4\n",
    b"\n\n\r\n",
    b"no newline at all",
    b"FILE 1 x\nFILE 2",
    b"FUNC 1 1 0 \xff\n",
    b"FUNC 1 1 0 f\n1 1 1 1\nFUNC 2 1 0 \xc3\n",
    b"STACK CFI INIT 10 10 r\nSTACK CFI 11 z\nSTACK CFI 11 a\nSTACK CFI 10 zz\nSTACK CFI INIT 10 10 r\nSTACK CFI INIT 18 10 s\nSTACK CFI INIT 0 0 zero\n",
];

// ----------------------------------------------------------------------------------------- engine

impl Engine for Sym {
    fn name(&self) -> &'static str {
        "sym"
    }
    fn rule(&self) -> String {
        "cases = (symbol-file bytes, reader chunk schedule): directed small files x EVERY single split point and 1/2/3-byte trickle; grammar-generated files with every record kind (numeric fields at 0/max/one digit too many, non-UTF-8 names, CR/LF variants, tabs, missing final newline), byte corruption, long lines around 10/20/40/80/160 KiB (thorough: up to 1 MiB) under random / threshold-straddling schedules. Compared with the Lean model: canonical SymbolFile dump (or its fnv64), error kind+line, callback bytes (fnv64, length, number of calls). Non-trivial: at least 3 lines and the parser got past line 0.".into()
    }
    fn exhaustive_part(&self) -> Option<String> {
        Some("every single split point (first read of k bytes, k = 1..len-1) of each directed small file (<= 300 B)".into())
    }

    fn generate(&self, tier: Tier, rng: &mut Rng, emit: &mut dyn FnMut(String)) {
        let thorough = tier == Tier::Thorough;
        let budget: u64 = if thorough { 400_000_000 } else { 40_000_000 };
        let emit_checked = |input: &[u8], sched: &str, emit: &mut dyn FnMut(String)| {
            if cost(input, sched) <= budget {
                emit(render(input, sched));
            } else {
                // fall back to a schedule that is always affordable
                emit(render(input, "whole"));
            }
        };
        // (A) directed small files: every split point, trickles
        let mut smalls: Vec<Vec<u8>> = SMALL_FILES.iter().map(|s| s.to_vec()).collect();
        for i in 0..(if thorough { 120 } else { 40 }) {
            let o = FileOpts { target: rng.range(20, 260) as usize, poison: i % 3 == 0, long: vec![], final_newline: i % 5 != 0 };
            let mut f = gen_file(rng, &o);
            if i % 4 == 0 {
                corrupt(rng, &mut f);
            }
            smalls.push(f);
        }
        for f in &smalls {
            emit(render(f, "whole"));
            for t in ["1~", "2~", "3~"] {
                emit(render(f, t));
            }
            if f.len() <= 300 || thorough {
                for k in 1..f.len() {
                    emit(render(f, &format!("{k}")));
                }
            }
        }
        // (B) grammar-generated medium files under random schedules
        let n_b = if thorough { 4000 } else { 700 };
        for i in 0..n_b {
            let target = match rng.below(10) {
                0..=4 => rng.range(100, 3000),
                5..=7 => rng.range(3000, 30000),
                8 => rng.range(30000, 120000),
                _ => rng.range(9000, 12000),
            } as usize;
            let o = FileOpts { target, poison: i % 4 == 0, long: vec![], final_newline: !rng.chance(1, 8) };
            let mut f = gen_file(rng, &o);
            if i % 5 == 0 {
                corrupt(rng, &mut f);
            }
            emit_checked(&f, "whole", emit);
            for _ in 0..2 {
                let s = random_sched(rng, f.len());
                emit_checked(&f, &s, emit);
            }
        }
        // (D) several 30-79 KiB lines (the capacity grows to 160 KiB, how far depends on where the
        //     lines sit in the window) followed by an UNTERMINATED tail: the end-of-input test must
        //     not depend on the chunking (F19)
        let n_d = if thorough { 300 } else { 60 };
        for _ in 0..n_d {
            let mut f: Vec<u8> = Vec::new();
            if rng.chance(1, 2) {
                f.extend_from_slice(b"MODULE Linux x86_64 D3096ED481217FD4C16B29CD9BC208BA0 firefox-bin\n");
            }
            let nl = rng.range(1, 5);
            for i in 0..nl {
                let l = rng.range(30_000, 79_900) as usize;
                if !thorough && f.len() + l > 195_000 {
                    break;
                }
                f.extend_from_slice(format!("PUBLIC {:x} 0 ", 0x1000 + i * 16).as_bytes());
                f.extend(std::iter::repeat(b'n').take(l));
                f.push(b'\n');
                for _ in 0..rng.below(3) {
                    f.extend_from_slice(format!("FILE {} short.c\n", rng.below(9)).as_bytes());
                }
            }
            match rng.below(6) {
                0 => {}
                1 | 4 | 5 => f.extend_from_slice(b"PUBLIC 99 0 tail-without-newline"),
                2 => f.extend_from_slice(b"FILE 3 t"),
                _ => f.extend_from_slice(b"garbage tail"),
            }
            emit_checked(&f, "whole", emit);
            for s in ["5000~", "10240~", "1000~", "163840~", "7000~"] {
                emit_checked(&f, s, emit);
            }
            let s = random_sched(rng, f.len());
            emit_checked(&f, &s, emit);
        }
        // (C) long lines around the buffer thresholds
        let n_c = if thorough { 500 } else { 70 };
        let cap_total: usize = if thorough { 2_200_000 } else { 200 * 1024 };
        for i in 0..n_c {
            let mut long = vec![];
            let mut total = 0usize;
            for _ in 0..rng.range(1, 3) {
                let t = *rng.pick(&[10240usize, 20480, 40960, 81920, 81920, 163840]);
                let l = match rng.below(8) {
                    0 => t.saturating_sub(rng.range(0, 80) as usize),
                    1 => t + rng.range(0, 80) as usize,
                    2 => t / 2 + rng.range(0, 2000) as usize,
                    3 => rng.range(60000, 81900) as usize,
                    4 => rng.range(5000, 60000) as usize,
                    5 if thorough => rng.range(200_000, 1_048_576) as usize,
                    6 => MAXCAP + rng.range(1, 5000) as usize,
                    _ => t.saturating_sub(rng.range(60, 400) as usize),
                };
                if total + l + 2000 > cap_total {
                    continue;
                }
                total += l;
                long.push(l);
            }
            let target = rng.range(200, (cap_total - total).min(30000) as u64) as usize;
            let o = FileOpts { target, poison: i % 7 == 0, long, final_newline: !rng.chance(1, 6) };
            let f = gen_file(rng, &o);
            emit_checked(&f, "whole", emit);
            for _ in 0..3 {
                let s = random_sched(rng, f.len());
                emit_checked(&f, &s, emit);
            }
        }
    }

    fn exec(&self, case: &str) -> ImplResult {
        let mut res = ImplResult::default();
        let Some((input, spec)) = parse_case(case) else {
            res.out = "bad-case".into();
            return res;
        };
        let Some(sched) = expand_sched(&spec, input.len()) else {
            res.out = "bad-case".into();
            return res;
        };
        let whole = run_whole(&input);
        let (streamed, cb, calls) = run_sched(&input, sched);
        res.out = match &streamed {
            Outc::Panic(_) => "PANIC".to_string(),
            o => format!("{} cb:{:x}:{}:{}", show(o), fnv64(&cb), cb.len(), calls),
        };

        // ---- the properties' own oracles, on the implementation alone.  The engine serves C09 and
        // C10; `./check` names the property under check in VERIF_PROP (unset: both).
        let prop = std::env::var("VERIF_PROP").unwrap_or_default();
        let (c09, c10) = (prop != "C10", prop != "C09");
        // C09: never panics (C10: a panic is neither a table nor an error)
        for (what, o) in [("from_bytes", &whole), ("parse(chunked)", &streamed)] {
            if let Outc::Panic(p) = o {
                res.oracle.push(("panic".into(), format!("{what} panicked: {p}")));
            }
        }
        // C10: callback bytes are a prefix of the input, and all of it on Ok
        if !c10 {
        } else if !input.starts_with(&cb) {
            let at = cb.iter().zip(input.iter()).position(|(a, b)| a != b).unwrap_or(input.len().min(cb.len()));
            res.oracle.push((
                "callback-not-prefix".into(),
                format!("callback bytes ({}) differ from the input ({}) at offset {at}", cb.len(), input.len()),
            ));
        } else if matches!(streamed, Outc::Ok(_)) && cb.len() != input.len() {
            res.oracle.push((
                "callback-incomplete-on-ok".into(),
                format!("parse returned Ok but the callback saw {} of {} bytes", cb.len(), input.len()),
            ));
        }
        let lens = line_lengths(&input);
        let maxline = lens.iter().copied().max().unwrap_or(0);
        // C10: lines shorter than 80 KiB => the chunking does not matter
        if c10 && maxline < HALF && !same_outcome(&whole, &streamed) {
            res.oracle.push((
                "chunk-dependent".into(),
                format!("longest line {maxline} B; from_bytes: {} ; chunked ({spec}): {}", show(&whole), show(&streamed)),
            ));
        }
        // C09: an over-long line is dropped as corrupt: the file parses like the file without it.
        // (asserted when the other lines are short, so that nothing else depends on the window)
        let n_long = lens.iter().filter(|l| **l > MAXCAP).count();
        if c09 && n_long > 0 && lens.iter().all(|l| *l > MAXCAP || *l < HALF) {
            let mut without: Vec<u8> = Vec::with_capacity(input.len());
            let mut first_long: Option<usize> = None;
            let pieces: Vec<&[u8]> = input.split(|b| *b == b'\n').collect();
            let last = pieces.len() - 1;
            for (i, l) in pieces.iter().enumerate() {
                if l.len() > MAXCAP {
                    first_long.get_or_insert(i);
                    continue;
                }
                without.extend_from_slice(l);
                if i != last {
                    without.push(b'\n');
                }
            }
            let reference = run_whole(&without);
            // nothing but over-long lines: "empty file" has no counterpart to compare with
            let ok = without.is_empty() || match (&reference, &whole, &streamed) {
                (Outc::Ok(a), Outc::Ok(b), Outc::Ok(c)) => a == b && a == c,
                // the shorter file is rejected: so is the long one (line numbers shift by the
                // dropped lines, and "empty file" becomes "unexpected EOF")
                (Outc::Err(..), Outc::Err(..), Outc::Err(..)) => true,
                _ => false,
            };
            if !ok {
                let class = if matches!(reference, Outc::Ok(_))
                    && first_long.is_some()
                    && pieces.iter().rposition(|l| l.len() > MAXCAP) == Some(last - 1)
                    && pieces[last].is_empty()
                {
                    // the over-long line is the LAST line of the file and is newline-terminated
                    "long-last-line-fails-parse"
                } else {
                    "long-line-not-dropped"
                };
                res.oracle.push((
                    class.into(),
                    format!(
                        "{n_long} line(s) longer than 160 KiB; without them: {} ; from_bytes: {} ; chunked ({spec}): {}",
                        show(&reference),
                        show(&whole),
                        show(&streamed)
                    ),
                ));
            }
        }

        // ---- distribution
        let nlines = lens.len();
        res.nontrivial = nlines >= 3
            && match &streamed {
                Outc::Ok(_) => true,
                Outc::Err(_, l) => *l >= 1,
                Outc::Panic(_) => true,
            };
        res.tags.push(
            match input.len() {
                0..=300 => "size:<=300",
                301..=10240 => "size:<=10K",
                10241..=102400 => "size:<=100K",
                102401..=204800 => "size:<=200K",
                _ => "size:>200K",
            }
            .into(),
        );
        res.tags.push(
            match maxline {
                0..=1000 => "maxline:<=1K",
                1001..=10240 => "maxline:<=10K",
                10241..=40960 => "maxline:<=40K",
                40961..=81919 => "maxline:<80K",
                81920..=163840 => "maxline:80K..160K",
                _ => "maxline:>160K",
            }
            .into(),
        );
        res.tags.push(match &streamed {
            Outc::Ok(_) => "out:ok".into(),
            Outc::Err(k, _) => format!("out:err{k}"),
            Outc::Panic(_) => "out:panic".into(),
        });
        res.tags.push(
            if spec == "whole" {
                "sched:whole"
            } else if !spec.contains(',') && !spec.contains('~') {
                "sched:single-split"
            } else if !spec.contains(',') && spec.ends_with('~') {
                "sched:constant"
            } else {
                "sched:mixed"
            }
            .into(),
        );
        if input.windows(2).any(|w| w == b"\r\n") {
            res.tags.push("has:crlf".into());
        }
        if std::str::from_utf8(&input).is_err() {
            res.tags.push("has:non-utf8".into());
        }
        if !input.ends_with(b"\n") {
            res.tags.push("has:no-final-newline".into());
        }
        for (kwd, tag) in [
            (&b"FUNC "[..], "rec:FUNC"),
            (b"PUBLIC ", "rec:PUBLIC"),
            (b"STACK WIN ", "rec:STACK-WIN"),
            (b"STACK CFI INIT ", "rec:CFI-INIT"),
            (b"INLINE ", "rec:INLINE"),
            (b"INLINE_ORIGIN ", "rec:INLINE_ORIGIN"),
            (b"FILE ", "rec:FILE"),
            (b"INFO ", "rec:INFO"),
            (b"MODULE ", "rec:MODULE"),
        ] {
            if input.windows(kwd.len()).any(|w| w == kwd) {
                res.tags.push(tag.into());
            }
        }
        res
    }

    fn shrink(&self, case: &str, still_fails: &dyn Fn(&str) -> bool) -> String {
        let Some((mut input, mut spec)) = parse_case(case) else { return case.to_string() };
        let mut attempts = 0usize;
        let mut try_case = |input: &[u8], spec: &str, attempts: &mut usize| -> bool {
            *attempts += 1;
            *attempts <= 400 && cost(input, spec) <= 40_000_000 && still_fails(&render(input, spec))
        };
        // simpler schedules first
        for cand in ["whole", "1~"] {
            if spec != cand && try_case(&input, cand, &mut attempts) {
                spec = cand.to_string();
                break;
            }
        }
        // drop whole lines (delta debugging with shrinking granularity)
        let mut lines: Vec<Vec<u8>> = input.split_inclusive(|b| *b == b'\n').map(|l| l.to_vec()).collect();
        let mut chunk = (lines.len() / 2).max(1);
        while chunk >= 1 && lines.len() > 1 {
            let mut i = 0;
            let mut progressed = false;
            while i < lines.len() && lines.len() > 1 {
                let hi = (i + chunk).min(lines.len());
                let cand: Vec<u8> = lines[..i].iter().chain(lines[hi..].iter()).flatten().copied().collect();
                if !cand.is_empty() && try_case(&cand, &spec, &mut attempts) {
                    lines.drain(i..hi);
                    progressed = true;
                } else {
                    i += chunk;
                }
            }
            if chunk == 1 && !progressed {
                break;
            }
            chunk = if chunk == 1 { 1 } else { chunk / 2 };
            if attempts > 400 {
                break;
            }
        }
        input = lines.concat();
        // shorten runs of padding inside long lines
        let mut cut = input.len() / 2;
        while cut >= 1 && attempts <= 400 {
            let mut i = 0;
            let mut progressed = false;
            while i + cut <= input.len() && attempts <= 400 {
                let cand: Vec<u8> = input[..i].iter().chain(input[i + cut..].iter()).copied().collect();
                if !cand.is_empty() && try_case(&cand, &spec, &mut attempts) {
                    input = cand;
                    progressed = true;
                } else {
                    i += cut;
                }
            }
            if cut == 1 && !progressed {
                break;
            }
            cut = if cut == 1 { 1 } else { cut / 2 };
        }
        render(&input, &spec)
    }
}
