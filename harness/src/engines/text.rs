//! Engine `text` (C13, also C03's "can always be written as full text, brief text") — the
//! human-readable report. `ProcessState` values come from engine `json`'s sources (directly
//! constructed from a recipe — hostile and deliberately non-well-formed states included — and
//! produced by `process_minidump` from synthesized dumps); on top of the JSON recipe an *extras*
//! recipe sets the fields only the text report reads (times, source-line bases, recovered
//! arguments, unknown / unimplemented streams).
//!   * `print` and `print_brief` bytes are compared with the Lean model `MdModel.Text.printText`
//!     applied to the abstraction `alpha_text(&ProcessState)` = engine `json`'s `alpha` (with the
//!     register context of EVERY frame) + one more tree (`extras_of`);
//!   * the property's oracle runs on the implementation alone: no panic on a well-formed state,
//!     UTF-8, brief is a prefix of full, two prints of one state and a print of a re-hashed clone
//!     (fresh `RandomState` in every HashMap/HashSet) give the same bytes, every thread has its
//!     `Thread N` block in order with the requesting thread first and marked, frame lines per block
//!     = frames + inline frames numbered 0.., every module is listed once in address order.
//!
//! case:   `text st <17 recipe trees of engine json> [<extras recipe>]` | `text procx …` | `text proc …`
//! model:  `text <17 alpha trees> <extra tree>`
use super::json::{self, Sx};
use crate::common::*;
use minidump::*;
use minidump_common::format as md;
use minidump_common::format::MINIDUMP_STREAM_TYPE as ST;
use super::process::pipeline_gen as pg;
use breakpad_symbols::{FileError, FileKind, SymbolError, SymbolFile};
use minidump_processor::{ProcessState, ProcessorOptions};
use minidump_unwind::{
    CallStackInfo, CallingConvention, FunctionArg, FunctionArgs, LocateSymbolsResult, SymbolSupplier, Symbolizer,
};
use std::collections::{HashMap, HashSet};
use std::time::{Duration, SystemTime, UNIX_EPOCH};
use Sx::{A, L};

pub struct Text;

const STREAM_TYPES: [ST; 12] = [
    ST::UnusedStream,
    ST::ReservedStream0,
    ST::LastReservedStream,
    ST::ThreadExListStream,
    ST::CommentStreamA,
    ST::CommentStreamW,
    ST::FunctionTable,
    ST::TokenStream,
    ST::JavaScriptDataStream,
    ST::IptTraceStream,
    ST::ceStreamNull,
    ST::ceStreamDiagnosisList,
];

// --------------------------------------------------------------------------- recipe -> state

fn int_sx(v: i128) -> Sx {
    if v < 0 {
        A(format!("m{}", -v))
    } else {
        A(format!("n{v}"))
    }
}
fn sx_int(x: &Sx) -> Option<i128> {
    let a = x.atom()?;
    if let Some(r) = a.strip_prefix('n') {
        r.parse::<i128>().ok()
    } else {
        a.strip_prefix('m')?.parse::<i128>().ok().map(|v| -v)
    }
}

fn time_of(ns: i128) -> Option<SystemTime> {
    if ns >= 0 {
        UNIX_EPOCH.checked_add(Duration::new((ns / 1_000_000_000) as u64, (ns % 1_000_000_000) as u32))
    } else {
        let a = -ns;
        UNIX_EPOCH.checked_sub(Duration::new((a / 1_000_000_000) as u64, (a % 1_000_000_000) as u32))
    }
}
fn ns_of(t: SystemTime) -> i128 {
    match t.duration_since(UNIX_EPOCH) {
        Ok(d) => d.as_nanos() as i128,
        Err(e) => -(e.duration().as_nanos() as i128),
    }
}

/// extras recipe: `( <times> ( thread… ) ( unimplemented… ) ( unknown… ) )`
///   times  = `-` | `( <int time ns> <int create ns> )`
///   thread = `( frame… )`, frame = `( <d|-|n line base> <-|( cc ( ( s<name> <n|-> )… ) )> )`
///   unimplemented = `( n<index into STREAM_TYPES> n<rva> )`, unknown = `( n<type> n<rva> s<vendor> )`
/// shorter lists leave the remaining threads / frames as engine `json` built them
fn apply_extras(ps: &mut ProcessState, x: &Sx) -> Option<()> {
    let l = x.as_list()?;
    if l.len() != 4 {
        return None;
    }
    if !l[0].is_none() {
        let t = l[0].as_list()?;
        if t.len() != 2 {
            return None;
        }
        ps.time = time_of(sx_int(&t[0])?)?;
        ps.process_create_time = Some(time_of(sx_int(&t[1])?)?);
    }
    for (ti, tx) in l[1].as_list()?.iter().enumerate() {
        let Some(thread) = ps.threads.get_mut(ti) else { break };
        for (fi, fx) in tx.as_list()?.iter().enumerate() {
            let Some(frame) = thread.frames.get_mut(fi) else { break };
            let fx = fx.as_list()?;
            if fx.len() != 2 {
                return None;
            }
            match fx[0].atom() {
                Some("d") => {}
                Some("-") => frame.source_line_base = None,
                _ => frame.source_line_base = Some(fx[0].nat()?),
            }
            if !fx[1].is_none() {
                let a = fx[1].as_list()?;
                if a.len() != 2 {
                    return None;
                }
                let calling_convention = match a[0].atom()? {
                    "cdecl" => CallingConvention::Cdecl,
                    "winthis" => CallingConvention::WindowsThisCall,
                    "otherthis" => CallingConvention::OtherThisCall,
                    _ => return None,
                };
                let args = a[1].list(|p| {
                    let p = p.as_list()?;
                    Some(FunctionArg { name: p.first()?.string()?, value: p.get(1)?.opt(|v| v.nat())? })
                })?;
                frame.arguments = Some(FunctionArgs { calling_convention, args });
            }
        }
    }
    for u in l[2].as_list()? {
        let u = u.as_list()?;
        let ty = *STREAM_TYPES.get(u.first()?.nat()? as usize)?;
        ps.unimplemented_streams.push(MinidumpUnimplementedStream {
            stream_type: ty,
            location: md::MINIDUMP_LOCATION_DESCRIPTOR { data_size: 16, rva: u.get(1)?.nat()? as u32 },
            vendor: vendor_of(ty as u32),
        });
    }
    for u in l[3].as_list()? {
        let u = u.as_list()?;
        ps.unknown_streams.push(MinidumpUnknownStream {
            stream_type: u.first()?.nat()? as u32,
            location: md::MINIDUMP_LOCATION_DESCRIPTOR { data_size: 16, rva: u.get(1)?.nat()? as u32 },
            vendor: Box::leak(u.get(2)?.string()?.into_boxed_str()),
        });
    }
    Some(())
}

fn vendor_of(ty: u32) -> &'static str {
    if ty <= 0xffff {
        "Official"
    } else {
        match ty & 0xffff_0000 {
            0x4767_0000 => "Google Extension",
            0x4d7a_0000 => "Mozilla Extension",
            _ => "Unknown Extension",
        }
    }
}

thread_local! {
    static RT: tokio::runtime::Runtime =
        tokio::runtime::Builder::new_current_thread().enable_all().build().expect("tokio runtime");
}

/// symbol files of a generated (dump, symbols) pair; modules without one get a generated file
struct PipeSupplier {
    syms: HashMap<String, Vec<u8>>,
    fallback: (u64, String, String, u32),
}

#[async_trait::async_trait]
impl SymbolSupplier for PipeSupplier {
    async fn locate_symbols(&self, module: &(dyn minidump_common::traits::Module + Sync)) -> Result<LocateSymbolsResult, SymbolError> {
        let name = module.code_file().to_string();
        let bytes: Vec<u8> = match self.syms.get(&name) {
            Some(b) => b.clone(),
            None => {
                let (seed, cpu, os, feat) = &self.fallback;
                let mut rng = Rng::new(seed ^ fnv64(name.as_bytes()));
                pg::gen_symbols(&mut rng, cpu, os, &name, module.base_address(), module.size().min(u32::MAX as u64) as u32, *feat)
            }
        };
        SymbolFile::from_bytes(&bytes).map(|symbols| LocateSymbolsResult { symbols, extra_debug_info: None })
    }
    async fn locate_file(&self, _module: &(dyn minidump_common::traits::Module + Sync), _file_kind: FileKind) -> Result<std::path::PathBuf, FileError> {
        Err(FileError::NotFound)
    }
}

fn options_of(opt: u64) -> ProcessorOptions<'static> {
    match opt {
        0 => ProcessorOptions::stable_basic(),
        1 => ProcessorOptions::stable_all(),
        _ => ProcessorOptions::unstable_all(),
    }
}

/// `text pipe n<seed> <cpu> <os> n<feat> n<opt>`: engine `process`'s generator of (dump, symbol files)
/// pairs — all CPUs and OSes, FUNC / line / INLINE / STACK records, misc info, extra streams —
/// through `process_minidump_with_options`
fn build_pipe(items: &[Sx]) -> Option<ProcessState> {
    if items.len() != 6 {
        return None;
    }
    let (seed, cpu, os, feat, opt) = (items[1].nat()?, items[2].atom()?, items[3].atom()?, items[4].nat()? as u32, items[5].nat()?);
    if !pg::CPUS.contains(&cpu) || !pg::OSES.contains(&os) {
        return None;
    }
    let b = pg::build(seed, cpu, os, feat)?;
    let dump = Minidump::read(b.dump).ok()?;
    let provider = Symbolizer::new(PipeSupplier { syms: b.syms, fallback: (seed, cpu.to_string(), os.to_string(), feat) });
    RT.with(|rt| rt.block_on(minidump_processor::process_minidump_with_options(&dump, &provider, options_of(opt))).ok())
}

fn repo() -> std::path::PathBuf {
    std::path::PathBuf::from(std::env::var("VERIF_REPO").unwrap_or_else(|_| "/repo".into()))
}

const TESTDATA: [&str; 5] = ["test.dmp", "linux-mini.dmp", "simple-crashpad.dmp", "pipeline-inlines-macos-segv.dmp", "full-dump.dmp"];

/// `text file s<name> n<opt>`: a dump of the repository's testdata with the repository's symbol files
fn build_file(items: &[Sx]) -> Option<ProcessState> {
    if items.len() != 3 {
        return None;
    }
    let name = items[1].string()?;
    if !TESTDATA.contains(&name.as_str()) {
        return None;
    }
    let dump = Minidump::read_path(repo().join("testdata").join(&name)).ok()?;
    let provider = Symbolizer::new(minidump_unwind::simple_symbol_supplier(vec![repo().join("testdata").join("symbols")]));
    RT.with(|rt| rt.block_on(minidump_processor::process_minidump_with_options(&dump, &provider, options_of(items[2].nat()?))).ok())
}

fn build_case(case: &str) -> Option<ProcessState> {
    let rest = case.strip_prefix("text ")?;
    let items = json::strip_shape(json::sx_parse(rest)?);
    if matches!(items.first(), Some(A(a)) if a == "pipe") {
        catch(|| build_pipe(&items)).ok()?
    } else if matches!(items.first(), Some(A(a)) if a == "file") {
        catch(|| build_file(&items)).ok()?
    } else if json::is_proc_case(&items) {
        catch(|| json::build_proc(&items)).ok()?
    } else if json::is_procx_case(&items) {
        catch(|| json::build_procx(&items)).ok()?
    } else if items.len() == 17 {
        catch(|| json::build(&items)).ok()?
    } else if items.len() == 18 {
        let mut ps = catch(|| json::build(&items[..17])).ok()??;
        catch(move || apply_extras(&mut ps, &items[17]).map(|_| ps)).ok()?
    } else {
        None
    }
}

// ------------------------------------------------------- abstraction: state -> model request

/// the position each element of `possible_bit_flips` is printed at: the very sort of
/// `print_internal` (same element type, same comparator) re-run, positions by address identity
fn flip_order(e: &minidump_processor::ExceptionInfo) -> Vec<u64> {
    let mut v = e.possible_bit_flips.iter().map(|b| (b.confidence.unwrap_or_default(), b)).collect::<Vec<_>>();
    v.sort_unstable_by(|(conf_a, bf_a), (conf_b, bf_b)| {
        conf_a.total_cmp(conf_b).reverse().then_with(|| bf_a.address.cmp(&bf_b.address))
    });
    v.iter()
        .map(|(_, b)| e.possible_bit_flips.iter().position(|x| std::ptr::eq(x, *b)).unwrap_or(usize::MAX) as u64)
        .collect()
}

fn ptr_bytes(raw: &MinidumpRawContext) -> u64 {
    use MinidumpRawContext::*;
    match raw {
        X86(_) | Ppc(_) | Sparc(_) | Arm(_) | Mips(_) => 4,
        Ppc64(_) | Amd64(_) | Arm64(_) | OldArm64(_) => 8,
    }
}

fn extras_of(ps: &ProcessState) -> Sx {
    let times = json::o(ps.process_create_time, |c| L(vec![int_sx(ns_of(ps.time)), int_sx(ns_of(c))]));
    let threads: Vec<Sx> = ps
        .threads
        .iter()
        .map(|t| {
            let frames: Vec<Sx> = t
                .frames
                .iter()
                .map(|f| {
                    let args = json::o(f.arguments.as_ref(), |a| {
                        L(vec![
                            json::tag(match a.calling_convention {
                                CallingConvention::Cdecl => "cdecl",
                                CallingConvention::WindowsThisCall => "winthis",
                                CallingConvention::OtherThisCall => "otherthis",
                            }),
                            L(a.args.iter().map(|g| L(vec![json::s(&g.name), json::on(g.value)])).collect()),
                        ])
                    });
                    L(vec![json::on(f.source_line_base), args, json::n(ptr_bytes(&f.context.raw))])
                })
                .collect();
            L(vec![json::b(t.info == CallStackInfo::DumpThreadSkipped), L(frames)])
        })
        .collect();
    let (flips, order) = match &ps.exception_info {
        Some(e) => (
            e.possible_bit_flips
                .iter()
                .map(|f| {
                    let c = f.confidence.unwrap_or_default();
                    L(vec![json::n(c.to_bits() as u64), json::s(&format!("{c:.3}"))])
                })
                .collect(),
            flip_order(e).into_iter().map(json::n).collect(),
        ),
        None => (vec![], vec![]),
    };
    let unimpl: Vec<Sx> = ps
        .unimplemented_streams
        .iter()
        .map(|u| {
            L(vec![json::n(u.stream_type as u32 as u64), json::s(&format!("{:?}", u.stream_type)), json::s(u.vendor), json::n(u.location.rva as u64)])
        })
        .collect();
    let unknown: Vec<Sx> = ps
        .unknown_streams
        .iter()
        .map(|u| L(vec![json::n(u.stream_type as u64), json::s(""), json::s(u.vendor), json::n(u.location.rva as u64)]))
        .collect();
    L(vec![times, L(threads), L(flips), L(order), L(unimpl), L(unknown)])
}

/// engine `json`'s abstraction, with the register context of every frame (the JSON report shows
/// registers for frame 0 only), plus the extras tree
fn alpha_text(ps: &ProcessState) -> Vec<Sx> {
    let mut a = json::alpha(ps);
    if let L(threads) = &mut a[5] {
        for (t, tx) in ps.threads.iter().zip(threads.iter_mut()) {
            if let L(tl) = tx {
                if let Some(L(frames)) = tl.first_mut() {
                    for (f, fx) in t.frames.iter().zip(frames.iter_mut()) {
                        if let L(fl) = fx {
                            if let Some(c) = fl.get_mut(9) {
                                *c = json::alpha_ctx(&f.context);
                            }
                        }
                    }
                }
            }
        }
    }
    a.push(extras_of(ps));
    a
}

// ---------------------------------------------------------------------------------- running

struct Run {
    ps: ProcessState,
    full: Result<Vec<u8>, String>,
    brief: Result<Vec<u8>, String>,
}

fn print_full(ps: &ProcessState) -> Result<Vec<u8>, String> {
    catch(|| {
        let mut v = Vec::new();
        ps.print(&mut v).map(|_| v).map_err(|e| e.to_string())
    })
    .and_then(|r| r)
}
fn print_brief(ps: &ProcessState) -> Result<Vec<u8>, String> {
    catch(|| {
        let mut v = Vec::new();
        ps.print_brief(&mut v).map(|_| v).map_err(|e| e.to_string())
    })
    .and_then(|r| r)
}

fn run(case: &str) -> Option<Run> {
    let ps = build_case(case)?;
    let full = print_full(&ps);
    let brief = print_brief(&ps);
    Some(Run { ps, full, brief })
}

/// the hypothesis of `printText_total` (`WFT` in MdProofs/C13Text.lean), on the real state
fn wf_text(ps: &ProcessState) -> bool {
    ps.requesting_thread.map_or(true, |i| i < ps.threads.len())
        && ps.threads.iter().all(|t| {
            t.frames.iter().all(|f| {
                f.module.as_ref().map_or(true, |m| m.raw.base_of_image <= f.instruction)
                    && f.function_base.map_or(true, |fb| fb <= f.instruction)
                    && f.source_line_base.map_or(true, |lb| lb <= f.instruction)
            })
        })
}

/// a clone whose HashMaps / HashSets are rebuilt (fresh `RandomState`s: other iteration orders)
fn rehash(ps: &ProcessState) -> ProcessState {
    let mut q = ps.clone();
    let mut cert: Vec<(String, String)> = ps.cert_info.iter().map(|(k, v)| (k.clone(), v.clone())).collect();
    cert.reverse();
    q.cert_info = HashMap::new();
    for (k, v) in cert {
        q.cert_info.insert(k, v);
    }
    let mut stats: Vec<_> = ps.symbol_stats.iter().map(|(k, v)| (k.clone(), v.clone())).collect();
    stats.reverse();
    q.symbol_stats = stats.into_iter().collect();
    if let (Some(l), Some(ql)) = (&ps.linux_proc_limits, &mut q.linux_proc_limits) {
        let mut v: Vec<_> = l.limits.iter().map(|(k, v)| (k.clone(), v.clone())).collect();
        v.reverse();
        ql.limits = v.into_iter().collect();
    }
    for t in &mut q.threads {
        for f in &mut t.frames {
            if let MinidumpContextValidity::Some(set) = &f.context.valid {
                let mut v: Vec<&'static str> = set.iter().copied().collect();
                v.reverse();
                let mut n: HashSet<&'static str> = HashSet::with_capacity(v.len() * 4 + 7);
                for k in v {
                    n.insert(k);
                }
                f.context.valid = MinidumpContextValidity::Some(n);
            }
        }
    }
    q
}

/// every free-form string the text report prints (a `\n` inside one breaks line-based parsing)
fn has_newline_in_names(ps: &ProcessState) -> bool {
    let nl = |s: &str| s.contains('\n');
    let onl = |s: &Option<String>| s.as_deref().map_or(false, nl);
    let si = &ps.system_info;
    onl(&si.os_version)
        || onl(&si.os_build)
        || onl(&si.cpu_info)
        || onl(&ps.assertion)
        || ps.linux_standard_base.as_ref().map_or(false, |l| nl(&l.id) || nl(&l.release) || nl(&l.codename) || nl(&l.description))
        || ps.exception_info.as_ref().map_or(false, |e| onl(&e.instruction_str) || nl(&e.reason.to_string()))
        || ps.mac_crash_info.as_ref().map_or(false, |rs| {
            rs.iter().any(|r| {
                [r.module_path(), r.message(), r.signature_string(), r.backtrace(), r.message2()]
                    .iter()
                    .any(|s| s.map_or(false, nl))
            })
        })
        || ps.mac_boot_args.as_ref().map_or(false, |b| onl(&b.bootargs))
        || ps.cert_info.values().any(|v| nl(v))
        || ps.modules.iter().any(|m| nl(&m.name) || m.version().map_or(false, |v| nl(&v)))
        || ps.unloaded_modules.iter().any(|m| nl(&m.name))
        || ps.unknown_streams.iter().any(|u| nl(u.vendor))
        || ps.threads.iter().any(|t| {
            onl(&t.thread_name)
                || t.frames.iter().any(|f| {
                    onl(&f.function_name)
                        || onl(&f.source_file_name)
                        || f.module.as_ref().map_or(false, |m| nl(&m.name))
                        || f.unloaded_modules.keys().any(|k| nl(k))
                        || f.inlines.iter().any(|i| nl(&i.function_name) || onl(&i.source_file_name))
                        || f.arguments.as_ref().map_or(false, |a| a.args.iter().any(|g| nl(&g.name)))
                })
        })
}

struct Oracle {
    fails: Vec<(String, String)>,
}
impl Oracle {
    fn fail(&mut self, class: &str, detail: String) {
        if !self.fails.iter().any(|(c, _)| c == class) {
            self.fails.push((class.to_string(), detail));
        }
    }
}

/// ` 0  ` … ` 9  `, `10  ` …: the `{frame_idx:2}  ` prefix of a frame line; returns the number
fn frame_line_index(l: &str) -> Option<u64> {
    let b = l.as_bytes();
    let (digits, rest) = if b.len() >= 2 && b[0] == b' ' && b[1].is_ascii_digit() {
        (&l[1..2], &l[2..])
    } else {
        let k = b.iter().take_while(|c| c.is_ascii_digit()).count();
        if k < 2 {
            return None;
        }
        (&l[..k], &l[k..])
    };
    if !rest.starts_with("  ") {
        return None;
    }
    digits.parse().ok()
}

fn is_header(l: &str) -> bool {
    l.strip_prefix("Thread ").map_or(false, |r| {
        let k = r.bytes().take_while(|c| c.is_ascii_digit()).count();
        k > 0 && r.as_bytes().get(k) == Some(&b' ')
    })
}

fn expected_header(ps: &ProcessState, i: usize, marked: bool) -> String {
    let t = &ps.threads[i];
    let name = t.thread_name.as_deref().unwrap_or("");
    if marked {
        format!(
            "Thread {i} {name} ({}) - tid: {}",
            if ps.exception_info.is_some() { "crashed" } else { "requested dump, did not crash" },
            t.thread_id
        )
    } else {
        format!("Thread {i} {name} - tid: {}", t.thread_id)
    }
}

/// `0x… - 0x…  rest`
fn module_line(l: &str) -> Option<(u64, u64)> {
    let r = l.strip_prefix("0x")?;
    let k = r.bytes().take_while(|c| c.is_ascii_hexdigit()).count();
    if k < 8 {
        return None;
    }
    let lo = u64::from_str_radix(&r[..k], 16).ok()?;
    let r = r[k..].strip_prefix(" - 0x")?;
    let k2 = r.bytes().take_while(|c| c.is_ascii_hexdigit()).count();
    if k2 < 8 || !r[k2..].starts_with("  ") {
        return None;
    }
    Some((lo, u64::from_str_radix(&r[..k2], 16).ok()?))
}

fn range_of(base: u64, size: u64) -> Option<(u64, u64)> {
    if size == 0 {
        return None;
    }
    Some((base, base.checked_add(size)? - 1))
}

/// thread blocks, frame lines and module lists of one report (line-based; names without `\n`)
fn structure_oracle(or: &mut Oracle, ps: &ProcessState, text: &str, brief: bool) {
    let which = if brief { "brief" } else { "full" };
    let lines: Vec<&str> = text.split('\n').collect();
    // --- thread blocks
    let req = ps.requesting_thread.filter(|i| *i < ps.threads.len());
    let mut expected: Vec<(usize, String)> = Vec::new();
    if let Some(i) = req {
        expected.push((i, expected_header(ps, i, true)));
    }
    if !brief {
        for (i, t) in ps.threads.iter().enumerate() {
            if Some(i) == req || t.info == CallStackInfo::DumpThreadSkipped {
                continue;
            }
            expected.push((i, expected_header(ps, i, false)));
        }
    }
    let stop = lines.iter().position(|l| *l == "Loaded modules:").unwrap_or(lines.len());
    let headers: Vec<usize> = (0..stop).filter(|k| is_header(lines[*k])).collect();
    let found: Vec<&str> = headers.iter().map(|k| lines[*k]).collect();
    let want: Vec<&str> = expected.iter().map(|(_, h)| h.as_str()).collect();
    if found != want {
        let class = if found.first() != want.first() { "crashing-thread-block-not-first-or-unmarked" } else { "thread-blocks" };
        or.fail(class, format!("{which}: thread headers {found:?}, expected {want:?}"));
        return;
    }
    for (n, (ti, _)) in expected.iter().enumerate() {
        let from = headers[n] + 1;
        let to = headers.get(n + 1).copied().unwrap_or(stop);
        let idx: Vec<u64> = lines[from..to].iter().filter_map(|l| frame_line_index(l)).collect();
        let t = &ps.threads[*ti];
        let want_n: usize = t.frames.iter().map(|f| 1 + f.inlines.len()).sum();
        if idx.len() != want_n {
            or.fail("frame-lines-count", format!("{which}: thread {ti} shows {} frame lines for {} frames + {} inline frames",
                idx.len(), t.frames.len(), want_n - t.frames.len()));
        } else if idx.iter().enumerate().any(|(k, v)| *v != k as u64) {
            or.fail("frame-line-numbers", format!("{which}: thread {ti} numbers its frame lines {idx:?}"));
        }
        if t.frames.is_empty() && !lines[from..to].contains(&"<no frames>") {
            or.fail("frame-lines-count", format!("{which}: thread {ti} has no frames and no `<no frames>` line"));
        }
    }
    if brief {
        if lines.iter().any(|l| *l == "Loaded modules:") {
            or.fail("brief-lists-modules", "the brief report contains a module list".into());
        }
        return;
    }
    // --- loaded modules
    let Some(lm) = lines.iter().position(|l| *l == "Loaded modules:") else {
        or.fail("module-list", "no `Loaded modules:` line".into());
        return;
    };
    let Some(um) = lines.iter().position(|l| *l == "Unloaded modules:") else {
        or.fail("module-list", "no `Unloaded modules:` line".into());
        return;
    };
    if um < lm + 2 || !lines[um - 1].is_empty() {
        or.fail("module-list", "`Unloaded modules:` does not follow the loaded list and a blank line".into());
        return;
    }
    let shown: Vec<Option<(u64, u64)>> = lines[lm + 1..um - 1].iter().map(|l| module_line(l)).collect();
    let ranges: Vec<Option<(u64, u64)>> = ps.modules.iter().map(|m| range_of(m.raw.base_of_image, m.raw.size_of_image as u64)).collect();
    if shown.iter().any(|s| s.is_none()) {
        or.fail("module-list", format!("a line of the loaded list is not `0x… - 0x…  name  version`: {:?}", &lines[lm + 1..um - 1]));
    } else {
        let shown: Vec<(u64, u64)> = shown.into_iter().flatten().collect();
        if shown.windows(2).any(|w| w[0].1 >= w[1].0) {
            or.fail("modules-not-in-address-order", format!("loaded modules listed as {shown:x?}"));
        }
        for r in &shown {
            if !ranges.contains(&Some(*r)) {
                or.fail("module-list", format!("listed range {r:x?} is no module of the state"));
            }
        }
        for (i, r) in ranges.iter().enumerate() {
            let Some(r) = r else { continue };
            let times = shown.iter().filter(|s| *s == r).count();
            let dup = ranges.iter().filter(|q| *q == &Some(*r)).count();
            let overlaps_other = ranges.iter().enumerate().any(|(j, q)| j != i && q.map_or(false, |q| q.0 <= r.1 && r.0 <= q.1));
            if times > 1 || (!overlaps_other && times != 1) {
                or.fail("module-not-listed-once", format!("module {i} {r:x?} is listed {times} times ({dup} modules have that range)"));
            }
            if times == 0 && !shown.iter().any(|s| s.0 <= r.1 && r.0 <= s.1) {
                or.fail("module-not-listed-once", format!("module {i} {r:x?} is neither listed nor overlapped by a listed module"));
            }
        }
    }
    // --- unloaded modules: every one with a valid range, sorted by (base, end)
    let end = (um + 1..lines.len()).find(|k| lines[*k].is_empty()).unwrap_or(lines.len());
    let shown_u: Vec<Option<(u64, u64)>> = lines[um + 1..end].iter().map(|l| module_line(l)).collect();
    let mut want_u: Vec<(u64, u64)> =
        ps.unloaded_modules.iter().filter_map(|m| range_of(m.raw.base_of_image, m.raw.size_of_image as u64)).collect();
    want_u.sort();
    if shown_u.iter().any(|s| s.is_none()) {
        or.fail("module-list", format!("a line of the unloaded list is not `0x… - 0x…  name`: {:?}", &lines[um + 1..end]));
    } else {
        let shown_u: Vec<(u64, u64)> = shown_u.into_iter().flatten().collect();
        if shown_u != want_u {
            let class = if { let mut s = shown_u.clone(); s.sort(); s == want_u } { "modules-not-in-address-order" } else { "module-not-listed-once" };
            or.fail(class, format!("unloaded modules listed as {shown_u:x?}, the state has {want_u:x?}"));
        }
    }
}

fn oracle(r: &Run, from_processor: bool) -> (Vec<(String, String)>, Vec<String>) {
    let mut or = Oracle { fails: vec![] };
    let mut tags = Vec::new();
    let ps = &r.ps;
    let wf = wf_text(ps);
    if from_processor && !wf {
        or.fail("processor-state-not-well-formed", format!(
            "process_minidump returned a state outside WFT (requesting thread {:?} of {} threads / frame bases)",
            ps.requesting_thread, ps.threads.len()));
    }
    if wf {
        if let Err(e) = &r.full {
            or.fail("text-panic-on-well-formed-state", format!("print: {e}"));
        }
        if let Err(e) = &r.brief {
            or.fail("text-panic-on-well-formed-state", format!("print_brief: {e}"));
        }
    }
    if r.full.is_ok() && r.brief.is_err() {
        or.fail("brief-panics-full-does-not", r.brief.as_ref().err().cloned().unwrap_or_default());
    }
    let tame = !has_newline_in_names(ps);
    tags.push(format!("structure-oracle:{}", if tame { "run" } else { "skipped(newline in a name)" }));
    for (bytes, brief) in [(&r.full, false), (&r.brief, true)] {
        let Ok(bytes) = bytes else { continue };
        match std::str::from_utf8(bytes) {
            Err(e) => or.fail("invalid-utf8", format!("{e}")),
            Ok(text) => {
                if tame {
                    structure_oracle(&mut or, ps, text, brief);
                }
            }
        }
    }
    if let (Ok(f), Ok(b)) = (&r.full, &r.brief) {
        if !f.starts_with(b) {
            or.fail("brief-not-a-prefix-of-full", format!("print_brief wrote {} bytes that print does not start with", b.len()));
        }
    }
    // determinism: the same state printed again, and a clone with re-hashed containers
    if r.full.is_ok() {
        let again = print_full(ps);
        if again != r.full {
            or.fail("text-differs-between-two-prints", "print wrote different bytes for one state".into());
        }
        let q = rehash(ps);
        if print_full(&q) != r.full || print_brief(&q) != r.brief {
            or.fail("text-depends-on-hash-order", "a clone with rebuilt HashMaps/HashSets prints different bytes".into());
        }
        // … and on a fresh OS thread (empty thread-local print context; this worker thread has printed
        // states of other CPUs before)
        let fresh = std::thread::scope(|sc| sc.spawn(|| (print_full(ps), print_brief(ps))).join());
        match fresh {
            Ok((f, b)) => {
                if f != r.full || b != r.brief {
                    or.fail("text-depends-on-thread-history", "printed on a fresh thread the state gives different bytes than on this worker thread (which printed other states before)".into());
                }
            }
            Err(_) => or.fail("harness-panic", "fresh-thread print could not be joined".into()),
        }
    }
    (or.fails, tags)
}

fn tags_of(r: &Run) -> Vec<String> {
    let ps = &r.ps;
    let mut t = vec![
        format!("cpu:{}", json::cpu_tag(&ps.system_info.cpu)),
        format!("threads:{}", match ps.threads.len() { 0 => "0", 1 => "1", 2..=4 => "2-4", _ => "5+" }),
        format!("req:{}", match ps.requesting_thread {
            None => "none",
            Some(i) if i >= ps.threads.len() => "out-of-range",
            Some(i) if ps.threads[i].frames.is_empty() => "no-frames",
            _ => "with-frames",
        }),
        format!("outcome:full-{}/brief-{}", if r.full.is_ok() { "ok" } else { "panic" }, if r.brief.is_ok() { "ok" } else { "panic" }),
        format!("uptime:{}", match ps.process_create_time {
            None => "not-available",
            Some(c) => if c > ps.time { "create-after-dump" } else { "some" },
        }),
    ];
    let frames = || ps.threads.iter().flat_map(|t| t.frames.iter());
    for (name, on) in [
        ("inline-frames", frames().any(|f| !f.inlines.is_empty())),
        ("frame:module+function+line", frames().any(|f| f.module.is_some() && f.function_name.is_some() && f.function_base.is_some()
            && f.source_file_name.is_some() && f.source_line.is_some() && f.source_line_base.is_some())),
        ("frame:module+function", frames().any(|f| f.module.is_some() && f.function_name.is_some() && f.function_base.is_some()
            && !(f.source_file_name.is_some() && f.source_line.is_some() && f.source_line_base.is_some()))),
        ("frame:module-only", frames().any(|f| f.module.is_some() && !(f.function_name.is_some() && f.function_base.is_some()))),
        ("frame:no-module", frames().any(|f| f.module.is_none())),
        ("frame:unloaded-modules", frames().any(|f| f.module.is_none() && !f.unloaded_modules.is_empty())),
        ("frame:arguments", frames().any(|f| f.arguments.is_some())),
        ("frame:10+lines", ps.threads.iter().any(|t| t.frames.iter().map(|f| 1 + f.inlines.len()).sum::<usize>() > 10)),
        ("registers:some-valid", frames().any(|f| matches!(f.context.valid, MinidumpContextValidity::Some(_)))),
        ("dump-thread-skipped", ps.threads.iter().any(|t| t.info == CallStackInfo::DumpThreadSkipped)),
        ("unimplemented-streams", !ps.unimplemented_streams.is_empty()),
        ("unknown-streams", !ps.unknown_streams.is_empty()),
        ("soft-errors-shown", ps.soft_errors.as_ref().and_then(|v| v.as_array()).map_or(false, |a| !a.is_empty())),
        ("cert-info", !ps.cert_info.is_empty()),
        ("modules:overlapping", {
            let rs: Vec<(u64, u64)> = ps.modules.iter().filter_map(|m| range_of(m.raw.base_of_image, m.raw.size_of_image as u64)).collect();
            rs.iter().enumerate().any(|(i, a)| rs.iter().enumerate().any(|(j, b)| i != j && a.0 <= b.1 && b.0 <= a.1))
        }),
        ("modules:without-range", ps.modules.iter().any(|m| range_of(m.raw.base_of_image, m.raw.size_of_image as u64).is_none())),
        ("unloaded-modules", ps.unloaded_modules.iter().next().is_some()),
        ("mac-crash-info", ps.mac_crash_info.is_some()),
        ("bit-flips:tied", ps.exception_info.as_ref().map_or(false, |e| {
            let f = &e.possible_bit_flips;
            f.iter().enumerate().any(|(i, a)| f.iter().enumerate().any(|(j, b)| {
                i != j && a.address == b.address && a.confidence.unwrap_or_default().to_bits() == b.confidence.unwrap_or_default().to_bits()
            }))
        })),
        ("bit-flips:20+", ps.exception_info.as_ref().map_or(false, |e| e.possible_bit_flips.len() > 20)),
    ] {
        if on {
            t.push(name.to_string());
        }
    }
    t.extend(json::crash_tags(ps));
    t.extend(json::size_tags(ps));
    if !wf_text(ps) {
        t.push("not-wf".into());
    }
    t
}

// ------------------------------------------------------------------------------- generator

fn gen_extras(rng: &mut Rng, st: &[Sx], hostile: bool, wild: bool) -> Sx {
    let times = match rng.below(6) {
        0 | 1 => json::none(),
        2 => {
            let t = rng.below(2_000_000_000) as i128 * 1_000_000_000;
            L(vec![int_sx(t), int_sx(t - rng.below(1_000_000) as i128 * 1_000_000_000)])
        }
        3 => {
            // the process "started" after the dump was written: uptime 0
            let t = rng.below(2_000_000_000) as i128 * 1_000_000_000;
            L(vec![int_sx(t), int_sx(t + 1 + rng.below(5_000_000_000) as i128)])
        }
        4 => {
            // sub-second parts: floor, not round
            let c = rng.below(1 << 40) as i128;
            L(vec![int_sx(c + *rng.pick(&[0i128, 1, 999_999_999, 1_000_000_000, 1_999_999_999, 2_000_000_001]) ), int_sx(c)])
        }
        _ => {
            // before the epoch / far apart
            let a = rng.below(1 << 61) as i128 - (1i128 << 60);
            let c = rng.below(1 << 61) as i128 - (1i128 << 60);
            L(vec![int_sx(a), int_sx(c)])
        }
    };
    let mut threads = Vec::new();
    if let Some(ts) = st.get(5).and_then(|t| t.as_list()) {
        for t in ts {
            let mut frames = Vec::new();
            let fl = t.as_list().and_then(|t| t.first()).and_then(|f| f.as_list()).unwrap_or(&[]);
            for f in fl {
                let instr = f.as_list().and_then(|f| f.first()).and_then(|x| x.nat()).unwrap_or(0);
                let lb = match rng.below(8) {
                    0..=3 => json::tag("d"),
                    4 => json::none(),
                    5 if wild && instr < u64::MAX => json::n(instr + 1 + rng.below(4).min(u64::MAX - instr - 1)),
                    _ => json::n(instr - rng.below(instr.min(0x400) + 1)),
                };
                let args = if rng.chance(1, 5) {
                    L(vec![
                        json::tag(*rng.pick(&["cdecl", "winthis", "otherthis"])),
                        L((0..rng.below(4))
                            .map(|_| {
                                L(vec![
                                    json::s(&json::gen_string(rng, hostile)),
                                    if rng.chance(1, 3) { json::none() } else { json::n(json::gen_addr(rng, true)) },
                                ])
                            })
                            .collect()),
                    ])
                } else {
                    json::none()
                };
                frames.push(L(vec![lb, args]));
            }
            threads.push(L(frames));
        }
    }
    let unimpl: Vec<Sx> = (0..if rng.chance(1, 4) { rng.range(1, 3) } else { 0 })
        .map(|_| L(vec![json::n(rng.below(STREAM_TYPES.len() as u64)), json::n(rng.below(1 << 32))]))
        .collect();
    let unknown: Vec<Sx> = (0..if rng.chance(1, 4) { rng.range(1, 3) } else { 0 })
        .map(|_| {
            let ty = match rng.below(4) {
                0 => rng.below(0x10000),
                1 => 0x4767_0000 + rng.below(0x100),
                2 => 0x4d7a_0000 + rng.below(0x100),
                _ => rng.below(1 << 32),
            };
            let vendor = if hostile && rng.chance(1, 4) { json::gen_string(rng, true) } else { vendor_of(ty as u32).to_string() };
            L(vec![json::n(ty), json::n(rng.below(1 << 32)), json::s(&vendor)])
        })
        .collect();
    L(vec![times, L(threads), L(unimpl), L(unknown)])
}

/// directed states for the parts of the text printer engine `json`'s recipes do not reach
fn directed_text(emit: &mut dyn FnMut(String)) {
    let mut rng = Rng::new(11);
    let g = json::GenOpts { hostile: false, wild: false, defects: false };
    let ctx = |kind: &str, seed: u64, valid: Sx| L(vec![json::tag(kind), json::n(seed), valid]);
    // (1) frame shapes: every combination of module / function name / function base / file / line /
    //     line base, with 0..2 inline frames, on two context kinds; > 10 frame lines in one thread
    let mut st = json::gen_state(&mut rng, &g);
    st[11] = L(vec![]);
    st[12] = L(vec![]);
    let mut frames = Vec::new();
    let mut extras = Vec::new();
    for bits in 0..64u64 {
        let on = |k: u64| bits >> k & 1 == 1;
        let instr = 0x40_1000 + bits * 0x10;
        let inl: Vec<Sx> = (0..bits % 3)
            .map(|k| L(vec![json::s(&format!("inl{k}")), if k == 0 { json::s("/src/dir\\a.h") } else { json::none() }, if on(0) { json::n(7 + k) } else { json::none() }]))
            .collect();
        frames.push(L(vec![
            json::n(instr),
            if on(0) { L(vec![json::s("C:\\bin\\app.exe"), json::n(0x40_0000)]) } else { json::none() },
            if on(0) { L(vec![]) } else { L(vec![L(vec![json::s("gone.dll"), L(vec![json::n(0x10), json::n(0x2000)])]), L(vec![json::s("z"), L(vec![json::n(1)])])]) },
            if on(1) { json::s("ns::f<T>(int)") } else { json::none() },
            if on(2) { json::n(instr - 8) } else { json::none() },
            if on(3) { json::s("/src/dir/main.cc") } else { json::none() },
            if on(4) { json::n(42) } else { json::none() },
            L(inl),
            json::tag(json_trust(bits)),
            ctx(if bits % 2 == 0 { "amd64" } else { "arm" }, bits, if bits % 4 == 3 { L(vec![json::s("rip"), json::s("rsp"), json::s("pc"), json::s("sp")]) } else { json::none() }),
        ]));
        extras.push(L(vec![if on(5) { json::n(instr - 3) } else { json::none() }, json::none()]));
    }
    st[5] = L(vec![L(vec![L(frames), json::n(1), json::s("main"), json::none()])]);
    st[4] = json::n(0);
    emit(format!("text st {} {}", json::sx_line(&st), json::sx_line(&[L(vec![json::none(), L(vec![L(extras)]), L(vec![]), L(vec![])])])));
    // (2) recovered arguments on 4-byte and 8-byte contexts, every calling convention, unknown values
    for kind in json::CTX_KINDS {
        let mut st = json::gen_state(&mut rng, &g);
        let frame = |i: u64| {
            L(vec![json::n(0x1000 + i), json::none(), L(vec![]), json::none(), json::none(), json::none(), json::none(), L(vec![]),
                   json::tag("cfi"), ctx(kind, i, json::none())])
        };
        st[5] = L(vec![L(vec![L(vec![frame(0), frame(1), frame(2)]), json::n(9), json::none(), json::none()])]);
        st[4] = json::n(0);
        let args = |cc: &str| {
            L(vec![json::tag(cc), L(vec![
                L(vec![json::s("int"), json::n(0)]),
                L(vec![json::s("char const*"), json::n(u32::MAX as u64 + 1)]),
                L(vec![json::s(""), json::none()]),
                L(vec![json::s("this"), json::n(u64::MAX)]),
            ])])
        };
        let x = L(vec![json::none(), L(vec![L(vec![
            L(vec![json::tag("d"), args("cdecl")]),
            L(vec![json::tag("d"), args("winthis")]),
            L(vec![json::tag("d"), L(vec![json::tag("otherthis"), L(vec![])])]),
        ])]), L(vec![]), L(vec![])]);
        emit(format!("text st {} {}", json::sx_line(&st), json::sx_line(&[x])));
    }
    // (3) module lists: overlapping, duplicate, zero-size, wrapping, adjacent modules; the main module
    //     without a range; same base as the main module; certificates by basename
    for variant in 0..6u64 {
        let mut st = json::gen_state(&mut rng, &g);
        let m = |base: u64, size: u64, name: &str| {
            L(vec![json::n(base), json::n(size), json::s(name), json::tag("none"), json::bts(b""), json::bts(&[0u8; 16]), json::n(0), json::n(0),
                   json::b(variant % 2 == 0), json::n(0x0001_0002), json::n(0x0003_0004), json::n(0), json::n(0)])
        };
        let mods = match variant {
            0 => vec![m(0x5000, 0x1000, "/a/main"), m(0x1000, 0x1000, "C:\\x\\b.dll"), m(0x1800, 0x1000, "overlap"), m(0x2000, 0x1000, "adjacent"), m(0x1000, 0x1000, "dup")],
            1 => vec![m(0x5000, 0, "main-without-range"), m(0x5000, 0x10, "same-base-as-main"), m(0, 1, "zero")],
            2 => vec![m(u64::MAX - 0xfff, 0x1000, "ends-at-max"), m(u64::MAX - 0xffe, 0x1000, "wraps"), m(u64::MAX, 1, "last-byte")],
            3 => vec![m(0x10, 0x10, "c"), m(0x30, 0x10, "a"), m(0x20, 0x10, "b"), m(0x0, 0x10, "d")],
            4 => vec![m(0x1000, u32::MAX as u64, "huge"), m(0x2000, 0x10, "inside-huge"), m(0x1_0000_1000, 0x10, "after-huge")],
            _ => vec![],
        };
        st[11] = L(mods);
        st[12] = L(vec![
            L(vec![json::n(0x9000), json::n(0x100), json::s("/u/gone.so"), json::n(1)]),
            L(vec![json::n(0x9000), json::n(0x80), json::s("gone2"), json::n(2)]),
            L(vec![json::n(0x8000), json::n(0x2000), json::s("C:\\gone.dll"), json::n(3)]),
            L(vec![json::n(0x9000), json::n(0), json::s("no-range"), json::n(4)]),
            L(vec![json::n(u64::MAX), json::n(2), json::s("wraps"), json::n(5)]),
        ]);
        st[1] = L(vec![L(vec![json::s("b.dll"), json::s("Cert (b)")]), L(vec![json::s("gone.so"), json::s("Gone Inc.")]), L(vec![json::s("main"), json::s("M")])]);
        emit(format!("text st {}", json::sx_line(&st)));
    }
    // (4) bit flips: ties in (confidence, address) with different registers, > 20 entries (the
    //     unstable sort leaves the small-sort path), NaN / negative / missing confidences
    for count in [3u64, 21, 40, 70] {
        let mut st = json::gen_state(&mut rng, &g);
        let confs = [0.25f32, 0.5, 0.9, 0.9625, -0.0, 0.0, f32::NAN, -f32::NAN, f32::INFINITY, f32::NEG_INFINITY, 1e-7];
        let flips: Vec<Sx> = (0..count)
            .map(|k| {
                L(vec![
                    json::n(0x7000_0000 + (k % 4) * 8),
                    if k % 3 == 0 { json::none() } else { json::s(["rax", "rbx", "rcx"][(k % 3) as usize]) },
                    json::b(false), json::b(false), json::b(false), json::n(0), json::b(false),
                    if k % 7 == 6 { json::none() } else { json::n(confs[(k % confs.len() as u64) as usize].to_bits() as u64) },
                ])
            })
            .collect();
        st[2] = L(vec![L(vec![json::tag("r"), json::n(6), json::n(0), json::n(0)]), json::n(0x7000_0001), json::none(), json::none(), json::none(), L(flips), L(vec![])]);
        emit(format!("text st {}", json::sx_line(&st)));
    }
    // (5) streams, uptime, soft errors (nested, empty containers, hostile strings)
    let mut st = json::gen_state(&mut rng, &g);
    let soft = serde_json::json!([{"a": [], "b": {}, "c": [1, -2, 2.5, 1e300, null, true, "x\"\\\n\u{0}\u{1f}é\u{1f600}"], "d": {"e": {"f": [[], [[]], {}]}}}, {}, [], 7]);
    st[16] = A(format!("j{}", hex(soft.to_string().as_bytes())));
    let x = L(vec![
        L(vec![int_sx(1_700_000_123_999_999_999), int_sx(1_700_000_000_000_000_001)]),
        L(vec![]),
        L((0..STREAM_TYPES.len() as u64).map(|k| L(vec![json::n(k), json::n(k * 0x1111_1111)])).collect()),
        L(vec![
            L(vec![json::n(0xffff), json::n(0), json::s("Official")]),
            L(vec![json::n(0x4767_ffff), json::n(u32::MAX as u64), json::s("Google Extension")]),
            L(vec![json::n(u32::MAX as u64), json::n(1), json::s("Unknown Extension")]),
        ]),
    ]);
    emit(format!("text st {} {}", json::sx_line(&st), json::sx_line(&[x])));
    // (6) dump thread skipped: as an ordinary thread (not printed) and as the requesting thread (printed)
    for req in [json::none(), json::n(1), json::n(0)] {
        let mut st = json::gen_state(&mut rng, &g);
        st[5] = L(vec![
            L(vec![L(vec![]), json::n(1), json::s("a"), json::none(), json::tag("ok")]),
            L(vec![L(vec![]), json::n(2), json::s("writer"), json::none(), json::tag("dump_thread_skipped")]),
            L(vec![L(vec![]), json::n(3), json::none(), json::none(), json::tag("missing_memory")]),
        ]);
        st[4] = req;
        emit(format!("text st {}", json::sx_line(&st)));
    }
}

fn json_trust(k: u64) -> &'static str {
    ["none", "scan", "cfi_scan", "frame_pointer", "cfi", "prewalked", "context"][(k % 7) as usize]
}

impl Engine for Text {
    fn name(&self) -> &'static str {
        "text"
    }
    fn rule(&self) -> String {
        "ProcessState values from engine json's two sources — (1) `text st …`: constructed directly from a generated \
         recipe (hostile names, every CPU / context kind, frameless and skipped threads, requesting thread out of \
         range, non-well-formed frame bases that must panic in model and code alike, overlapping / zero-size / \
         wrapping modules, crash_info in full) extended by an extras recipe for what only the text report reads \
         (dump and process-creation times, source-line bases, recovered arguments of every calling convention, \
         unknown and unimplemented streams); (2) `text procx …` / `text proc …`: produced by process_minidump from \
         synthesized dumps. Compared: print and print_brief bytes = Lean printText(alpha_text(state)) bytes. Oracle \
         on the implementation alone: no panic on a state inside WFT, UTF-8, brief is a prefix of full, a second \
         print, a print on a fresh OS thread and a print of a clone with rebuilt HashMaps/HashSets give the same bytes, thread headers (requesting \
         thread first and marked, the others in index order, the dump-writer thread skipped), frame lines per \
         block = frames + inline frames numbered from 0, loaded modules in address order each listed once, \
         unloaded modules all listed in (base, end) order. Non-trivial: the state has a thread with a frame or a \
         module, and print returned."
            .into()
    }
    fn exhaustive_part(&self) -> Option<String> {
        Some("engine json's directed grid (10 CPUs x 9 context kinds x {all, some} validity; crash_info in full per CPU; \
              96 bit-flip detail combinations; 36 instruction encodings through process_minidump) printed as text, \
              plus: all 64 combinations of module / function name / function base / file / line / line base with \
              0..2 inline frames in one 128-line thread; arguments of the three calling conventions on all 9 \
              context kinds; 6 module-list shapes (overlap, duplicate, zero size, wrap, unsorted, huge); bit-flip \
              lists of 3/21/40/70 entries with tied keys; all 12 unimplemented stream types"
            .into())
    }
    fn generate(&self, tier: Tier, rng: &mut Rng, emit: &mut dyn FnMut(String)) {
        directed_text(emit);
        // engine json's directed cases, printed as text
        json::directed(&mut |c: String| {
            if let Some(r) = c.strip_prefix("json ") {
                emit(format!("text {r}"));
            }
        });
        for _ in 0..(if tier == Tier::Quick { 700 } else { 6000 }) {
            match catch(|| json::gen_procx(&mut *rng)) {
                Ok(st) => emit(format!("text {}", json::sx_line(&st))),
                Err(e) => eprintln!("generator panic (procx): {e}"),
            }
        }
        // processor path, deep: a 300 … 1500-link frame-pointer chain on the crashing thread's stack
        for _ in 0..(if tier == Tier::Quick { 3 } else { 12 }) {
            match catch(|| json::gen_procx_deep(&mut *rng)) {
                Ok(st) => emit(format!("text {}", json::sx_line(&st))),
                Err(e) => eprintln!("generator panic (procx deep): {e}"),
            }
        }
        for name in TESTDATA {
            for opt in [0u64, 2] {
                emit(format!("text file {} n{opt}", json::sx_line(&[json::s(name)])));
            }
        }
        for _ in 0..(if tier == Tier::Quick { 500 } else { 5000 }) {
            let cpu = *rng.pick(pg::CPUS);
            let os = *rng.pick(pg::OSES);
            // mostly symbolised stacks; every other sub-generator switched on at random
            let mut feat = (rng.next() as u32) & pg::F_ALL & !pg::F_SYM_CORRUPT;
            if rng.chance(3, 4) {
                feat |= pg::F_STACKS | pg::F_MODULES | pg::F_SYM_FUNC | pg::F_EXCEPTION | pg::F_EXC_CONTEXT;
            }
            if rng.chance(1, 2) {
                feat |= pg::F_SYM_CFI | pg::F_MISC;
            }
            if rng.chance(1, 8) {
                feat |= pg::F_SYM_CORRUPT;
            }
            emit(format!("text pipe n{} {cpu} {os} n{feat} n{}", rng.next() >> 16, rng.below(3)));
        }
        let count = if tier == Tier::Quick { 6000 } else { 40000 };
        for i in 0..count {
            let g = json::GenOpts { hostile: i % 4 == 1, wild: i % 5 == 0, defects: i % 7 == 0 };
            match catch(|| {
                let st = json::gen_state(&mut *rng, &g);
                let x = gen_extras(&mut *rng, &st, g.hostile, g.wild);
                (st, x)
            }) {
                Ok((st, x)) => emit(format!("text st {} {}", json::sx_line(&st), json::sx_line(&[x]))),
                Err(e) => eprintln!("generator panic at case {i}: {e}"),
            }
        }
    }
    fn exec(&self, case: &str) -> ImplResult {
        match catch(|| self.exec_inner(case)) {
            Ok(r) => r,
            Err(e) => ImplResult { out: "harness-panic".into(), oracle: vec![("harness-panic".into(), e)], ..Default::default() },
        }
    }
    fn model_request(&self, case: &str) -> Option<String> {
        catch(|| {
            let ps = build_case(case)?;
            Some(format!("text {}", json::sx_line(&alpha_text(&ps))))
        })
        .ok()
        .flatten()
    }
    fn shrink(&self, case: &str, still_fails: &dyn Fn(&str) -> bool) -> String {
        match catch(|| self.shrink_inner(case, still_fails)) {
            Ok(s) => s,
            Err(e) => {
                eprintln!("shrinker panic: {e}");
                case.to_string()
            }
        }
    }
}

impl Text {
    /// `text pipe …`: clear feature bits one at a time
    fn shrink_pipe(&self, case: &str, still_fails: &dyn Fn(&str) -> bool) -> String {
        let f: Vec<&str> = case.split(' ').collect();
        if f.len() != 7 || f[1] != "pipe" {
            return case.to_string();
        }
        let Some(mut feat) = f[5].strip_prefix('n').and_then(|v| v.parse::<u32>().ok()) else {
            return case.to_string();
        };
        let render = |feat: u32| format!("text pipe {} {} {} n{feat} {}", f[2], f[3], f[4], f[6]);
        for bit in 0..25 {
            if feat >> bit & 1 == 1 && still_fails(&render(feat & !(1 << bit))) {
                feat &= !(1 << bit);
            }
        }
        render(feat)
    }
    fn exec_inner(&self, case: &str) -> ImplResult {
        let Some(r) = run(case) else {
            return ImplResult { out: "bad-case".into(), tags: vec!["bad-case".into()], ..Default::default() };
        };
        let from_processor = case.starts_with("text proc") || case.starts_with("text pipe ") || case.starts_with("text file ");
        let (fails, mut tags) = oracle(&r, from_processor);
        let show = |x: &Result<Vec<u8>, String>| match x {
            Ok(b) => hex(b),
            Err(_) => "PANIC".to_string(),
        };
        let mut res = ImplResult { out: format!("F:{} B:{}", show(&r.full), show(&r.brief)), oracle: fails, ..Default::default() };
        res.nontrivial = r.full.is_ok() && (r.ps.threads.iter().any(|t| !t.frames.is_empty()) || r.ps.modules.iter().next().is_some());
        tags.extend(tags_of(&r));
        if from_processor {
            let kind = case.split(' ').nth(1).unwrap_or("");
            tags.push(format!("source:process_minidump({kind})"));
            let extra: Vec<String> = tags
                .iter()
                .filter(|t| t.starts_with("frame:") || t.starts_with("size:") || t.starts_with("uptime:") || t.ends_with("-streams") || *t == "inline-frames"
                    || *t == "dump-thread-skipped" || t.starts_with("bit-flips") || t.starts_with("modules:") || *t == "not-wf")
                .map(|t| format!("processor-path/{t}"))
                .collect();
            tags.extend(extra);
        } else {
            tags.push("source:direct".into());
        }
        res.tags = tags;
        res
    }
    fn shrink_inner(&self, case: &str, still_fails: &dyn Fn(&str) -> bool) -> String {
        let Some(items) = case.strip_prefix("text ").and_then(json::sx_parse) else {
            return case.to_string();
        };
        let had_shape = matches!(items.first(), Some(A(a)) if a == "st");
        let mut items = json::strip_shape(items);
        if json::is_proc_case(&items) || matches!(items.first(), Some(A(a)) if a == "pipe" || a == "file") {
            return self.shrink_pipe(case, still_fails);
        }
        let render = |items: &Vec<Sx>| format!("text {}{}", if had_shape { "st " } else { "" }, json::sx_line(items));
        static TOTAL: std::sync::atomic::AtomicUsize = std::sync::atomic::AtomicUsize::new(0);
        let used = TOTAL.load(std::sync::atomic::Ordering::Relaxed);
        let mut budget = if used > 8000 { 0 } else { 500 };
        TOTAL.fetch_add(budget, std::sync::atomic::Ordering::Relaxed);
        if budget == 0 {
            return case.to_string();
        }
        let clock = json::ShrinkClock::start();
        // the extras recipe first: without it the case is an engine-json recipe
        if items.len() == 18 {
            let mut c = items.clone();
            c.truncate(17);
            if still_fails(&render(&c)) {
                items = c;
            }
        }
        loop {
            let mut progress = false;
            for path in json::collect_paths(&items) {
                if budget == 0 {
                    return render(&items);
                }
                for e in json::edits(&items, &path) {
                    if clock.expired() {
                        return render(&items);
                    }
                    budget -= 1;
                    let cand = json::apply_edit(&items, &path, &e);
                    if still_fails(&render(&cand)) {
                        items = cand;
                        progress = true;
                        break;
                    }
                    if budget == 0 {
                        break;
                    }
                }
                if progress {
                    break;
                }
            }
            if !progress {
                return render(&items);
            }
        }
    }
}
