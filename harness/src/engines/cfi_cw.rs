//! `cfi cw …` cases (C06, C07): the REAL `CfiStackWalker<C>` of minidump-unwind, driven call by
//! call. The struct is private, but `SymbolProvider::walk_frame` receives it as
//! `&mut dyn FrameWalker`: the provider below runs a script of trait-method calls on it (register
//! names from C18's universe incl. aliases, `$`-prefixed spellings, unknown names; values at the
//! width boundary; `walk_with_stack_cfi` itself as one call), on every context type that has an
//! unwinder (x86, x86-64, ARM, ARM64 old and new, MIPS in 32- and 64-bit mode), with partial
//! validity sets, a grand-callee frame, little- and big-endian stack memory. The answers and the
//! frame `walk_stack` pushes are compared with the compiled model `MdModel.CfiWalker`; the mock
//! `FrameWalker` of the `walk` cases (the hand-written Rust twin) runs the same script and is
//! compared with the real walker (oracle class `mock-twin-differs` / `forwarded-regs-differ`).
//!
//! case line:
//! `cfi cw kind:<k> ctx:<name=hex,..|-> valid:<all|some:tok,..> instr:<hex> trust:<ctx|other>
//!         grand:<-|none|hex> mods:<base:size,..|-> stack:<le|be>:<base>:<hex> ops:<op;..;ret:b>`
//! answer: `<call results> => notcalled|nocfi|rejected|frame in=<hex> valid:<name=hex,..>` | `PANIC`

use super::{Case as MockCase, Mock};
use crate::common::*;
use async_trait::async_trait;
use breakpad_symbols::fuzzing_private_exports::walk_with_stack_cfi;
use breakpad_symbols::{CfiRules, FrameWalker};
use minidump::format as md;
use minidump::system_info::{Cpu, Os};
use minidump::{
    CpuContext, MinidumpContext, MinidumpContextValidity, MinidumpMemory, MinidumpModule, MinidumpModuleList, MinidumpRawContext,
    Module, UnifiedMemory,
};
use minidump_unwind::{
    walk_stack, CallStack, FileError, FileKind, FillSymbolError, FrameSymbolizer, FrameTrust, StackFrame, SymbolProvider, SystemInfo,
};
use std::collections::HashSet;
use std::path::PathBuf;
use std::sync::Mutex;

// ------------------------------------------------------------------------------------ tables
// Written by hand from the documentation of the context types (register names, documented aliases,
// the ABI's callee-saved registers) — NOT derived from the model.

pub struct Kind {
    pub name: &'static str,
    pub bits: u32,
    pub regs: &'static [&'static str],
    pub alias: &'static [(&'static str, &'static str)],
    pub saved: &'static [&'static str],
    pub sp: &'static str,
    pub ip: &'static str,
    /// `callee_forwarded_regs` resolves aliases in the validity set (ARM family, fix of F28)
    pub fwd_alias: bool,
    pub strip: bool,
}

const X86_REGS: &[&str] = &["eip", "esp", "ebp", "ebx", "esi", "edi", "eax", "ecx", "edx", "eflags"];
const AMD64_REGS: &[&str] =
    &["rax", "rdx", "rcx", "rbx", "rsi", "rdi", "rbp", "rsp", "r8", "r9", "r10", "r11", "r12", "r13", "r14", "r15", "rip"];
const ARM_REGS: &[&str] = &["r0", "r1", "r2", "r3", "r4", "r5", "r6", "r7", "r8", "r9", "r10", "r12", "fp", "sp", "lr", "pc"];
const ARM64_REGS: &[&str] = &[
    "x0", "x1", "x2", "x3", "x4", "x5", "x6", "x7", "x8", "x9", "x10", "x11", "x12", "x13", "x14", "x15", "x16", "x17", "x18", "x19",
    "x20", "x21", "x22", "x23", "x24", "x25", "x26", "x27", "x28", "fp", "lr", "sp", "pc",
];
const MIPS_REGS: &[&str] = &["gp", "sp", "fp", "ra", "pc", "s0", "s1", "s2", "s3", "s4", "s5", "s6", "s7"];
const ARM64_SAVED: &[&str] = &["x19", "x20", "x21", "x22", "x23", "x24", "x25", "x26", "x27", "x28", "fp"];
const MIPS_SAVED: &[&str] = &["s0", "s1", "s2", "s3", "s4", "s5", "s6", "s7", "gp", "sp", "fp"];

pub const KINDS: &[Kind] = &[
    Kind { name: "x86", bits: 32, regs: X86_REGS, alias: &[], saved: &["ebp", "ebx", "edi", "esi"], sp: "esp", ip: "eip", fwd_alias: false, strip: false },
    Kind {
        name: "amd64",
        bits: 64,
        regs: AMD64_REGS,
        alias: &[],
        saved: &["rbx", "rbp", "r12", "r13", "r14", "r15"],
        sp: "rsp",
        ip: "rip",
        fwd_alias: false,
        strip: false,
    },
    Kind {
        name: "arm",
        bits: 32,
        regs: ARM_REGS,
        alias: &[("r11", "fp"), ("r13", "sp"), ("r14", "lr"), ("r15", "pc")],
        saved: &["r4", "r5", "r6", "r7", "r8", "r9", "r10", "fp"],
        sp: "sp",
        ip: "pc",
        fwd_alias: true,
        strip: false,
    },
    Kind { name: "arm64", bits: 64, regs: ARM64_REGS, alias: &[("x29", "fp"), ("x30", "lr")], saved: ARM64_SAVED, sp: "sp", ip: "pc", fwd_alias: true, strip: true },
    Kind { name: "arm64old", bits: 64, regs: ARM64_REGS, alias: &[("x29", "fp"), ("x30", "lr")], saved: ARM64_SAVED, sp: "sp", ip: "pc", fwd_alias: true, strip: true },
    Kind { name: "mips32", bits: 32, regs: MIPS_REGS, alias: &[], saved: MIPS_SAVED, sp: "sp", ip: "pc", fwd_alias: false, strip: false },
    Kind { name: "mips64", bits: 64, regs: MIPS_REGS, alias: &[], saved: MIPS_SAVED, sp: "sp", ip: "pc", fwd_alias: false, strip: false },
];

impl Kind {
    fn canon(&self, n: &str) -> Option<&'static str> {
        if let Some(r) = self.regs.iter().find(|r| **r == n) {
            return Some(r);
        }
        self.alias.iter().find(|(a, _)| *a == n).map(|(_, c)| *c)
    }
    /// the `&'static str` of a register name or alias (what a validity set may hold)
    fn static_name(&self, n: &str) -> Option<&'static str> {
        self.regs.iter().find(|r| **r == n).copied().or_else(|| self.alias.iter().find(|(a, _)| *a == n).map(|(a, _)| *a))
    }
    fn max(&self) -> u64 {
        if self.bits == 32 {
            u32::MAX as u64
        } else {
            u64::MAX
        }
    }
    /// width of a storage cell of the raw context (MIPS keeps u64 cells in both modes)
    fn cell_max(&self) -> u64 {
        match self.name {
            "x86" | "arm" => u32::MAX as u64,
            _ => u64::MAX,
        }
    }
}

// ------------------------------------------------------------------------------------ names on the line
// same token syntax as the `regs` protocol: `[A-Za-z0-9_]+` verbatim, anything else `%`+hex(utf-8)

pub fn enc_name(n: &str) -> String {
    if !n.is_empty() && n.bytes().all(|b| b.is_ascii_alphanumeric() || b == b'_') {
        n.to_string()
    } else if n.is_empty() {
        "%".to_string()
    } else {
        format!("%{}", hex(n.as_bytes()))
    }
}

pub fn dec_name(t: &str) -> Option<String> {
    if let Some(h) = t.strip_prefix('%') {
        if h.is_empty() {
            return Some(String::new());
        }
        let b = unhex(h)?;
        if b.is_empty() {
            return None;
        }
        String::from_utf8(b).ok()
    } else if !t.is_empty() && t.bytes().all(|b| b.is_ascii_alphanumeric() || b == b'_') {
        Some(t.to_string())
    } else {
        None
    }
}

fn parse_hex(s: &str) -> Option<u64> {
    if s.is_empty() || s.trim_start_matches('0').len() > 16 {
        return None;
    }
    if !s.bytes().all(|b| b.is_ascii_hexdigit()) {
        return None;
    }
    u64::from_str_radix(s, 16).ok()
}

// ------------------------------------------------------------------------------------ case

#[derive(Clone, Debug, PartialEq)]
pub enum Op {
    Gi,
    Hg,
    Gp,
    Mb,
    Rd(u64),
    Get(String),
    Set(String, u64),
    Clr(String),
    Cfa(u64),
    Ra(u64),
    Cfi(Vec<Vec<u8>>),
}

#[derive(Clone, Debug)]
pub struct CwCase {
    pub kind: String,
    pub ctx: Vec<(String, u64)>,
    pub valid: Option<Vec<String>>,
    pub instr: u64,
    pub is_ctx: bool,
    /// None = no grand callee; Some(None) = one without a parameter size
    pub grand: Option<Option<u32>>,
    pub mods: Vec<(u64, u32)>,
    pub big_endian: bool,
    pub stack_base: u64,
    pub stack: Vec<u8>,
    pub ops: Vec<Op>,
    pub ret: bool,
}

impl CwCase {
    pub fn render(&self) -> String {
        let ctx = if self.ctx.is_empty() {
            "-".to_string()
        } else {
            self.ctx.iter().map(|(n, v)| format!("{}={:x}", enc_name(n), v)).collect::<Vec<_>>().join(",")
        };
        let valid = match &self.valid {
            None => "all".to_string(),
            Some(v) => format!("some:{}", v.iter().map(|n| enc_name(n)).collect::<Vec<_>>().join(",")),
        };
        let grand = match self.grand {
            None => "-".to_string(),
            Some(None) => "none".to_string(),
            Some(Some(p)) => format!("{p:x}"),
        };
        let mods = if self.mods.is_empty() {
            "-".to_string()
        } else {
            self.mods.iter().map(|(b, z)| format!("{b:x}:{z:x}")).collect::<Vec<_>>().join(",")
        };
        let mut ops: Vec<String> = self
            .ops
            .iter()
            .map(|o| match o {
                Op::Gi => "gi".into(),
                Op::Hg => "hg".into(),
                Op::Gp => "gp".into(),
                Op::Mb => "mb".into(),
                Op::Rd(a) => format!("rd:{a:x}"),
                Op::Get(n) => format!("get:{}", enc_name(n)),
                Op::Set(n, v) => format!("set:{}:{v:x}", enc_name(n)),
                Op::Clr(n) => format!("clr:{}", enc_name(n)),
                Op::Cfa(v) => format!("cfa:{v:x}"),
                Op::Ra(v) => format!("ra:{v:x}"),
                Op::Cfi(lines) => format!("cfi:{}", lines.iter().map(|l| hex(l)).collect::<Vec<_>>().join("|")),
            })
            .collect();
        ops.push(format!("ret:{}", self.ret as u8));
        format!(
            "cfi cw kind:{} ctx:{} valid:{} instr:{:x} trust:{} grand:{} mods:{} stack:{}:{:x}:{} ops:{}",
            self.kind,
            ctx,
            valid,
            self.instr,
            if self.is_ctx { "ctx" } else { "other" },
            grand,
            mods,
            if self.big_endian { "be" } else { "le" },
            self.stack_base,
            hex(&self.stack),
            ops.join(";")
        )
    }

    pub fn parse(line: &str) -> Option<CwCase> {
        let f: Vec<&str> = line.split(' ').filter(|s| !s.is_empty()).collect();
        if f.len() != 11 || f[0] != "cfi" || f[1] != "cw" {
            return None;
        }
        let kind = f[2].strip_prefix("kind:")?.to_string();
        let k = KINDS.iter().find(|k| k.name == kind)?;
        let mut ctx = vec![];
        let cs = f[3].strip_prefix("ctx:")?;
        if cs != "-" {
            for p in cs.split(',').filter(|s| !s.is_empty()) {
                let q: Vec<&str> = p.split('=').collect();
                if q.len() != 2 {
                    return None;
                }
                let v = parse_hex(q[1])?;
                if v > k.cell_max() {
                    return None;
                }
                ctx.push((dec_name(q[0])?, v));
            }
        }
        let vs = f[4].strip_prefix("valid:")?;
        let valid = if vs == "all" {
            None
        } else {
            let body = vs.strip_prefix("some:")?;
            let mut names = vec![];
            for t in body.split(',').filter(|s| !s.is_empty()) {
                let n = dec_name(t)?;
                if names.contains(&n) {
                    return None;
                }
                names.push(n);
            }
            Some(names)
        };
        let instr = parse_hex(f[5].strip_prefix("instr:")?)?;
        let is_ctx = match f[6].strip_prefix("trust:")? {
            "ctx" => true,
            "other" => false,
            _ => return None,
        };
        let grand = match f[7].strip_prefix("grand:")? {
            "-" => None,
            "none" => Some(None),
            h => Some(Some(u32::try_from(parse_hex(h)?).ok()?)),
        };
        let mut mods = vec![];
        let ms = f[8].strip_prefix("mods:")?;
        if ms != "-" {
            for p in ms.split(',').filter(|s| !s.is_empty()) {
                let q: Vec<&str> = p.split(':').collect();
                if q.len() != 2 {
                    return None;
                }
                mods.push((parse_hex(q[0])?, u32::try_from(parse_hex(q[1])?).ok()?));
            }
        }
        let st: Vec<&str> = f[9].strip_prefix("stack:")?.split(':').collect();
        if st.len() != 3 {
            return None;
        }
        let big_endian = match st[0] {
            "le" => false,
            "be" => true,
            _ => return None,
        };
        let stack_base = parse_hex(st[1])?;
        let stack = unhex(st[2])?;
        let mut ops = vec![];
        let mut ret = None;
        for o in f[10].strip_prefix("ops:")?.split(';') {
            if ret.is_some() {
                return None;
            }
            let q: Vec<&str> = o.split(':').collect();
            match q.as_slice() {
                ["gi"] => ops.push(Op::Gi),
                ["hg"] => ops.push(Op::Hg),
                ["gp"] => ops.push(Op::Gp),
                ["mb"] => ops.push(Op::Mb),
                ["rd", a] => ops.push(Op::Rd(parse_hex(a)?)),
                ["get", n] => ops.push(Op::Get(dec_name(n)?)),
                ["set", n, v] => ops.push(Op::Set(dec_name(n)?, parse_hex(v)?)),
                ["clr", n] => ops.push(Op::Clr(dec_name(n)?)),
                ["cfa", v] => ops.push(Op::Cfa(parse_hex(v)?)),
                ["ra", v] => ops.push(Op::Ra(parse_hex(v)?)),
                ["cfi", r] => {
                    let mut lines = vec![];
                    for h in r.split('|') {
                        let b = unhex(h)?;
                        if std::str::from_utf8(&b).is_err() || b.iter().any(|x| *x == b'\n' || *x == b'\r') {
                            return None;
                        }
                        lines.push(b);
                    }
                    if lines.is_empty() {
                        return None;
                    }
                    ops.push(Op::Cfi(lines))
                }
                ["ret", "1"] => ret = Some(true),
                ["ret", "0"] => ret = Some(false),
                _ => return None,
            }
        }
        Some(CwCase { kind, ctx, valid, instr, is_ctx, grand, mods, big_endian, stack_base, stack, ops, ret: ret? })
    }
}

// ------------------------------------------------------------------------------------ running a script

/// the rule text as the symbol-file parser stores it (`space1` swallows leading blanks and tabs)
fn stored(text: &[u8]) -> String {
    let t = std::str::from_utf8(text).unwrap_or("");
    t.trim_start_matches(|c| c == ' ' || c == '\t').to_string()
}

fn show_opt(o: Option<u64>) -> String {
    o.map(|v| format!("{v:x}")).unwrap_or_else(|| "none".into())
}

/// run the calls on any `FrameWalker` (the real one, or the mock twin)
fn run_script(ops: &[Op], module_base: u64, walker: &mut dyn FrameWalker) -> Vec<String> {
    let mut outs = vec![];
    for op in ops {
        outs.push(match op {
            Op::Gi => format!("{:x}", walker.get_instruction()),
            Op::Hg => (walker.has_grand_callee() as u8).to_string(),
            Op::Gp => format!("{:x}", walker.get_grand_callee_parameter_size()),
            Op::Mb => format!("{module_base:x}"),
            Op::Rd(a) => show_opt(walker.get_register_at_address(*a)),
            Op::Get(n) => show_opt(walker.get_callee_register(n)),
            Op::Set(n, v) => (walker.set_caller_register(n, *v).is_some() as u8).to_string(),
            Op::Clr(n) => {
                walker.clear_caller_register(n);
                "-".into()
            }
            Op::Cfa(v) => (walker.set_cfa(*v).is_some() as u8).to_string(),
            Op::Ra(v) => (walker.set_ra(*v).is_some() as u8).to_string(),
            Op::Cfi(lines) => {
                let init = CfiRules { address: 0, rules: stored(&lines[0]) };
                let adds: Vec<CfiRules> =
                    lines[1..].iter().enumerate().map(|(i, l)| CfiRules { address: 1 + i as u64, rules: stored(l) }).collect();
                (walk_with_stack_cfi(&init, &adds, walker).is_some() as u8).to_string()
            }
        });
    }
    outs
}

struct ScriptProvider<'a> {
    ops: &'a [Op],
    ret: bool,
    /// index of the frame the script is meant for (the callee the case describes)
    callee_idx: usize,
    /// index of the frame `walk_stack` is unwinding right now (set by its `on_walked_frame` callback)
    walking: &'a std::sync::atomic::AtomicUsize,
    /// (number of `walk_frame` calls for the callee, answers of the first one)
    seen: Mutex<(u32, Vec<String>)>,
}

#[async_trait]
impl<'a> SymbolProvider for ScriptProvider<'a> {
    async fn fill_symbol(&self, _module: &(dyn Module + Sync), _frame: &mut (dyn FrameSymbolizer + Send)) -> Result<(), FillSymbolError> {
        Err(FillSymbolError {})
    }
    async fn walk_frame(&self, module: &(dyn Module + Sync), walker: &mut (dyn FrameWalker + Send)) -> Option<()> {
        // frames found later (by the frame-pointer or scan techniques) are not the case's subject
        if self.walking.load(std::sync::atomic::Ordering::SeqCst) != self.callee_idx {
            return None;
        }
        let first = {
            let mut s = self.seen.lock().unwrap();
            s.0 += 1;
            s.0 == 1
        };
        if !first {
            return None;
        }
        let outs = run_script(self.ops, module.base_address(), walker);
        self.seen.lock().unwrap().1 = outs;
        if self.ret {
            Some(())
        } else {
            None
        }
    }
    async fn get_file_path(&self, _module: &(dyn Module + Sync), _file_kind: FileKind) -> Result<PathBuf, FileError> {
        Err(FileError::NotFound)
    }
}

fn fill<C: CpuContext>(c: &mut C, regs: &[(String, u64)], conv: impl Fn(u64) -> C::Register) -> Option<()> {
    for (n, v) in regs {
        c.set_register(n, conv(*v))?;
    }
    Some(())
}

fn raw_context(k: &Kind, regs: &[(String, u64)]) -> Option<MinidumpRawContext> {
    Some(match k.name {
        "x86" => {
            let mut c = md::CONTEXT_X86::default();
            fill(&mut c, regs, |v| v as u32)?;
            MinidumpRawContext::X86(c)
        }
        "amd64" => {
            let mut c = md::CONTEXT_AMD64::default();
            fill(&mut c, regs, |v| v)?;
            MinidumpRawContext::Amd64(c)
        }
        "arm" => {
            let mut c = md::CONTEXT_ARM::default();
            fill(&mut c, regs, |v| v as u32)?;
            MinidumpRawContext::Arm(c)
        }
        "arm64" => {
            let mut c = md::CONTEXT_ARM64::default();
            fill(&mut c, regs, |v| v)?;
            MinidumpRawContext::Arm64(c)
        }
        "arm64old" => {
            let mut c = md::CONTEXT_ARM64_OLD::default();
            fill(&mut c, regs, |v| v)?;
            MinidumpRawContext::OldArm64(c)
        }
        m => {
            let mut c = md::CONTEXT_MIPS::default();
            c.context_flags = if m == "mips64" {
                (md::ContextFlagsCpu::CONTEXT_MIPS | md::ContextFlagsCpu::CONTEXT_MIPS64).bits()
            } else {
                md::ContextFlagsCpu::CONTEXT_MIPS.bits()
            };
            fill(&mut c, regs, |v| v)?;
            MinidumpRawContext::Mips(c)
        }
    })
}

thread_local! {
    static RT: tokio::runtime::Runtime = tokio::runtime::Builder::new_current_thread().build().unwrap();
}

/// what the real code did: (answers of the calls, number of `walk_frame` calls, the frame pushed
/// behind the callee if any)
struct RealRun {
    outs: Vec<String>,
    calls: u32,
    frame: Option<StackFrame>,
}

fn run_real(k: &Kind, c: &CwCase) -> Option<Result<RealRun, String>> {
    let raw = raw_context(k, &c.ctx)?;
    let valid = match &c.valid {
        None => MinidumpContextValidity::All,
        Some(names) => {
            let mut set = HashSet::new();
            for n in names {
                set.insert(k.static_name(n)?);
            }
            MinidumpContextValidity::Some(set)
        }
    };
    let context = MinidumpContext { raw, valid };
    let mut callee = StackFrame::from_context(context, if c.is_ctx { FrameTrust::Context } else { FrameTrust::CallFrameInfo });
    callee.instruction = c.instr;
    let mut frames = vec![];
    if let Some(p) = c.grand {
        let g = MinidumpContext { raw: raw_context(k, &[])?, valid: MinidumpContextValidity::All };
        let mut gf = StackFrame::from_context(g, FrameTrust::Context);
        gf.parameter_size = p;
        frames.push(gf);
    }
    frames.push(callee);
    let n0 = frames.len();
    let modules = MinidumpModuleList::from_modules(c.mods.iter().map(|(b, z)| MinidumpModule::new(*b, *z, "m")).collect());
    let system_info = SystemInfo {
        os: Os::Linux,
        os_version: None,
        os_build: None,
        cpu: match k.name {
            "x86" => Cpu::X86,
            "amd64" => Cpu::X86_64,
            "arm" => Cpu::Arm,
            "arm64" | "arm64old" => Cpu::Arm64,
            "mips32" => Cpu::Mips,
            _ => Cpu::Mips64,
        },
        cpu_info: None,
        cpu_microcode_version: None,
        cpu_count: 1,
    };
    let walking = std::sync::atomic::AtomicUsize::new(usize::MAX);
    let provider = ScriptProvider { ops: &c.ops, ret: c.ret, callee_idx: n0 - 1, walking: &walking, seen: Mutex::new((0, vec![])) };
    let memory = MinidumpMemory {
        desc: Default::default(),
        base_address: c.stack_base,
        size: c.stack.len() as u64,
        bytes: &c.stack,
        endian: if c.big_endian { scroll::BE } else { scroll::LE },
    };
    let limit = c.stack.len() + 64;
    let r = catch(|| {
        let mut stack = CallStack::with_info(0, minidump_unwind::CallStackInfo::Ok);
        stack.frames = frames;
        let walking = &walking;
        let guard = move |idx: usize, _f: &StackFrame| {
            walking.store(idx, std::sync::atomic::Ordering::SeqCst);
            if idx > limit {
                panic!("walk exceeded {limit} frames: no progress");
            }
        };
        RT.with(|rt| rt.block_on(walk_stack(0, guard, &mut stack, Some(UnifiedMemory::Memory(&memory)), &modules, &system_info, &provider)));
        stack
    });
    Some(match r {
        Err(msg) => Err(msg),
        Ok(stack) => {
            let seen = provider.seen.lock().unwrap();
            let frame = stack.frames.get(n0).filter(|f| f.trust == FrameTrust::CallFrameInfo).cloned();
            Ok(RealRun { outs: seen.1.clone(), calls: seen.0, frame })
        }
    })
}

fn show_frame(f: &StackFrame) -> String {
    let mut names: Vec<&str> = match &f.context.valid {
        MinidumpContextValidity::All => vec![],
        MinidumpContextValidity::Some(s) => s.iter().copied().collect(),
    };
    names.sort();
    format!(
        "frame in={:x} valid:{}",
        f.instruction,
        names.iter().map(|n| format!("{}={:x}", enc_name(n), f.context.get_register_always(n))).collect::<Vec<_>>().join(",")
    )
}

// ------------------------------------------------------------------------------------ the twin

/// does the validity set cover the register `canon` (directly or under an alias)?
fn covered(k: &Kind, valid: &Option<Vec<String>>, canon: &str, through_alias: bool) -> bool {
    match valid {
        None => true,
        Some(names) => names.iter().any(|n| n == canon || (through_alias && k.canon(n) == Some(canon))),
    }
}

/// the mock walker's description of the same callee frame (see `Mock` in cfi.rs)
fn twin_case(k: &Kind, c: &CwCase) -> MockCase {
    let mut m = MockCase { ptr: k.bits / 8, instr: c.instr, ..Default::default() };
    m.known = k.regs.iter().map(|s| s.to_string()).collect();
    m.alias = k.alias.iter().map(|(a, b)| (a.to_string(), b.to_string())).collect();
    // raw cell values by canonical name (later writes win; aliases write the same cell)
    let mut cells: Vec<(String, u64)> = vec![];
    for (n, v) in &c.ctx {
        if let Some(cn) = k.canon(n) {
            cells.retain(|(x, _)| x != cn);
            cells.push((cn.to_string(), *v));
        }
    }
    let cell = |cn: &str| cells.iter().find(|(x, _)| x == cn).map(|(_, v)| *v).unwrap_or(0);
    for r in k.regs {
        // `register_is_valid` resolves aliases on the ARM family only (the others have none);
        // a register is READ at the walker's width (MIPS in 32-bit mode: the low half of the cell) …
        if covered(k, &c.valid, r, true) {
            m.callee.push((r.to_string(), cell(r) & k.max()));
        }
    }
    // … but FORWARDED as the raw cell (the caller context starts as a clone of the callee's)
    for r in k.saved {
        if covered(k, &c.valid, r, k.fwd_alias) {
            m.fwd.push((r.to_string(), cell(r)));
        }
    }
    m.mem_base = c.stack_base;
    m.mem = c.stack.clone();
    m
}

fn ptr_auth_mask(c: &CwCase) -> Option<u64> {
    // only the plain case is re-derived here: no module reaches past 2^47
    if c.mods.iter().all(|(b, z)| b.checked_add(*z as u64).is_some_and(|e| e < (1 << 47))) {
        Some((1 << 47) - 1)
    } else {
        None
    }
}

// ------------------------------------------------------------------------------------ exec

pub fn exec(case: &str) -> ImplResult {
    let mut res = ImplResult::default();
    let Some(c) = CwCase::parse(case) else {
        res.out = "bad-op".into();
        return res;
    };
    let Some(k) = KINDS.iter().find(|k| k.name == c.kind) else {
        res.out = "bad-op".into();
        return res;
    };
    let run = match run_real(k, &c) {
        None => {
            res.out = "bad-op".into();
            return res;
        }
        Some(Err(msg)) => {
            res.out = "PANIC".into();
            res.oracle.push(("cw-panic".into(), msg));
            return res;
        }
        Some(Ok(r)) => r,
    };
    res.tags.push(format!("cw:{}", k.name));
    let head = run.outs.join(",");
    res.out = if run.calls == 0 {
        res.tags.push("cw-result:notcalled".into());
        "=> notcalled".to_string()
    } else if !c.ret {
        res.tags.push("cw-result:nocfi".into());
        format!("{head} => nocfi")
    } else {
        match &run.frame {
            None => {
                res.tags.push("cw-result:rejected".into());
                format!("{head} => rejected")
            }
            Some(f) => {
                res.tags.push("cw-result:frame".into());
                format!("{head} => {}", show_frame(f))
            }
        }
    };
    for o in &c.ops {
        res.tags.push(
            match o {
                Op::Gi | Op::Hg | Op::Gp | Op::Mb => "cw-op:info",
                Op::Rd(_) => "cw-op:rd",
                Op::Get(_) => "cw-op:get",
                Op::Set(..) => "cw-op:set",
                Op::Clr(_) => "cw-op:clr",
                Op::Cfa(_) | Op::Ra(_) => "cw-op:cfa-ra",
                Op::Cfi(_) => "cw-op:cfi",
            }
            .into(),
        );
    }
    res.tags.sort();
    res.tags.dedup();
    if c.valid.is_some() {
        res.tags.push("cw:partial-validity".into());
    }
    if c.big_endian {
        res.tags.push("cw:big-endian".into());
    }
    if c.grand.is_some() {
        res.tags.push("cw:grand-callee".into());
    }
    res.nontrivial = run.calls > 0 && !c.ops.is_empty();
    if run.calls == 0 {
        return res;
    }
    // ---- the mock twin on the same script
    let tc = twin_case(k, &c);
    let mut mock = Mock::new(&tc);
    let module_base = c
        .mods
        .iter()
        .find(|(b, z)| c.instr >= *b && c.instr - *b < *z as u64)
        .map(|(b, _)| *b)
        .unwrap_or(0);
    let twin_outs = match catch(|| run_script(&c.ops, module_base, &mut mock)) {
        Ok(o) => o,
        Err(msg) => {
            res.oracle.push(("mock-twin-panics".into(), msg));
            return res;
        }
    };
    let wrote = c.ops.iter().any(|o| matches!(o, Op::Set(..) | Op::Clr(_) | Op::Cfi(_)));
    let overlapping = c.mods.len() > 1;
    for (i, (op, (a, b))) in c.ops.iter().zip(run.outs.iter().zip(twin_outs.iter())).enumerate() {
        let comparable = match op {
            // the twin reads little-endian words, has no grand callee and no module
            Op::Rd(_) => !c.big_endian,
            Op::Hg | Op::Gp => c.grand.is_none(),
            Op::Mb => !overlapping,
            // CFI rules may read memory
            Op::Cfi(_) => !c.big_endian,
            _ => true,
        };
        if comparable && a != b {
            res.oracle.push(("mock-twin-differs".into(), format!("call {i} ({op:?}): real walker {a}, mock twin {b}")));
            return res;
        }
        if !comparable && matches!(op, Op::Cfi(_)) && a != b {
            // the two walkers may have diverged from here on
            return res;
        }
    }
    // the caller registers the frame reports (other than sp/ip, which the twin keeps in two slots);
    // the twin reads memory little-endian, so rules run on big-endian memory are not its business
    let twin_blind = c.big_endian && c.ops.iter().any(|o| matches!(o, Op::Cfi(_)));
    if let (Some(f), false) = (&run.frame, twin_blind) {
        if let MinidumpContextValidity::Some(set) = &f.context.valid {
            let mask = if k.strip { ptr_auth_mask(&c) } else { Some(u64::MAX) };
            let mut real: Vec<(String, Option<u64>)> = set
                .iter()
                .filter(|n| **n != k.sp && **n != k.ip)
                .map(|n| (n.to_string(), if k.strip && (*n == "fp" || *n == "lr") && mask.is_none() { None } else { Some(f.context.get_register_always(n)) }))
                .collect();
            real.sort();
            let mut twin: Vec<(String, Option<u64>)> = mock
                .regs
                .iter()
                .filter(|(n, _)| n != k.sp && n != k.ip)
                .map(|(n, v)| {
                    let v = if k.strip && (n == "fp" || n == "lr") { mask.map(|m| *v & m) } else { Some(*v) };
                    (n.clone(), v)
                })
                .collect();
            twin.sort();
            if real != twin {
                let class = if wrote { "mock-twin-differs" } else { "forwarded-regs-differ" };
                res.oracle.push((class.into(), format!("caller registers: real walker {real:x?}, expected {twin:x?}")));
            }
        } else {
            res.oracle.push(("cfi-frame-all-valid".into(), "a frame recovered by CFI reports every register as valid".into()));
        }
    }
    res
}

// ------------------------------------------------------------------------------------ generator

fn boundary(rng: &mut Rng) -> u64 {
    match rng.below(12) {
        0 => 0,
        1 => 1,
        2 => 0xffff_ffff,
        3 => 0x1_0000_0000,
        4 => 0xffff_fffe,
        5 => u64::MAX,
        6 => 1 << 63,
        7 => 0x1_0000_0001,
        8 => 4095,
        9 => 4096,
        10 => (1 << 47) | 0x401234,
        _ => 0xff00_0000_0040_1234,
    }
}

fn name_pool(k: &Kind, rng: &mut Rng) -> String {
    let base = match rng.below(10) {
        0..=3 => rng.pick(k.regs).to_string(),
        4 | 5 => rng.pick(k.saved).to_string(),
        6 if !k.alias.is_empty() => rng.pick(k.alias).0.to_string(),
        6 => k.sp.to_string(),
        7 => rng.pick(&[k.sp, k.ip]).to_string(),
        8 => rng.pick(&["nosuch", "", "EAX", "r16", "x31", "o6", "g_r14", "rsp ", "é", ".cfa", ".ra", "$"]).to_string(),
        // a register of ANOTHER context type
        _ => {
            let other = rng.pick(KINDS);
            rng.pick(other.regs).to_string()
        }
    };
    match rng.below(12) {
        0 => format!("${base}"),
        1 => base.to_uppercase(),
        _ => base,
    }
}

fn gen_rules(k: &Kind, rng: &mut Rng, sp: u64, words: u64) -> Vec<u8> {
    let w = (k.bits / 8) as u64;
    let dollar = k.name == "x86" || k.name == "amd64";
    let rn = |n: &str, rng: &mut Rng| if dollar != rng.chance(1, 8) { format!("${n}") } else { n.to_string() };
    let mut parts = vec![];
    if !rng.chance(1, 16) {
        parts.push(match rng.below(4) {
            0 => format!(".cfa: {}", sp + w * (1 + rng.below(words))),
            1 => format!(".cfa: {}", boundary(rng) as i64),
            _ => format!(".cfa: {} {} +", rn(k.sp, rng), w * (1 + rng.below(words))),
        });
    }
    if !rng.chance(1, 16) {
        parts.push(match rng.below(4) {
            0 => format!(".ra: {}", 0x401000 + rng.below(0x100)),
            1 => format!(".ra: {}", boundary(rng) as i64),
            _ => format!(".ra: .cfa {} - ^", w * (1 + rng.below(3))),
        });
    }
    for _ in 0..rng.below(4) {
        let n = name_pool(k, rng);
        if n.is_empty() || n.contains(' ') || n.contains(':') {
            continue;
        }
        let e = match rng.below(6) {
            0 => ".undef".to_string(),
            1 => format!(".cfa {} - ^", w * rng.below(6)),
            2 => format!("{}", boundary(rng) as i64),
            3 => format!("{} {} +", rn(*rng.pick(k.regs), rng), boundary(rng) as i64),
            4 => rn(&name_pool(k, rng).replace(' ', ""), rng),
            _ => format!("{}", rng.below(0x10000)),
        };
        if e.is_empty() {
            continue;
        }
        parts.push(format!("{}: {}", if rng.chance(1, 2) { format!("${n}") } else { n }, e));
    }
    parts.join(" ").into_bytes()
}

pub fn gen_case(rng: &mut Rng) -> String {
    let k = &KINDS[rng.below(KINDS.len() as u64) as usize];
    let w = (k.bits / 8) as u64;
    let sp: u64 = if k.bits == 32 { 0x8000_0000 } else { 0x7ffd_0000_1000 } + 8 * rng.below(4);
    let words = 4 + rng.below(8);
    let base: u64 = 0x40_0000;
    let instr = base + 0x10 + rng.below(0x100);
    // ---- callee context
    let mut ctx: Vec<(String, u64)> = vec![];
    for r in k.regs {
        if rng.chance(1, 10) && *r != k.sp {
            continue; // stays zero
        }
        let v = if *r == k.sp {
            if rng.chance(1, 30) { boundary(rng) } else { sp }
        } else if *r == k.ip {
            instr
        } else {
            match rng.below(6) {
                0 => boundary(rng),
                1 => sp + w * rng.below(words),
                2 => (1 << 63) | 0x401000 | rng.below(0x100),
                _ => rng.below(0x10000),
            }
        };
        ctx.push((r.to_string(), v & k.cell_max()));
    }
    // a value written through an alias as well (same cell: the later write wins)
    if !k.alias.is_empty() && rng.chance(1, 4) {
        ctx.push((rng.pick(k.alias).0.to_string(), rng.below(0x10000)));
    }
    // ---- validity
    let valid = match rng.below(16) {
        0..=5 => None,
        6 => Some(vec![]),
        7 | 8 => Some(vec![k.sp.to_string(), k.ip.to_string()]),
        _ => {
            let mut v: Vec<String> = vec![];
            let spellings: Vec<&str> = k.regs.iter().copied().chain(k.alias.iter().map(|(a, _)| *a)).collect();
            for n in &spellings {
                let p = if *n == k.sp { 7 } else { 4 };
                if rng.below(8) < p && !v.iter().any(|x| x == n) {
                    v.push(n.to_string());
                }
            }
            // the stack pointer under its alias only
            if k.name == "arm" && rng.chance(1, 4) {
                v.retain(|x| x != "sp");
                if !v.iter().any(|x| x == "r13") {
                    v.push("r13".into());
                }
            }
            Some(v)
        }
    };
    // ---- stack memory
    let big_endian = rng.chance(1, 6);
    let mut stack = vec![];
    for _ in 0..words {
        let v: u64 = match rng.below(6) {
            0 => boundary(rng),
            1 => base + 0x1000 + rng.below(0x100),
            2 => sp + w * rng.below(words),
            _ => rng.below(0x10000),
        };
        let le = v.to_le_bytes();
        let mut b = le[..w as usize].to_vec();
        if big_endian {
            b.reverse();
        }
        stack.extend_from_slice(&b);
    }
    if rng.chance(1, 10) {
        stack.truncate(stack.len().saturating_sub(1 + rng.below(3) as usize));
    }
    let stack_base = match rng.below(16) {
        0 => sp + w,
        1 => sp.wrapping_sub(stack.len() as u64),
        2 => u64::MAX - stack.len() as u64 + 1 + rng.below(2),
        _ => sp - w * rng.below(2),
    };
    // ---- modules
    let mut mods = vec![(base, 0x10000u32)];
    match rng.below(24) {
        0 => mods.clear(),
        1 => mods = vec![(base + 0x1000, 0x100)],
        12..=23 => {}
        2 => mods.push((1 << 47, 0x1000)),
        3 => mods.push(((1 << 48) - 0x800, 0x1000)),
        4 => mods.push((u64::MAX - 0xfff, 0x1000)),
        5 => mods.insert(0, (base + 0x8000, 0x10000)),
        6 => mods.push((base - 0x100, 0x200)),
        _ => {}
    }
    // ---- script
    let mut ops = vec![];
    let rd_addr = |rng: &mut Rng| match rng.below(8) {
        0 => stack_base.wrapping_sub(1),
        1 => stack_base,
        2 => stack_base.wrapping_add(stack.len() as u64).wrapping_sub(w),
        3 => stack_base.wrapping_add(stack.len() as u64).wrapping_sub(w - 1),
        4 => u64::MAX,
        5 => stack_base.wrapping_add(1),
        _ => stack_base.wrapping_add(w * rng.below(words)),
    };
    let value = |rng: &mut Rng| match rng.below(4) {
        0 | 1 => boundary(rng),
        2 => sp + w * (1 + rng.below(words)),
        _ => 0x401000 + rng.below(0x1000),
    };
    let n_ops = rng.below(10);
    for _ in 0..n_ops {
        ops.push(match rng.below(16) {
            0 => rng.pick(&[Op::Gi, Op::Hg, Op::Gp, Op::Mb]).clone(),
            1 | 2 => Op::Rd(rd_addr(rng)),
            3 | 4 | 5 => Op::Get(name_pool(k, rng)),
            6 | 7 | 8 | 9 => Op::Set(name_pool(k, rng), value(rng)),
            10 | 11 => Op::Clr(name_pool(k, rng)),
            12 => Op::Cfa(if rng.chance(1, 3) { boundary(rng) } else { sp + w * (1 + rng.below(words)) }),
            13 => Op::Ra(if rng.chance(1, 3) { boundary(rng) } else { 0x401000 + rng.below(0x1000) }),
            _ => {
                let mut lines = vec![gen_rules(k, rng, sp, words)];
                for _ in 0..rng.below(3) {
                    lines.push(gen_rules(k, rng, sp, words));
                }
                Op::Cfi(lines)
            }
        });
    }
    // most scripts recover a plausible frame so that the epilogue accepts it
    if rng.chance(3, 4) {
        let at = rng.below(ops.len() as u64 + 1) as usize;
        ops.insert(at, Op::Cfa(sp + w * (1 + rng.below(words))));
        let at = rng.below(ops.len() as u64 + 1) as usize;
        ops.insert(at, Op::Ra(if rng.chance(1, 8) { 0xff00_0000_0040_1234 } else { 0x401000 + rng.below(0x1000) }));
    }
    let c = CwCase {
        kind: k.name.to_string(),
        ctx,
        valid,
        instr: match rng.below(32) {
            0 => base.wrapping_sub(1),
            1 => base + 0x10000,
            _ => instr,
        },
        is_ctx: rng.chance(2, 3),
        grand: match rng.below(6) {
            0 => Some(None),
            1 => Some(Some(rng.pick(&[0u32, 4, 8, 0xffff_ffff]).clone())),
            _ => None,
        },
        mods,
        big_endian,
        stack_base,
        stack,
        ops,
        ret: !rng.chance(1, 10),
    };
    c.render()
}

/// directed families: every register name and alias of every kind, read, written and cleared, under
/// every singleton validity set and `All`, with values at the register width
pub fn gen_directed(emit: &mut dyn FnMut(String)) {
    for k in KINDS {
        let w = (k.bits / 8) as u64;
        let sp: u64 = if k.bits == 32 { 0x8000_0000 } else { 0x7ffd_0000_1000 };
        let mut stack = vec![];
        for i in 0..8u64 {
            let v = 0x401000 + i;
            stack.extend_from_slice(&v.to_le_bytes()[..w as usize]);
        }
        let spellings: Vec<&str> = k.regs.iter().copied().chain(k.alias.iter().map(|(a, _)| *a)).collect();
        let ctx: Vec<(String, u64)> = k
            .regs
            .iter()
            .enumerate()
            .map(|(i, r)| (r.to_string(), if *r == k.sp { sp } else if *r == k.ip { 0x400010 } else { 0x1100 + i as u64 }))
            .collect();
        let base = CwCase {
            kind: k.name.to_string(),
            ctx,
            valid: None,
            instr: 0x400010,
            is_ctx: true,
            grand: None,
            mods: vec![(0x400000, 0x10000)],
            big_endian: false,
            stack_base: sp,
            stack,
            ops: vec![],
            ret: true,
        };
        let frame_ops = |c: &mut CwCase| {
            c.ops.push(Op::Cfa(sp + 2 * w));
            c.ops.push(Op::Ra(0x401234));
        };
        let mut valids: Vec<Option<Vec<String>>> = vec![None, Some(vec![k.sp.to_string()])];
        for n in &spellings {
            valids.push(Some(vec![k.sp.to_string(), n.to_string()]));
            valids.push(Some(vec![n.to_string()]));
        }
        for v in &valids {
            // reads of every spelling; nothing written: the frame shows what is forwarded
            let mut c = base.clone();
            c.valid = v.clone();
            for n in &spellings {
                c.ops.push(Op::Get(n.to_string()));
            }
            frame_ops(&mut c);
            emit(c.render());
        }
        for n in spellings.iter().copied().chain(["nosuch"]) {
            for form in [n.to_string(), format!("${n}")] {
                for val in [0u64, 0xffff_ffff, 0x1_0000_0000, u64::MAX] {
                    // set, then the frame; set then clear under the canonical spelling; clear only
                    let mut c = base.clone();
                    frame_ops(&mut c);
                    c.ops.push(Op::Set(form.clone(), val));
                    emit(c.render());
                    let mut c2 = c.clone();
                    c2.ops.push(Op::Clr(k.canon(n).unwrap_or(n).to_string()));
                    emit(c2.render());
                }
                let mut c = base.clone();
                frame_ops(&mut c);
                c.ops.push(Op::Clr(form.clone()));
                emit(c.render());
                // the same through walk_with_stack_cfi
                for rule in ["4294967295", "4294967296", ".undef", "-1"] {
                    let mut c = base.clone();
                    let rules = format!(".cfa: {} .ra: {} {}: {}", sp + 2 * w, 0x401234, form, rule);
                    c.ops.push(Op::Cfi(vec![rules.into_bytes()]));
                    emit(c.render());
                }
            }
        }
        // set_cfa / set_ra at the width boundary, and the epilogue's edges
        for cfa in [0u64, sp, sp + w, 0xffff_ffff, 0x1_0000_0000, u64::MAX] {
            for ra in [0u64, 4095, 4096, 0xffff_ffff, 0x1_0000_0000, 0xff00_0000_0040_1234, u64::MAX] {
                for is_ctx in [true, false] {
                    let mut c = base.clone();
                    c.is_ctx = is_ctx;
                    c.ops.push(Op::Cfa(cfa));
                    c.ops.push(Op::Ra(ra));
                    emit(c.render());
                }
            }
        }
    }
}

// ------------------------------------------------------------------------------------ shrinking

pub fn shrink(case: &str, still_fails: &dyn Fn(&str) -> bool) -> String {
    let Some(mut c) = CwCase::parse(case) else { return case.to_string() };
    let mut progress = true;
    let mut rounds = 0;
    while progress && rounds < 12 {
        progress = false;
        rounds += 1;
        let mut i = 0;
        while i < c.ops.len() {
            let mut k = c.clone();
            k.ops.remove(i);
            if still_fails(&k.render()) {
                c = k;
                progress = true;
            } else {
                i += 1;
            }
        }
        // rules of a cfi call: drop lines, then tokens
        for i in 0..c.ops.len() {
            if let Op::Cfi(lines) = &c.ops[i] {
                let mut lines = lines.clone();
                let mut j = 1;
                while j < lines.len() {
                    let mut l2 = lines.clone();
                    l2.remove(j);
                    let mut k = c.clone();
                    k.ops[i] = Op::Cfi(l2.clone());
                    if still_fails(&k.render()) {
                        lines = l2;
                        c = k;
                        progress = true;
                    } else {
                        j += 1;
                    }
                }
                for j in 0..lines.len() {
                    let mut toks: Vec<String> = String::from_utf8_lossy(&lines[j]).split_ascii_whitespace().map(|s| s.to_string()).collect();
                    let mut t = 0;
                    while t < toks.len() {
                        let mut u = toks.clone();
                        u.remove(t);
                        let mut l2 = lines.clone();
                        l2[j] = u.join(" ").into_bytes();
                        let mut k = c.clone();
                        k.ops[i] = Op::Cfi(l2.clone());
                        if still_fails(&k.render()) {
                            toks = u;
                            lines = l2;
                            c = k;
                            progress = true;
                        } else {
                            t += 1;
                        }
                    }
                }
            }
        }
        let mut i = 0;
        while i < c.ctx.len() {
            let mut k = c.clone();
            k.ctx.remove(i);
            if still_fails(&k.render()) {
                c = k;
                progress = true;
            } else {
                i += 1;
            }
        }
        if let Some(v) = c.valid.clone() {
            let mut k = c.clone();
            k.valid = None;
            if still_fails(&k.render()) {
                c = k;
                progress = true;
            } else {
                let mut i = 0;
                let mut v = v;
                while i < v.len() {
                    let mut u = v.clone();
                    u.remove(i);
                    let mut k = c.clone();
                    k.valid = Some(u.clone());
                    if still_fails(&k.render()) {
                        v = u;
                        c = k;
                        progress = true;
                    } else {
                        i += 1;
                    }
                }
            }
        }
        if c.grand.is_some() {
            let mut k = c.clone();
            k.grand = None;
            if still_fails(&k.render()) {
                c = k;
                progress = true;
            }
        }
        if c.mods.len() > 1 {
            let mut i = 0;
            while i < c.mods.len() && c.mods.len() > 1 {
                let mut k = c.clone();
                k.mods.remove(i);
                if still_fails(&k.render()) {
                    c = k;
                    progress = true;
                } else {
                    i += 1;
                }
            }
        }
        if c.big_endian {
            let mut k = c.clone();
            k.big_endian = false;
            if still_fails(&k.render()) {
                c = k;
                progress = true;
            }
        }
    }
    c.render()
}
