//! `win rw …` cases (C07): STACK WIN evaluation on the REAL `CfiStackWalker<CONTEXT_X86>`.
//!
//! `CfiStackWalker` is a private struct of minidump-unwind, but `SymbolProvider::walk_frame` receives it
//! as `&mut dyn FrameWalker` (the trick of `cfi_cw.rs`). The provider below hands it to the real
//! `SymbolFile::walk_frame` of a symbol file parsed from the case's STACK WIN (+ STACK CFI) lines, inside
//! `minidump_unwind::walk_stack`, on a `CallStack` built by hand: `[grand callee?, callee]`, the callee's
//! CONTEXT_X86 with a PARTIAL validity set, `instruction` independent of `eip`, context or non-context trust,
//! a grand callee with a parameter size. What `walk_frame` returned and the frame `walk_stack` pushes (caller
//! context + validity set, or its absence) are compared verbatim with `MdModel.WinWalker.handle` — C07's
//! evaluator run on the model of the real walker (`MdModel.CfiWalker` at X86).
//!
//! Oracles on the implementation alone:
//!   * the mock twin (`MockWalker`, used by the `win walk` cases) runs the same `SymbolFile::walk_frame`; its
//!     result, its validity set and its values, pushed through the documented end of `get_caller_frame`
//!     (eip < 4096 / no stack-pointer progress ⇒ no frame), must be what the real walker produced — class
//!     `mock-twin-differs`. This anchors the mock-based `win walk` cases to the real struct.
//!   * the reference evaluation written from the walker.rs documentation (`stack::judge`, shared with the
//!     `win stack` cases): `win-stack-doc-mismatch`, `win-stack-implicit`, `win-non-output-set`, and the known
//!     finding `win-stack-forwarding`.
//!
//! case line:
//! `win rw valid:<all|some:name,..> trust:<ctx|other> base:<hex> instr:<hex> gc:<0|1>:<hex> cfi:<0|1>
//!         regs:<name=hex,..|-> mem:<hexbase>:<hexbytes|-> (rec:…)*`
//! answer: `=> notcalled` | `<0|1> => nocfi|rejected|frame in=<hex> valid:<name=hex,..>` | `PANIC`

use super::*;
use async_trait::async_trait;
use minidump::format::CONTEXT_X86;
use minidump::system_info::{Cpu, Os};
use minidump::{
    CpuContext, MinidumpContext, MinidumpContextValidity, MinidumpMemory, MinidumpModule, MinidumpModuleList,
    MinidumpRawContext, UnifiedMemory,
};
use minidump_unwind::{
    walk_stack, CallStack, FileError, FileKind, FillSymbolError, FrameSymbolizer, FrameTrust, StackFrame, SymbolProvider,
    SystemInfo,
};
use std::collections::HashSet;
use std::path::PathBuf;
use std::sync::atomic::{AtomicUsize, Ordering};
use std::sync::Mutex;

pub const MODULE_SIZE: u32 = 0x10_0000;

#[derive(Clone, Debug)]
pub struct RwCase {
    /// `None`: `MinidumpContextValidity::All`
    pub valid: Option<Vec<String>>,
    pub is_ctx: bool,
    /// `regs` = the cells of the callee's CONTEXT_X86 (valid or not)
    pub c: Case,
}

impl RwCase {
    pub fn parse(line: &str) -> Option<RwCase> {
        let f: Vec<&str> = line.split(' ').filter(|s| !s.is_empty()).collect();
        if f.len() < 10 || f[0] != "win" || f[1] != "rw" {
            return None;
        }
        let valid = match f[2].strip_prefix("valid:")? {
            "all" => None,
            v => {
                let names: Vec<String> = v.strip_prefix("some:")?.split(',').filter(|s| !s.is_empty()).map(|s| s.to_string()).collect();
                for (i, n) in names.iter().enumerate() {
                    if !X86_REGS.contains(&n.as_str()) || names[..i].contains(n) {
                        return None;
                    }
                }
                Some(names)
            }
        };
        let is_ctx = match f[3].strip_prefix("trust:")? {
            "ctx" => true,
            "other" => false,
            _ => return None,
        };
        let c = parse_case(&format!("win walk {}", f[4..].join(" ")))?;
        for (i, (n, _)) in c.regs.iter().enumerate() {
            if !X86_REGS.contains(&n.as_str()) || c.regs[..i].iter().any(|(m, _)| m == n) {
                return None;
            }
        }
        if (!c.has_gc && c.gc_param != 0) || c.base.checked_add(MODULE_SIZE as u64).is_none() {
            return None;
        }
        Some(RwCase { valid, is_ctx, c })
    }

    pub fn render(&self) -> String {
        let walk = render(&Case { mode: "walk".into(), ..self.c.clone() });
        let rest = walk.strip_prefix("win walk ").unwrap();
        let valid = match &self.valid {
            None => "all".to_string(),
            Some(v) => format!("some:{}", v.join(",")),
        };
        format!("win rw valid:{valid} trust:{} {rest}", if self.is_ctx { "ctx" } else { "other" })
    }

    fn is_valid(&self, n: &str) -> bool {
        match &self.valid {
            None => true,
            Some(v) => v.iter().any(|x| x == n),
        }
    }
    fn cell(&self, n: &str) -> u32 {
        self.c.regs.iter().find(|(m, _)| m == n).map(|(_, v)| *v).unwrap_or(0)
    }

    /// the same callee as the mock-based `win walk` cases describe it: the registers that are VALID, with values
    pub fn twin_case(&self) -> Case {
        let regs = X86_REGS.iter().filter(|r| self.is_valid(r)).map(|r| (r.to_string(), self.cell(r))).collect();
        Case { mode: "walk".into(), regs, ..self.c.clone() }
    }
}

// ------------------------------------------------------------------------------------ the real walker

struct WinProvider<'a> {
    sf: &'a SymbolFile,
    callee_idx: usize,
    walking: &'a AtomicUsize,
    /// (number of `walk_frame` calls for the callee, what the first one returned)
    seen: Mutex<(u32, bool)>,
}

#[async_trait]
impl<'a> SymbolProvider for WinProvider<'a> {
    async fn fill_symbol(&self, _module: &(dyn Module + Sync), _frame: &mut (dyn FrameSymbolizer + Send)) -> Result<(), FillSymbolError> {
        Err(FillSymbolError {})
    }
    async fn walk_frame(&self, module: &(dyn Module + Sync), walker: &mut (dyn FrameWalker + Send)) -> Option<()> {
        // frames found later (by the frame-pointer or scan techniques) are not the case's subject
        if self.walking.load(Ordering::SeqCst) != self.callee_idx {
            return None;
        }
        {
            let mut s = self.seen.lock().unwrap();
            s.0 += 1;
            if s.0 != 1 {
                return None;
            }
        }
        // the REAL `SymbolFile::walk_frame` on the REAL `CfiStackWalker<CONTEXT_X86>`
        let r = self.sf.walk_frame(module, walker);
        self.seen.lock().unwrap().1 = r.is_some();
        r
    }
    async fn get_file_path(&self, _module: &(dyn Module + Sync), _file_kind: FileKind) -> Result<PathBuf, FileError> {
        Err(FileError::NotFound)
    }
}

thread_local! {
    static RT: tokio::runtime::Runtime = tokio::runtime::Builder::new_current_thread().build().unwrap();
}

struct RealRun {
    calls: u32,
    flag: bool,
    frame: Option<StackFrame>,
}

fn x86_context(regs: &[(String, u32)]) -> Option<CONTEXT_X86> {
    let mut raw = CONTEXT_X86::default();
    for (n, v) in regs {
        raw.set_register(n, *v)?;
    }
    Some(raw)
}

fn run_real(rc: &RwCase) -> Option<Result<RealRun, String>> {
    let c = &rc.c;
    let raw = x86_context(&c.regs)?;
    let valid = match &rc.valid {
        None => MinidumpContextValidity::All,
        Some(names) => {
            let mut set: HashSet<&'static str> = HashSet::new();
            for n in names {
                set.insert(memoize(n)?);
            }
            MinidumpContextValidity::Some(set)
        }
    };
    let text = symbol_text(c);
    let r = catch(|| {
        let sf = SymbolFile::from_bytes(text.as_bytes()).expect("generated symbol file parses");
        let context = MinidumpContext { raw: MinidumpRawContext::X86(raw), valid };
        let mut callee = StackFrame::from_context(context, if rc.is_ctx { FrameTrust::Context } else { FrameTrust::CallFrameInfo });
        callee.instruction = c.instr;
        let mut frames = vec![];
        if c.has_gc {
            let g = MinidumpContext { raw: MinidumpRawContext::X86(CONTEXT_X86::default()), valid: MinidumpContextValidity::All };
            let mut gf = StackFrame::from_context(g, FrameTrust::Context);
            gf.parameter_size = Some(c.gc_param);
            frames.push(gf);
        }
        frames.push(callee);
        let n0 = frames.len();
        let modules = MinidumpModuleList::from_modules(vec![MinidumpModule::new(c.base, MODULE_SIZE, "m")]);
        let system_info = SystemInfo {
            os: Os::Windows,
            os_version: None,
            os_build: None,
            cpu: Cpu::X86,
            cpu_info: None,
            cpu_microcode_version: None,
            cpu_count: 1,
        };
        let walking = AtomicUsize::new(usize::MAX);
        let provider = WinProvider { sf: &sf, callee_idx: n0 - 1, walking: &walking, seen: Mutex::new((0, false)) };
        let memory = MinidumpMemory {
            desc: Default::default(),
            base_address: c.mem_base,
            size: c.mem.len() as u64,
            bytes: &c.mem,
            endian: scroll::LE,
        };
        let limit = c.mem.len() + 64;
        let mut stack = CallStack::with_info(0, minidump_unwind::CallStackInfo::Ok);
        stack.frames = frames;
        {
            let walking = &walking;
            let guard = move |idx: usize, _f: &StackFrame| {
                walking.store(idx, Ordering::SeqCst);
                if idx > limit {
                    panic!("walk exceeded {limit} frames: no progress");
                }
            };
            RT.with(|rt| rt.block_on(walk_stack(0, guard, &mut stack, Some(UnifiedMemory::Memory(&memory)), &modules, &system_info, &provider)));
        }
        let seen = *provider.seen.lock().unwrap();
        let frame = stack.frames.get(n0).filter(|f| f.trust == FrameTrust::CallFrameInfo).cloned();
        RealRun { calls: seen.0, flag: seen.1, frame }
    });
    Some(r)
}

fn frame_regs(f: &StackFrame) -> Option<BTreeMap<String, u32>> {
    match &f.context.valid {
        MinidumpContextValidity::All => None,
        MinidumpContextValidity::Some(s) => Some(s.iter().map(|n| (n.to_string(), f.context.get_register_always(n) as u32)).collect()),
    }
}

fn show(flag: bool, frame: Option<(u64, &BTreeMap<String, u32>)>) -> String {
    let head = flag as u8;
    if !flag {
        return format!("{head} => nocfi");
    }
    match frame {
        None => format!("{head} => rejected"),
        Some((instr, regs)) => format!(
            "{head} => frame in={instr:x} valid:{}",
            regs.iter().map(|(n, v)| format!("{n}={v:x}")).collect::<Vec<_>>().join(",")
        ),
    }
}

// ------------------------------------------------------------------------------------ exec

pub fn exec(case: &str) -> ImplResult {
    let mut res = ImplResult::default();
    let Some(rc) = RwCase::parse(case) else {
        res.out = "bad-op".into();
        return res;
    };
    let c = &rc.c;
    let run = match run_real(&rc) {
        None => {
            res.out = "bad-op".into();
            return res;
        }
        Some(Err(msg)) => {
            res.out = "PANIC".into();
            res.oracle.push(("win-panic".into(), format!("walk_stack (real walker): {msg}")));
            return res;
        }
        Some(Ok(r)) => r,
    };
    let real_regs = run.frame.as_ref().map(|f| (f.instruction, frame_regs(f)));
    res.out = if run.calls == 0 {
        "=> notcalled".into()
    } else {
        match &real_regs {
            Some((_, None)) => {
                res.oracle.push(("win-non-output-set".into(), "a frame recovered by walk_frame reports every register as valid".into()));
                "1 => frame all-valid".into()
            }
            Some((i, Some(regs))) => show(run.flag, Some((*i, regs))),
            None => show(run.flag, None),
        }
    };
    // ---- tags
    let twin = rc.twin_case();
    let sel = doc_select(&twin);
    res.tags.push(
        match &sel {
            Some(Some((true, _))) => "rw-kind:framedata",
            Some(Some((false, _))) => "rw-kind:fpo",
            Some(None) => "rw-kind:none",
            None => "rw-kind:overlap-repair",
        }
        .into(),
    );
    res.tags.push(
        if run.calls == 0 {
            "rw-result:notcalled"
        } else if !run.flag {
            "rw-result:nocfi"
        } else if run.frame.is_none() {
            "rw-result:rejected"
        } else {
            "rw-result:frame"
        }
        .into(),
    );
    if rc.valid.is_some() {
        res.tags.push("rw:partial-validity".into());
    }
    if c.has_gc {
        res.tags.push(if c.gc_param == 0 { "rw:grand-callee-0" } else { "rw:grand-callee-param" }.into());
    }
    if !rc.is_ctx {
        res.tags.push("rw:non-context-callee".into());
    }
    if c.regs.iter().any(|(_, v)| *v == u32::MAX) {
        res.tags.push("rw:reg=2^32-1".into());
    }
    let esp = rc.cell("esp");
    if esp < 0x40 {
        res.tags.push("rw:esp-near-0".into());
    }
    if esp >= 0xffff_ffc0 {
        res.tags.push("rw:esp-near-2^32".into());
    }
    if run.calls == 0 {
        return res;
    }
    res.nontrivial = matches!(sel, Some(Some(_)) | None);

    // ---- the mock twin: same symbol file, same `SymbolFile::walk_frame`, the hand-written walker
    let tw = match run_walk(&twin) {
        Ok(o) => o,
        Err(msg) => {
            res.oracle.push(("mock-twin-differs".into(), format!("real walker: {}; mock twin panics: {msg}", res.out)));
            return res;
        }
    };
    // the twin's caller context starts as a clone of ALL the callee's cells; `run_walk` reports valid ones only
    let twin_line = if !tw.ok {
        show(false, None)
    } else {
        // the end of x86 `get_caller_frame`, from its documentation: the instruction pointer must not be
        // "nullish" (< 4096), the stack pointer must have grown; both are read from the context whether or not
        // they are valid; the frame's instruction is eip - 1
        let raw = |n: &str| tw.valid.get(n).copied().unwrap_or_else(|| rc.cell(n));
        let (ip, sp) = (raw("eip"), raw("esp"));
        if ip < 4096 || sp <= rc.cell("esp") {
            show(true, None)
        } else {
            let regs: BTreeMap<String, u32> = tw.valid.clone();
            show(true, Some((ip as u64 - 1, &regs)))
        }
    };
    if twin_line != res.out {
        res.oracle.push(("mock-twin-differs".into(), format!("real walker: {}; mock twin: {twin_line}", res.out)));
    }

    // ---- the documented result (shared with the `win stack` cases)
    let f1 = match (&real_regs, run.flag) {
        (Some((_, Some(regs))), true) => Some(stack::Frame1 { trust_cfi: true, valid: regs.clone() }),
        _ => None,
    };
    stack::judge(&twin, &f1, &res.out.clone(), &mut res);
    res
}

// ------------------------------------------------------------------------------------ generator

/// turn a `win walk` case (the generators of `gen`) into a case for the real walker: the register list
/// becomes the cells, a validity set is drawn, the impossible `(no grand callee, parameter size)` is repaired
pub fn from_walk(c: &Case, rng: &mut Rng) -> String {
    let mut c = c.clone();
    if !c.has_gc && c.gc_param != 0 {
        if rng.chance(1, 2) {
            c.has_gc = true;
        } else {
            c.gc_param = 0;
        }
    }
    if c.base.checked_add(MODULE_SIZE as u64).is_none() {
        c.base = 0x40_0000;
    }
    // `walk_stack` unwinds only while the stack pointer is inside the stack memory
    let words = c.mem.len() / 4;
    let esp_in = |v: u32| (v as u64) >= c.mem_base && (v as u64) - c.mem_base < c.mem.len() as u64;
    let esp_now = c.regs.iter().find(|(n, _)| n == "esp").map(|(_, v)| *v);
    if words > 0 && !esp_now.is_some_and(esp_in) && !rng.chance(1, 8) {
        let v = match rng.below(6) {
            0 => c.mem_base as u32,                               // first word (esp = 0 for a stack at 0)
            1 => (c.mem_base + 4 * (words as u64 - 1)) as u32,    // last word
            2 => (c.mem_base + c.mem.len() as u64 - 1).min(u32::MAX as u64) as u32, // last byte
            _ => (c.mem_base as u32).wrapping_add(4 * rng.below((words as u64 / 2).max(1)) as u32),
        };
        c.regs.retain(|(n, _)| n != "esp");
        c.regs.push(("esp".into(), v));
    }
    // values at the top of the register range
    if rng.chance(1, 6) {
        let n = *rng.pick(&["ebp", "ebx", "esi", "edi", "eip", "eax", "eflags"]);
        c.regs.retain(|(m, _)| m != n);
        c.regs.push((n.to_string(), *rng.pick(&[0xffff_ffffu32, 0xffff_fffe, 0x8000_0000, 0x7fff_ffff, 0])));
    }
    // validity: everything, or the listed registers minus a few, sometimes plus one that holds zero
    let valid = if rng.chance(1, 5) {
        None
    } else {
        let mut v: Vec<String> = c.regs.iter().map(|(n, _)| n.clone()).collect();
        if rng.chance(1, 2) {
            for _ in 0..1 + rng.below(2) {
                if v.len() > 1 {
                    // mostly keep esp (the unwinder needs it)
                    let i = rng.below(v.len() as u64) as usize;
                    if v[i] != "esp" || rng.chance(1, 6) {
                        v.remove(i);
                    }
                }
            }
        }
        if rng.chance(1, 6) {
            let n = *rng.pick(&X86_REGS);
            if !v.iter().any(|x| x == n) {
                v.push(n.to_string());
            }
        }
        Some(v)
    };
    // `instruction` inside the module (mostly)
    RwCase { valid, is_ctx: !c.has_gc || rng.chance(1, 3), c }.render()
}

pub fn shrink(case: &str, still_fails: &dyn Fn(&str) -> bool) -> String {
    let Some(mut rc) = RwCase::parse(case) else { return case.to_string() };
    let mut progress = true;
    let mut rounds = 0;
    while progress && rounds < 30 {
        progress = false;
        rounds += 1;
        let mut try_ = |d: RwCase, rc: &mut RwCase| -> bool {
            if still_fails(&d.render()) {
                *rc = d;
                true
            } else {
                false
            }
        };
        // records
        let mut i = 0;
        while rc.c.recs.len() > 1 && i < rc.c.recs.len() {
            let mut d = rc.clone();
            d.c.recs.remove(i);
            if try_(d, &mut rc) {
                progress = true;
            } else {
                i += 1;
            }
        }
        // program tokens
        for ri in 0..rc.c.recs.len() {
            if rc.c.recs[ri].ty != '4' {
                continue;
            }
            let mut toks: Vec<Vec<u8>> =
                rc.c.recs[ri].rest.split(|b| b.is_ascii_whitespace()).filter(|p| !p.is_empty()).map(|p| p.to_vec()).collect();
            let mut i = 0;
            while i < toks.len() {
                let mut t = toks.clone();
                t.remove(i);
                let mut d = rc.clone();
                d.c.recs[ri].rest = t.join(&b' ');
                if try_(d, &mut rc) {
                    toks = t;
                    progress = true;
                } else {
                    i += 1;
                }
            }
        }
        // cells other than esp, validity entries, the validity set itself
        let mut i = 0;
        while i < rc.c.regs.len() {
            let mut d = rc.clone();
            let (n, _) = d.c.regs.remove(i);
            if let Some(v) = &mut d.valid {
                v.retain(|x| *x != n);
            }
            if n != "esp" && try_(d, &mut rc) {
                progress = true;
            } else {
                i += 1;
            }
        }
        if let Some(v) = rc.valid.clone() {
            for i in 0..v.len() {
                let mut d = rc.clone();
                if let Some(dv) = &mut d.valid {
                    if i < dv.len() {
                        dv.remove(i);
                    }
                }
                if try_(d, &mut rc) {
                    progress = true;
                    break;
                }
            }
        }
        if rc.c.cfi {
            let mut d = rc.clone();
            d.c.cfi = false;
            if try_(d, &mut rc) {
                progress = true;
            }
        }
        if rc.c.has_gc {
            let mut d = rc.clone();
            d.c.has_gc = false;
            d.c.gc_param = 0;
            if try_(d, &mut rc) {
                progress = true;
            }
        }
        for ri in 0..rc.c.recs.len() {
            for f in 0..3 {
                let mut d = rc.clone();
                let slot = match f {
                    0 => &mut d.c.recs[ri].par,
                    1 => &mut d.c.recs[ri].sav,
                    _ => &mut d.c.recs[ri].loc,
                };
                if *slot != 0 {
                    *slot = 0;
                    if try_(d, &mut rc) {
                        progress = true;
                    }
                }
            }
        }
    }
    rc.render()
}
