//! Engine `paths` (C17): the public lookup functions of `breakpad-symbols` against the Lean model
//! `MdModel.Paths`, plus the property's own oracle on the implementation's answers: every relative
//! path that is produced is genuinely relative (checked on the string, platform independent) and,
//! joined onto a root with `std::path::Path` / onto a base URL with `url::Url`, stays under it.
//!
//! case lines (= model requests; strings are the hex of their UTF-8 bytes, `-` = empty):
//!   paths <op> code:<hex> debug:<hex|none> did:<none|u:<hex16>:<age hex>|p:<hex4>:<age hex>> cid:<hex|none>
//!         op ∈ sym bin extra codeinfo moz-sym moz-bin moz-extra
//!   paths mozraw server:<hex>
//!   paths join unix root:<hex> rel:<hex>
//!   paths rooted rel:<hex>
//!   paths url <sym|bin|extra|codeinfo> base:<hex> code:.. debug:.. did:.. cid:..
//!                                    (the real HttpSymbolSupplier against a loopback server: path of the request)
//!   paths urlref rel:<hex>           (oracle only: what the pre-fix `Url::join(rel)` would do — documentation)
//!   paths lowercase-table            (oracle only: the fact the model's ASCII lower-casing rests on)
//!   paths supplier                   (oracle only: SimpleSymbolSupplier over a temp dir with bait files)

use crate::common::*;
use breakpad_symbols::{
    binary_lookup, breakpad_sym_lookup, code_info_breakpad_sym_lookup, extra_debuginfo_lookup, lookup,
    moz_lookup, FileKind, FileLookup, HttpSymbolSupplier, SimpleModule, SimpleSymbolSupplier, SymbolSupplier,
};
use std::io::{Read, Write};
use std::sync::{Arc, Mutex};
use debugid::{CodeId, DebugId};
use std::path::{Component, Path};

pub struct Paths;

const OPS: &[&str] = &["sym", "bin", "extra", "codeinfo", "moz-sym", "moz-bin", "moz-extra"];
const ALPHABET: &[char] = &['a', '.', '/', '\\', ':', '\0', 'é'];

fn hx(s: &str) -> String {
    hex(s.as_bytes())
}
fn unhx(s: &str) -> Option<String> {
    String::from_utf8(unhex(s)?).ok()
}
fn opt_unhx(s: &str) -> Option<Option<String>> {
    if s == "none" {
        Some(None)
    } else {
        unhx(s).map(Some)
    }
}

#[derive(Clone, Debug, PartialEq)]
enum Did {
    None,
    Uuid([u8; 16], u32),
    Pdb20([u8; 4], u32),
}

impl Did {
    fn render(&self) -> String {
        match self {
            Did::None => "none".into(),
            Did::Uuid(b, a) => format!("u:{}:{:x}", hex(b), a),
            Did::Pdb20(b, a) => format!("p:{}:{:x}", hex(b), a),
        }
    }
    fn parse(s: &str) -> Option<Did> {
        if s == "none" {
            return Some(Did::None);
        }
        let p: Vec<&str> = s.split(':').collect();
        if p.len() != 3 {
            return None;
        }
        let b = unhex(p[1])?;
        let a = u32::from_str_radix(p[2], 16).ok()?;
        match p[0] {
            "u" => Some(Did::Uuid(b.try_into().ok()?, a)),
            "p" => Some(Did::Pdb20(b.try_into().ok()?, a)),
            _ => None,
        }
    }
    fn build(&self) -> Option<DebugId> {
        match self {
            Did::None => None,
            Did::Uuid(b, a) => {
                // from_guid_age swaps the first three GUID fields; pre-swap so that the UUID bytes are `b`
                let g = [
                    b[3], b[2], b[1], b[0], b[5], b[4], b[7], b[6], b[8], b[9], b[10], b[11], b[12], b[13],
                    b[14], b[15],
                ];
                Some(DebugId::from_guid_age(&g, *a).expect("16 bytes"))
            }
            Did::Pdb20(b, a) => Some(DebugId::from_pdb20(u32::from_be_bytes(*b), *a)),
        }
    }
}

#[derive(Clone, Debug)]
struct LookupCase {
    op: String,
    code: String,
    debug: Option<String>,
    did: Did,
    cid: Option<String>,
}

impl LookupCase {
    fn render(&self) -> String {
        format!(
            "paths {} code:{} debug:{} did:{} cid:{}",
            self.op,
            hx(&self.code),
            self.debug.as_deref().map(hx).unwrap_or_else(|| "none".into()),
            self.did.render(),
            self.cid.as_deref().map(hx).unwrap_or_else(|| "none".into()),
        )
    }
    fn parse(f: &[&str]) -> Option<LookupCase> {
        if f.len() != 6 || !OPS.contains(&f[1]) {
            return None;
        }
        Some(LookupCase {
            op: f[1].to_string(),
            code: unhx(f[2].strip_prefix("code:")?)?,
            debug: opt_unhx(f[3].strip_prefix("debug:")?)?,
            did: Did::parse(f[4].strip_prefix("did:")?)?,
            cid: opt_unhx(f[5].strip_prefix("cid:")?)?,
        })
    }
    fn module(&self) -> SimpleModule {
        SimpleModule::from_basic_info(
            self.debug.clone(),
            self.did.build(),
            Some(self.code.clone()),
            self.cid.as_ref().map(|s| CodeId::new(s.clone())),
        )
    }
}

// ------------------------------------------------------------------------------------ the oracle

fn is_sep(c: char) -> bool {
    c == '/' || c == '\\'
}

/// The property's predicate, on the string alone (platform independent): why `rel` is not
/// genuinely relative, if it is not.
fn rooted_violations(rel: &str) -> Vec<&'static str> {
    let mut v = vec![];
    let cs: Vec<char> = rel.chars().collect();
    if cs.is_empty() {
        v.push("rel-empty");
    }
    if cs.len() >= 2 && is_sep(cs[0]) && is_sep(cs[1]) {
        v.push("rel-unc-prefix");
    } else if !cs.is_empty() && is_sep(cs[0]) {
        v.push("rel-leading-separator");
    }
    if cs.len() >= 2 && cs[0].is_ascii_alphabetic() && cs[1] == ':' {
        v.push("rel-drive-prefix");
    }
    if rel.split(is_sep).any(|c| c == "..") {
        v.push("rel-not-rooted-dotdot");
    }
    v
}
fn rooted(rel: &str) -> bool {
    rooted_violations(rel).is_empty()
}

const FS_ROOT: &str = "/srv/symbols/root";
const URL_BASE: &str = "https://symbols.example/base/dir/";

/// Join onto a root with the host's `Path` and walk the components: the result must keep the
/// root as a prefix and never climb above it.
fn fs_join_escapes(rel: &str) -> Option<String> {
    let root = Path::new(FS_ROOT);
    let joined = root.join(rel);
    let mut rc = root.components();
    let mut jc = joined.components();
    for want in rc.by_ref() {
        match jc.next() {
            Some(got) if got == want => {}
            other => return Some(format!("joined {:?}: root component {:?} became {:?}", joined, want, other)),
        }
    }
    let mut depth: i64 = 0;
    for c in jc {
        match c {
            Component::Normal(_) => depth += 1,
            Component::CurDir => {}
            Component::ParentDir => {
                depth -= 1;
                if depth < 0 {
                    return Some(format!("joined {:?} climbs above the root", joined));
                }
            }
            Component::RootDir | Component::Prefix(_) => {
                return Some(format!("joined {:?} restarts at a root/prefix", joined))
            }
        }
    }
    None
}

/// Join onto a base URL exactly like http.rs does (`base_url.join(rel)`): (class, detail) if the
/// result is not below the base.
fn url_join_escapes(rel: &str) -> Option<(&'static str, String)> {
    let base = url::Url::parse(URL_BASE).unwrap();
    match base.join(rel) {
        Err(_) => None, // the consumers map this to NotFound
        Ok(u) => {
            if u.scheme() != base.scheme() || u.host_str() != base.host_str() || u.port() != base.port() {
                Some(("url-join-other-origin", format!("{} joined with {:?} = {}", URL_BASE, rel, u)))
            } else if !u.path().starts_with(base.path()) {
                Some(("url-join-escapes-base-path", format!("{} joined with {:?} = {}", URL_BASE, rel, u)))
            } else {
                None
            }
        }
    }
}

/// Percent-decode an ASCII path segment.
fn pct_decode(seg: &str) -> Vec<u8> {
    let b = seg.as_bytes();
    let mut out = vec![];
    let mut i = 0;
    while i < b.len() {
        if b[i] == b'%' && i + 2 < b.len() {
            let h = |c: u8| (c as char).to_digit(16);
            if let (Some(x), Some(y)) = (h(b[i + 1]), h(b[i + 2])) {
                out.push((x * 16 + y) as u8);
                i += 3;
                continue;
            }
        }
        out.push(b[i]);
        i += 1;
    }
    out
}

/// Run `f` against a loopback HTTP server that answers 404 to everything; returns the request
/// targets (`/path?query`) it received, in order.
fn with_server<F: FnOnce(&str)>(base_path: &str, f: F) -> Vec<String> {
    let listener = std::net::TcpListener::bind("127.0.0.1:0").expect("bind loopback");
    let port = listener.local_addr().unwrap().port();
    let seen: Arc<Mutex<Vec<String>>> = Arc::new(Mutex::new(vec![]));
    let seen2 = seen.clone();
    let th = std::thread::spawn(move || {
        for conn in listener.incoming() {
            let Ok(mut conn) = conn else { break };
            let _ = conn.set_read_timeout(Some(std::time::Duration::from_secs(5)));
            let mut buf = vec![];
            let mut tmp = [0u8; 4096];
            while !buf.windows(4).any(|w| w == b"\r\n\r\n") {
                match conn.read(&mut tmp) {
                    Ok(0) | Err(_) => break,
                    Ok(n) => buf.extend_from_slice(&tmp[..n]),
                }
            }
            let head = String::from_utf8_lossy(&buf).to_string();
            let line = head.lines().next().unwrap_or("").to_string();
            let target = line.split(' ').nth(1).unwrap_or("").to_string();
            let _ = conn.write_all(b"HTTP/1.1 404 Not Found\r\nContent-Length: 0\r\nConnection: close\r\n\r\n");
            if target == "/__stop" {
                break;
            }
            seen2.lock().unwrap().push(target);
        }
    });
    let base = format!("http://127.0.0.1:{port}{base_path}");
    f(&base);
    if let Ok(mut c) = std::net::TcpStream::connect(("127.0.0.1", port)) {
        let _ = c.write_all(b"GET /__stop HTTP/1.1\r\nHost: x\r\n\r\n");
        let mut sink = vec![];
        let _ = c.read_to_end(&mut sink);
    }
    let _ = th.join();
    let v = seen.lock().unwrap().clone();
    v
}

/// The consumers of `server_rel`: the real `HttpSymbolSupplier` is pointed at a loopback server
/// below `base_path`; the path of the request it sends is the observation.
fn exec_url(op: &str, base_path: &str, c: &LookupCase) -> ImplResult {
    let mut res = ImplResult::default();
    res.tags.push(format!("op:url-{op}"));
    let m = c.module();
    if op != "codeinfo" && (c.did == Did::None || c.debug.is_none()) {
        // without debug info `locate_symbols` takes the code-info route (op `codeinfo`), and the
        // file lookups have nothing to ask for
        res.out = "none".into();
        return res;
    }
    if op == "codeinfo" && (c.did != Did::None && c.debug.is_some()) {
        res.out = "bad-op".into();
        return res;
    }
    let expect_request = match op {
        "sym" => breakpad_sym_lookup(&m).is_some(),
        "bin" => binary_lookup(&m).is_some(),
        "extra" => extra_debuginfo_lookup(&m).is_some(),
        _ => code_info_breakpad_sym_lookup(&m).is_some(),
    };
    let r = catch(|| {
        with_server(base_path, |base| {
            let tmp = tempfile::tempdir().expect("tempdir");
            let cache = tmp.path().join("cache");
            let t2 = tmp.path().join("tmp");
            std::fs::create_dir_all(&cache).unwrap();
            std::fs::create_dir_all(&t2).unwrap();
            let rt = tokio::runtime::Builder::new_current_thread().enable_all().build().unwrap();
            rt.block_on(async {
                let sup = HttpSymbolSupplier::new(
                    vec![base.to_string()],
                    cache.clone(),
                    t2.clone(),
                    vec![],
                    std::time::Duration::from_secs(5),
                );
                match op {
                    "sym" | "codeinfo" => {
                        let _ = sup.locate_symbols(&m).await;
                    }
                    "bin" => {
                        let _ = sup.locate_file(&m, FileKind::Binary).await;
                    }
                    _ => {
                        let _ = sup.locate_file(&m, FileKind::ExtraDebugInfo).await;
                    }
                }
            });
            // nothing may have been written outside the cache/tmp directories (404: nothing at all)
        })
    });
    match r {
        Err(msg) => {
            res.out = "PANIC".into();
            res.oracle.push(("url-consumer-panics".into(), msg));
        }
        Ok(targets) => {
            // `sym` with complete debug info sends exactly the symbol request; `codeinfo` cases have no
            // debug info, so the only request is the code-info lookup; bin/extra: the fetch_lookup request
            let first = targets.first().cloned();
            match first {
                None => {
                    res.out = "none".into();
                    if expect_request {
                        // the lookup exists but no request reached the server's origin: either the join
                        // refused it (model says `none` too) or it went somewhere else (model differs)
                        res.tags.push("url:no-request".into());
                    }
                }
                Some(t) => {
                    let path = t.split(['?', '#']).next().unwrap_or("").to_string();
                    res.out = format!("path:{}", hx(&path));
                    res.nontrivial = true;
                    let norm = if base_path.ends_with('/') { base_path.to_string() } else { format!("{base_path}/") };
                    let dir = norm.as_str();
                    match path.strip_prefix(dir) {
                        None => res.oracle.push((
                            "url-request-outside-base-path".into(),
                            format!("base {base_path:?}, request {t:?}"),
                        )),
                        Some(tail) => {
                            for seg in tail.split(['/', '\\']) {
                                let d = pct_decode(seg);
                                if d == b"." || d == b".." {
                                    res.oracle.push((
                                        "url-request-dot-segment".into(),
                                        format!("base {base_path:?}, request {t:?}: segment {seg:?}"),
                                    ));
                                }
                            }
                            if tail.contains('\\') {
                                res.oracle.push(("url-request-backslash".into(), format!("request {t:?}")));
                            }
                        }
                    }
                    if !expect_request {
                        res.oracle.push(("url-request-without-lookup".into(), format!("request {t:?}")));
                    }
                }
            }
        }
    }
    res
}

/// Documentation of the repaired defect: what `Url::join(rel)` (the pre-fix consumer) does with a
/// lookup path. Not an obligation of the current code; the result is only tagged.
fn exec_urlref(rel: &str) -> ImplResult {
    let mut res = ImplResult::default();
    res.tags.push("op:urlref".into());
    match url_join_escapes(rel) {
        None => res.out = "inside-or-error".into(),
        Some((class, d)) => {
            res.out = format!("{class}");
            res.tags.push(format!("old-url-join:{class}"));
            let _ = d;
        }
    }
    res.nontrivial = true;
    res
}

fn check_rel(res: &mut ImplResult, which: &str, rel: &str, is_server: bool) {
    for class in rooted_violations(rel) {
        res.oracle.push((class.to_string(), format!("{which} = {rel:?}")));
    }
    if let Some(d) = fs_join_escapes(rel) {
        res.oracle.push(("join-escapes-root".into(), format!("{which} = {rel:?}: {d}")));
    }
    let _ = is_server;
}

fn show_lookup(l: &FileLookup) -> String {
    format!(
        "cache:{} server:{} file:{} id:{} rooted:{},{}",
        hx(&l.cache_rel),
        hx(&l.server_rel),
        hx(&l.debug_file),
        hx(&l.debug_id),
        rooted(&l.cache_rel) as u8,
        rooted(&l.server_rel) as u8
    )
}

fn name_tags(res: &mut ImplResult, which: &str, s: &str) {
    let mut t = |x: &str| res.tags.push(format!("{which}:{x}"));
    if s.is_empty() {
        t("empty");
    }
    if s.contains('/') {
        t("has-slash");
    }
    if s.contains('\\') {
        t("has-backslash");
    }
    if s.split(is_sep).any(|c| c == "..") {
        t("has-dotdot");
    }
    if s.contains(':') {
        t("has-colon");
    }
    if s.contains('\0') {
        t("has-nul");
    }
    if !s.is_ascii() {
        t("non-ascii");
    }
    if s.ends_with(is_sep) {
        t("trailing-sep");
    }
    let n = s.chars().count();
    t(match n {
        0..=4 => "len<=4",
        5..=32 => "len<=32",
        33..=256 => "len<=256",
        _ => "len>256",
    });
}

fn exec_lookup(c: &LookupCase) -> ImplResult {
    let mut res = ImplResult::default();
    res.tags.push(format!("op:{}", c.op));
    name_tags(&mut res, "code", &c.code);
    if let Some(d) = &c.debug {
        name_tags(&mut res, "debug", d);
    } else {
        res.tags.push("debug:absent".into());
    }
    let m = c.module();
    let kind = |s: &str| match s {
        "sym" => FileKind::BreakpadSym,
        "bin" => FileKind::Binary,
        _ => FileKind::ExtraDebugInfo,
    };
    let r = catch(|| -> String {
        match c.op.as_str() {
            "codeinfo" => match code_info_breakpad_sym_lookup(&m) {
                None => "none".into(),
                Some(rel) => format!("rel:{} rooted:{}", hx(&rel), rooted(&rel) as u8),
            },
            "sym" | "bin" | "extra" => {
                // `lookup` dispatches to the three functions; both entry points must agree
                let via_lookup = lookup(&m, kind(&c.op));
                let direct = match c.op.as_str() {
                    "sym" => breakpad_sym_lookup(&m),
                    "bin" => binary_lookup(&m),
                    _ => extra_debuginfo_lookup(&m),
                };
                let a = via_lookup.as_ref().map(show_lookup).unwrap_or_else(|| "none".into());
                let b = direct.as_ref().map(show_lookup).unwrap_or_else(|| "none".into());
                if a != b {
                    format!("lookup-dispatch-differs {a} | {b}")
                } else {
                    a
                }
            }
            _ => match lookup(&m, kind(&c.op[4..])) {
                None => "none".into(),
                Some(l) => show_lookup(&moz_lookup(l)),
            },
        }
    });
    match r {
        Err(msg) => {
            res.out = "PANIC".into();
            res.oracle.push(("lookup-panics".into(), msg));
            res.tags.push("result:panic".into());
        }
        Ok(out) => {
            res.tags.push(if out == "none" { "result:none".into() } else { "result:some".into() });
            // the oracle, on the implementation's own output
            let get = |key: &str| -> Option<String> {
                out.split(' ').find_map(|f| f.strip_prefix(key)).and_then(unhx)
            };
            if out != "none" {
                if c.op == "codeinfo" {
                    if let Some(rel) = get("rel:") {
                        check_rel(&mut res, "code-info rel", &rel, true);
                    }
                } else {
                    if let Some(rel) = get("cache:") {
                        check_rel(&mut res, "cache_rel", &rel, false);
                    }
                    if let Some(rel) = get("server:") {
                        check_rel(&mut res, "server_rel", &rel, true);
                    }
                }
            }
            res.nontrivial = out != "none"
                || (c.did != Did::None && c.debug.as_deref().is_some_and(|d| !d.is_empty()))
                || (c.cid.is_some() && !c.code.is_empty());
            res.out = out;
        }
    }
    res
}

/// Unicode lower-casing yields one of `p d b l` only for those letters and their ASCII capitals,
/// and no character lower-cases to several characters containing one of them.
fn exec_lowercase_table() -> ImplResult {
    let mut res = ImplResult::default();
    let mut n = 0u32;
    for cp in 0..=0x10FFFFu32 {
        let Some(c) = char::from_u32(cp) else { continue };
        n += 1;
        let low: Vec<char> = c.to_lowercase().collect();
        let s: String = c.to_string();
        let low_s: String = s.to_lowercase();
        let hits = low.iter().any(|l| "pdbl".contains(*l)) || low_s.chars().any(|l| "pdbl".contains(l));
        let ascii = "pdblPDBL".contains(c);
        if hits != ascii || (ascii && (low.len() != 1 || low[0] != c.to_ascii_lowercase())) {
            res.oracle.push((
                "lowercase-model-assumption".into(),
                format!("U+{cp:04X} lower-cases to {low:?}"),
            ));
        }
    }
    res.out = format!("checked:{n}");
    res.nontrivial = true;
    res.tags.push("op:lowercase-table".into());
    res
}

/// The simplest consumer: `SimpleSymbolSupplier::locate_file` joins `cache_rel` onto each symbol
/// directory. Bait files are planted OUTSIDE the symbol directory where the pre-fix paths pointed;
/// whatever is found must lie inside the symbol directory.
fn exec_supplier() -> ImplResult {
    let mut res = ImplResult::default();
    res.tags.push("op:supplier".into());
    let r = catch(|| -> Vec<(String, String)> {
        let mut bad = vec![];
        let tmp = tempfile::tempdir().expect("tempdir");
        let symdir = tmp.path().join("sym");
        std::fs::create_dir_all(&symdir).unwrap();
        let did = Did::Uuid([0xab; 16], 1).build().unwrap();
        let id = did.breakpad().to_string();
        // bait outside: <tmp>/<id>/{.sym,...sym,..sym,x} and <tmp>/evil/<id>/evil.sym
        let outside = tmp.path().join(&id);
        std::fs::create_dir_all(&outside).unwrap();
        for f in [".sym", "...sym", "..sym", "..", "x", "sym"] {
            let _ = std::fs::write(outside.join(f), b"MODULE bait\n");
        }
        let evil = tmp.path().join("evil").join(&id);
        std::fs::create_dir_all(&evil).unwrap();
        std::fs::write(evil.join("evil.sym"), b"MODULE bait\n").unwrap();
        // a legitimate file inside
        let good = symdir.join("good.pdb").join(&id);
        std::fs::create_dir_all(&good).unwrap();
        std::fs::write(good.join("good.sym"), b"MODULE good\n").unwrap();
        // "sym/<id>" also exists as a directory inside, so that `x/../<id>` style paths resolve
        std::fs::create_dir_all(symdir.join("d")).unwrap();
        let supplier = SimpleSymbolSupplier::new(vec![symdir.clone()]);
        let rt = tokio::runtime::Builder::new_current_thread().build().unwrap();
        let canon_root = symdir.canonicalize().unwrap();
        let mut found_good = false;
        let names = [
            "good.pdb", "c:\\dir\\good.pdb", "..", "", "a/", "/", "foo/..", "d/..", "d\\..", ".", "../evil",
            "..\\evil", "../evil/evil", "..\\evil\\evil", "../evil.pdb", "\\", "\\\\", "//", "C:", "C:..",
            "x/.", "x\\.", "...", "d/../..", "..%2f", "d/", "d\\",
        ];
        for name in names {
            for kind in [FileKind::BreakpadSym, FileKind::Binary, FileKind::ExtraDebugInfo] {
                let m = SimpleModule::from_basic_info(
                    Some(name.to_string()),
                    Some(did),
                    Some(name.to_string()),
                    Some(CodeId::new("abcd".into())),
                );
                if let Ok(p) = rt.block_on(supplier.locate_file(&m, kind)) {
                    let canon = p.canonicalize().unwrap_or(p.clone());
                    if !canon.starts_with(&canon_root) {
                        bad.push((
                            "supplier-finds-file-outside-symbol-dir".to_string(),
                            format!("name {name:?} kind {kind:?}: {p:?}"),
                        ));
                    } else if name.ends_with("good.pdb") {
                        found_good = true;
                    }
                }
            }
        }
        if !found_good {
            bad.push(("supplier-selfcheck".into(), "the legitimate file was not found".into()));
        }
        bad
    });
    match r {
        Ok(bad) => {
            res.out = "ok".into();
            res.oracle = bad;
        }
        Err(msg) => {
            res.out = "PANIC".into();
            res.oracle.push(("supplier-panics".into(), msg));
        }
    }
    res.nontrivial = true;
    res
}

fn exec_join(root: &str, rel: &str) -> ImplResult {
    let mut res = ImplResult::default();
    res.tags.push("op:join".into());
    let rootp = Path::new(root);
    let joined = rootp.join(rel);
    let js = joined.to_str().unwrap_or("<non-utf8>").to_string();
    let norm = |p: &Path| -> Vec<String> {
        p.components()
            .filter_map(|c| match c {
                Component::Normal(s) => Some(s.to_string_lossy().into_owned()),
                Component::ParentDir => Some("..".into()),
                _ => None,
            })
            .collect()
    };
    let rc = norm(rootp);
    let jc = norm(&joined);
    let mut inside = !Path::new(rel).has_root() && jc.len() >= rc.len() && jc[..rc.len()] == rc[..];
    if inside {
        let mut depth = 0i64;
        for c in &jc[rc.len()..] {
            if c == ".." {
                depth -= 1;
                if depth < 0 {
                    inside = false;
                    break;
                }
            } else {
                depth += 1;
            }
        }
    }
    res.out = format!("joined:{} inside:{}", hx(&js), inside as u8);
    // the property's corollary, on std alone: a rooted rel stays inside
    if rooted(rel) && !inside {
        res.oracle.push(("rooted-rel-join-escapes".into(), format!("{root:?} join {rel:?} = {js:?}")));
    }
    res.nontrivial = !rel.is_empty();
    res
}

fn all_strings(alphabet: &[char], max_len: usize) -> Vec<String> {
    let mut out = vec![String::new()];
    let mut frontier = vec![String::new()];
    for _ in 0..max_len {
        let mut next = vec![];
        for s in &frontier {
            for c in alphabet {
                let mut t = s.clone();
                t.push(*c);
                next.push(t);
            }
        }
        out.extend(next.iter().cloned());
        frontier = next;
    }
    out
}

const TOKENS: &[&str] = &[
    "/", "\\", "..", ".", "...", "C:", "c:", "Z:", "\\\\", "//", "\\\\?\\", "\\\\.\\", "a", "b", "foo", "bar.pdb",
    "x.PDB", "lib.so", "k.dll", "K.DLL", ".pdb", ".dll", "pdb", "é", "\0", " ", "\t", "\n", "%2e", "%2E%2e", "%2f",
    "%5c", "http:", "https:", "file:", "javascript:", "?", "#", "@", ":", "::", "ü", "日本", "\u{212A}", "\u{130}",
    "\u{202e}", "\u{feff}", "𝒳", "~", "$", "*", "|", "<", ">", "\"", "CON", "NUL", "a.b.c", "..pdb", ".sym", "sym",
    " (deleted)", "(deleted)", ".pd_", ".dl_", ".exe", ".dbg", ".debug", ".dSYM", ";1", "%00", "\r", "'", "./", ".\\",
];

/// unsafe (and one safe) leaves, and decorations that a "helpful" normalisation step might strip or
/// rewrite before or after the leaf has been validated (section 7 of the generator)
const HAZARD_LEAVES: &[&str] = &["..", ".", "", "C:", "c:", "a", "...", "x/..", "..\\..", "/", "\\"];
const DECOR_SUFFIX: &[&str] = &[
    "", " (deleted)", " (deleted) ", "(deleted)", " (DELETED)", " ", "  ", "\0", "\t", "\r", "\n", "\r\n", ".", "..", ".pdb", ".PDB",
    ".pd_", ".dll", ".dl_", ".exe", ".so", ".so.1", ".sym", ".dbg", ".debug", ".dSYM", ".gz", ";1", ":Zone.Identifier", "?x",
    "#x", "%00", "%20", "'", "\"", "`", "<>", "|", "*", "/", "\\", "/.", "\\.", "~1", "\u{feff}", "\u{200b}", "\u{a0}",
];
const DECOR_PREFIX: &[&str] = &["", " ", "\t", "./", ".\\", "file://", "\\\\?\\", "/proc/self/root/", "~/", "\"", "'", "\u{feff}", "%2e", "a/", "a\\"];

fn random_name(rng: &mut Rng, max_tokens: u64) -> String {
    let n = rng.range(0, max_tokens);
    let mut s = String::new();
    for _ in 0..n {
        match rng.below(10) {
            0 => {
                // an arbitrary scalar value
                loop {
                    if let Some(c) = char::from_u32(rng.below(0x110000) as u32) {
                        s.push(c);
                        break;
                    }
                }
            }
            1 => s.push(*rng.pick(ALPHABET)),
            2 => s.push((rng.range(0x20, 0x7e) as u8) as char),
            _ => s.push_str(*rng.pick(TOKENS)),
        }
    }
    s
}

fn random_did(rng: &mut Rng) -> Did {
    match rng.below(12) {
        0 => Did::None,
        1 => Did::Uuid([0; 16], 0),
        2 => Did::Uuid([0xff; 16], u32::MAX),
        3 => Did::Pdb20([0; 4], 0),
        4 => Did::Pdb20([0xff; 4], u32::MAX),
        5 | 6 => {
            let mut b = [0u8; 4];
            for x in b.iter_mut() {
                *x = rng.next() as u8;
            }
            Did::Pdb20(b, if rng.chance(1, 2) { rng.below(16) as u32 } else { rng.next() as u32 })
        }
        _ => {
            let mut b = [0u8; 16];
            for x in b.iter_mut() {
                *x = rng.next() as u8;
            }
            Did::Uuid(b, if rng.chance(1, 2) { rng.below(16) as u32 } else { rng.next() as u32 })
        }
    }
}

fn random_cid(rng: &mut Rng, long: bool) -> Option<String> {
    match rng.below(10) {
        0 => None,
        1 => Some(String::new()),
        2 => Some("zz../..\\".into()), // retains nothing
        3 => Some("5A0B1C2D1f000".into()),
        4 => Some(random_name(rng, 6)),
        5 if long => {
            let n = rng.range(100, 3000);
            Some((0..n).map(|_| *rng.pick(&['0', '9', 'a', 'F', 'g', '/', '.'])).collect())
        }
        _ => {
            let n = rng.range(1, 40);
            Some((0..n).map(|_| *rng.pick(&['0', '1', '9', 'a', 'f', 'A', 'F', 'c', 'E'])).collect())
        }
    }
}

const D_UUID: Did = Did::Uuid(
    [0x00, 0x11, 0x22, 0x33, 0x44, 0x55, 0x66, 0x77, 0x88, 0x99, 0xaa, 0xbb, 0xcc, 0xdd, 0xee, 0xff],
    0xa,
);

impl Engine for Paths {
    fn name(&self) -> &'static str {
        "paths"
    }
    fn rule(&self) -> String {
        "every string of length <= 3 (quick) / <= 4 (thorough) over {a . / \\ : NUL e-acute} as debug_file and as \
         code_file through all 7 lookup entry points (sym bin extra codeinfo moz-sym moz-bin moz-extra), all PAIRS of \
         such strings (length <= 3) through binary_lookup; extension-directed names over {. p d b l P D B L a}; random \
         long names from separator/dot/drive/UNC/percent/scheme/NUL/non-ASCII tokens with random DebugId (uuid and \
         pdb20, boundary ages) and raw CodeId strings of any length; Path::join and the rooted predicate themselves \
         on every small string; the Unicode lower-casing table; SimpleSymbolSupplier over a temp dir with bait files. \
         non-trivial: the lookup produced a path, or was refused because of the file name (not because an id is absent)"
            .into()
    }
    fn exhaustive_part(&self) -> Option<String> {
        Some(
            "all strings up to the tier's length bound over the 7-letter alphabet, for debug_file and code_file \
             separately through every entry point and jointly (length <= 3) through binary_lookup; rooted/join on the same strings"
                .into(),
        )
    }

    fn generate(&self, tier: Tier, rng: &mut Rng, emit: &mut dyn FnMut(String)) {
        let thorough = tier == Tier::Thorough;
        emit("paths lowercase-table".into());
        emit("paths supplier".into());
        let small = all_strings(ALPHABET, if thorough { 4 } else { 3 });
        let small3 = all_strings(ALPHABET, 3);
        let small2 = all_strings(ALPHABET, 2);
        // (1) every small string as debug_file / code_file through every entry point
        for s in &small {
            for op in OPS {
                let c = match *op {
                    "codeinfo" => LookupCase {
                        op: op.to_string(),
                        code: s.clone(),
                        debug: None,
                        did: Did::None,
                        cid: Some("5A0B1C2D1f000".into()),
                    },
                    "bin" | "moz-bin" => LookupCase {
                        op: op.to_string(),
                        code: s.clone(),
                        debug: Some("d.pdb".into()),
                        did: D_UUID,
                        cid: Some("ab12".into()),
                    },
                    _ => LookupCase {
                        op: op.to_string(),
                        code: "c.dll".into(),
                        debug: Some(s.clone()),
                        did: D_UUID,
                        cid: None,
                    },
                };
                emit(c.render());
            }
            // the debug side of binary_lookup
            emit(
                LookupCase { op: "bin".into(), code: "c.dll".into(), debug: Some(s.clone()), did: D_UUID, cid: Some("".into()) }
                    .render(),
            );
            emit(format!("paths rooted rel:{}", hx(s)));
            emit(format!("paths mozraw server:{}", hx(s)));
        }
        // (2) all pairs through binary_lookup (and its moz variant on the smaller square)
        let pairs = if thorough { &small3 } else { &small3 };
        for a in pairs {
            for b in pairs {
                emit(
                    LookupCase { op: "bin".into(), code: a.clone(), debug: Some(b.clone()), did: D_UUID, cid: Some("f".into()) }
                        .render(),
                );
            }
        }
        let mozpairs = if thorough { &small3 } else { &small2 };
        for a in mozpairs {
            for b in mozpairs {
                emit(
                    LookupCase {
                        op: "moz-bin".into(),
                        code: a.clone(),
                        debug: Some(b.clone()),
                        did: Did::Pdb20([1, 2, 3, 4], 0),
                        cid: Some("".into()),
                    }
                    .render(),
                );
            }
        }
        // (3) absent pieces
        for op in OPS {
            for (debug, did, cid) in [
                (None, D_UUID, Some("ab".to_string())),
                (Some("a.pdb".to_string()), Did::None, Some("ab".to_string())),
                (Some("a.pdb".to_string()), D_UUID, None),
                (Some("".to_string()), D_UUID, Some("ab".to_string())),
            ] {
                for code in ["", "a.dll"] {
                    emit(LookupCase { op: op.to_string(), code: code.into(), debug: debug.clone(), did: did.clone(), cid: cid.clone() }.render());
                }
            }
        }
        // (4) extension handling: every string of length <= 4 (5 thorough) over a dotted alphabet, plus directed
        let ext = all_strings(&['.', 'p', 'd', 'b', 'P', 'a'], if thorough { 5 } else { 4 });
        for s in &ext {
            emit(LookupCase { op: "sym".into(), code: "".into(), debug: Some(s.clone()), did: D_UUID, cid: None }.render());
        }
        let ext2 = all_strings(&['.', 'd', 'l', 'L', 'D'], if thorough { 5 } else { 4 });
        for s in &ext2 {
            emit(LookupCase { op: "codeinfo".into(), code: s.clone(), debug: None, did: Did::None, cid: Some("1".into()) }.render());
        }
        for s in [
            "a.pdb", "a.PDB", "a.PdB", "a.pdb.pdb", ".pdb", "pdb", "a.pdb.", "a..pdb", "a.pdbx", "a.xpdb", "a.\u{212A}db",
            "a.p\u{130}db", "a.dll", "A.DLL", "a.dLl", "a.dll.dll", ".dll", "dll", "a.d\u{131}l", "a.so", "a.so.1", "a.ΠDB",
            "é.pdb", "\0.pdb", "a.pdb\0",
        ] {
            for op in OPS {
                emit(
                    LookupCase { op: op.to_string(), code: s.into(), debug: Some(s.into()), did: D_UUID, cid: Some("Ab9".into()) }
                        .render(),
                );
            }
        }
        // (5) Path::join itself (Unix flavour of the model against std) on every small string
        for root in ["/srv/symbols/root", "/srv/symbols/root/", "", "rel/root", "/", "a\\b", "."] {
            for s in if thorough { &small } else { &small3 } {
                emit(format!("paths join unix root:{} rel:{}", hx(root), hx(s)));
            }
        }
        // (5b) the HTTP consumer: directed hazards of URL-reference parsing, every string of length <= 2, random
        let hazards = [
            "a.pdb", "aa:", "http:evil.com", "https:evil.com", "\0", " ", " x", "x ", ".\t.", "\t", "%2e%2e", ".%2E", "%2e",
            "a?b", "a#b", "?", "#", "..?x", "a%20b", "é", "日本.pdb", "a b", "a:b", "C:", "@", "a@b:c", "~", "*", "|", "<>",
            "\"", "\u{7f}", "\u{80}", "\u{feff}", "a;b=c", "[", "]", "^", "`", "{}", "+", "'", "x.dll", "X.DLL", "..", ".",
            "", "a/", "\\", "a\\b", "...", ".. ", " ..", ".\n.", "\r", "%", "%%", "%2", "%zz", "%2F", "%5c..",
        ];
        let url_case = |op: &str, base: &str, c: &LookupCase| -> String {
            let l = c.render();
            let rest = l.splitn(3, ' ').nth(2).unwrap().to_string();
            format!("paths url {op} base:{} {rest}", hx(base))
        };
        for h in hazards {
            for base in ["/base/dir/", "/", "/base/file"] {
                for op in ["sym", "bin", "extra", "codeinfo"] {
                    let c = match op {
                        "codeinfo" => LookupCase { op: op.into(), code: h.into(), debug: None, did: Did::None, cid: Some("5A0B1C2D1f000".into()) },
                        "bin" => LookupCase { op: op.into(), code: h.into(), debug: Some("d.pdb".into()), did: D_UUID, cid: Some("".into()) },
                        _ => LookupCase { op: op.into(), code: "c.dll".into(), debug: Some(h.into()), did: D_UUID, cid: Some("ab".into()) },
                    };
                    emit(url_case(op, base, &c));
                }
            }
            emit(format!("paths urlref rel:{}", hx(&format!("{h}/ID/{h}.sym"))));
            emit(format!("paths urlref rel:{}", hx(&format!("{h}//{h}"))));
        }
        let url_alpha: &[char] = &['a', '.', ':', '\0', 'é', '%', '\t', ' ', '?', '2', 'e'];
        for s in all_strings(url_alpha, if thorough { 3 } else { 2 }) {
            let c = LookupCase { op: "extra".into(), code: "c".into(), debug: Some(s.clone()), did: Did::Pdb20([1, 2, 3, 4], 1), cid: None };
            emit(url_case("extra", "/base/dir/", &c));
            let c = LookupCase { op: "bin".into(), code: s.clone(), debug: Some("d".into()), did: Did::Pdb20([1, 2, 3, 4], 1), cid: Some("".into()) };
            emit(url_case("bin", "/b/", &c));
        }
        for i in 0..(if thorough { 4000 } else { 400 }) {
            let op = *rng.pick(&["sym", "bin", "extra", "codeinfo"]);
            let name = random_name(rng, if i % 10 == 0 { 60 } else { 5 });
            let other = random_name(rng, 4);
            let c = match op {
                "codeinfo" => LookupCase { op: op.into(), code: name, debug: None, did: Did::None, cid: random_cid(rng, false).or(Some("1".into())) },
                "bin" => LookupCase { op: op.into(), code: name, debug: Some(other), did: D_UUID, cid: random_cid(rng, false).or(Some("".into())) },
                _ => {
                    let mut did = random_did(rng);
                    if did == Did::None {
                        did = D_UUID;
                    }
                    LookupCase { op: op.into(), code: other, debug: Some(name), did, cid: random_cid(rng, false) }
                }
            };
            let base = *rng.pick(&["/base/dir/", "/", "/x/y", "/a%20b/"]);
            emit(url_case(op, base, &c));
        }
        // the join function of the model on its own (no implementation counterpart is public): covered by `url` above

        // (7) decorated hazards: unsafe leaves with prefixes/suffixes that a normalisation step might remove
        for leaf in HAZARD_LEAVES {
            for suf in DECOR_SUFFIX {
                for pre in DECOR_PREFIX {
                    // the full prefix square only for the classic traversal leaves
                    if !pre.is_empty() && !suf.is_empty() && !matches!(*leaf, ".." | "." | "" | "C:") {
                        continue;
                    }
                    let name = format!("{pre}{leaf}{suf}");
                    for op in OPS {
                        let c = match *op {
                            "codeinfo" => LookupCase { op: op.to_string(), code: name.clone(), debug: None, did: Did::None, cid: Some("5A0B1C2D1f000".into()) },
                            "bin" | "moz-bin" => LookupCase { op: op.to_string(), code: name.clone(), debug: Some(name.clone()), did: D_UUID, cid: Some("ab12".into()) },
                            _ => LookupCase { op: op.to_string(), code: "c.dll".into(), debug: Some(name.clone()), did: D_UUID, cid: None },
                        };
                        emit(c.render());
                    }
                    if pre.is_empty() {
                        let c = LookupCase { op: "sym".into(), code: "c.dll".into(), debug: Some(name.clone()), did: D_UUID, cid: Some("ab".into()) };
                        emit(url_case("sym", "/base/dir/", &c));
                        let c = LookupCase { op: "bin".into(), code: name.clone(), debug: Some("d.pdb".into()), did: D_UUID, cid: Some("".into()) };
                        emit(url_case("bin", "/base/dir/", &c));
                    }
                }
            }
        }

        // (6) random long names and identifiers
        let n = if thorough { 400_000 } else { 40_000 };
        for i in 0..n {
            let max_tokens = match i % 10 {
                0 => {
                    if thorough {
                        2000
                    } else {
                        300
                    }
                }
                1 | 2 => 40,
                _ => 8,
            };
            let op = rng.pick(OPS).to_string();
            let code = if rng.chance(1, 8) { String::new() } else { random_name(rng, max_tokens) };
            let debug = if rng.chance(1, 12) { None } else { Some(random_name(rng, max_tokens)) };
            let mut did = random_did(rng);
            let mut cid = random_cid(rng, i % 50 == 0);
            // mostly present identifiers, otherwise everything is `none`
            if did == Did::None && rng.chance(3, 4) {
                did = D_UUID;
            }
            if cid.is_none() && rng.chance(3, 4) {
                cid = Some("0Af".into());
            }
            emit(LookupCase { op, code, debug, did, cid }.render());
            if i % 8 == 0 {
                let r = random_name(rng, 6);
                emit(format!("paths rooted rel:{}", hx(&r)));
                emit(format!("paths join unix root:{} rel:{}", hx(*rng.pick(&["/r", "/r/", "", "x/y"])), hx(&r)));
                emit(format!("paths mozraw server:{}", hx(&r)));
            }
        }
    }

    fn model_request(&self, case: &str) -> Option<String> {
        if case == "paths lowercase-table" || case == "paths supplier" || case.starts_with("paths urlref ") {
            None
        } else if case.starts_with("paths url ") {
            // `HttpSymbolSupplier::new` appends `/` to a base URL that does not end with one
            let f: Vec<&str> = case.split(' ').collect();
            let base = f.get(3).and_then(|b| b.strip_prefix("base:")).and_then(unhx)?;
            if base.ends_with('/') {
                Some(case.to_string())
            } else {
                let mut g: Vec<String> = f.iter().map(|x| x.to_string()).collect();
                g[3] = format!("base:{}", hx(&format!("{base}/")));
                Some(g.join(" "))
            }
        } else {
            Some(case.to_string())
        }
    }

    fn exec(&self, case: &str) -> ImplResult {
        let f: Vec<&str> = case.split(' ').filter(|s| !s.is_empty()).collect();
        let mut bad = ImplResult::default();
        bad.out = "bad-op".into();
        if f.len() < 2 || f[0] != "paths" {
            return bad;
        }
        match f[1] {
            "url" if f.len() == 8 => {
                let Some(base) = f[3].strip_prefix("base:").and_then(unhx) else { return bad };
                let mut g: Vec<&str> = vec![f[0], f[2]];
                g.extend(&f[4..]);
                if !["sym", "bin", "extra", "codeinfo"].contains(&f[2]) {
                    return bad;
                }
                match LookupCase::parse(&g) {
                    Some(c) => exec_url(f[2], &base, &c),
                    None => bad,
                }
            }
            "urlref" if f.len() == 3 => {
                let Some(s) = f[2].strip_prefix("rel:").and_then(unhx) else { return bad };
                exec_urlref(&s)
            }
            "lowercase-table" if f.len() == 2 => exec_lowercase_table(),
            "supplier" if f.len() == 2 => exec_supplier(),
            "mozraw" if f.len() == 3 => {
                let Some(s) = f[2].strip_prefix("server:").and_then(unhx) else { return bad };
                let mut res = ImplResult::default();
                res.tags.push("op:mozraw".into());
                let l = FileLookup { debug_id: String::new(), debug_file: String::new(), cache_rel: String::new(), server_rel: s.clone() };
                res.out = match catch(|| moz_lookup(l)) {
                    Ok(l) => format!("server:{}", hx(&l.server_rel)),
                    Err(_) => "PANIC".into(), // documented: pop().unwrap() on an empty server_rel
                };
                res.nontrivial = !s.is_empty();
                res
            }
            "rooted" if f.len() == 3 => {
                let Some(s) = f[2].strip_prefix("rel:").and_then(unhx) else { return bad };
                let mut res = ImplResult::default();
                res.tags.push("op:rooted".into());
                res.out = format!("rooted:{}", rooted(&s) as u8);
                // the string predicate and the host's Path agree in the direction the property needs
                if rooted(&s) {
                    if let Some(d) = fs_join_escapes(&s) {
                        res.oracle.push(("rooted-rel-join-escapes".into(), format!("{s:?}: {d}")));
                    }
                }
                res.nontrivial = !s.is_empty();
                res
            }
            "join" if f.len() == 5 && f[2] == "unix" => {
                let (Some(root), Some(rel)) =
                    (f[3].strip_prefix("root:").and_then(unhx), f[4].strip_prefix("rel:").and_then(unhx))
                else {
                    return bad;
                };
                exec_join(&root, &rel)
            }
            _ => match LookupCase::parse(&f) {
                Some(c) => exec_lookup(&c),
                None => bad,
            },
        }
    }

    fn shrink(&self, case: &str, still_fails: &dyn Fn(&str) -> bool) -> String {
        let f: Vec<&str> = case.split(' ').filter(|s| !s.is_empty()).collect();
        let Some(mut c) = LookupCase::parse(&f) else { return case.to_string() };
        let del_one = |s: &str| -> Vec<String> {
            let cs: Vec<char> = s.chars().collect();
            let mut out = vec![];
            // halves first, then single characters
            if cs.len() > 3 {
                out.push(cs[..cs.len() / 2].iter().collect());
                out.push(cs[cs.len() / 2..].iter().collect());
            }
            for i in 0..cs.len() {
                let mut t = cs.clone();
                t.remove(i);
                out.push(t.into_iter().collect());
            }
            out
        };
        let mut progress = true;
        while progress {
            progress = false;
            for cand in del_one(&c.code) {
                let t = LookupCase { code: cand, ..c.clone() };
                if still_fails(&t.render()) {
                    c = t;
                    progress = true;
                    break;
                }
            }
            if let Some(d) = c.debug.clone() {
                for cand in del_one(&d) {
                    let t = LookupCase { debug: Some(cand), ..c.clone() };
                    if still_fails(&t.render()) {
                        c = t;
                        progress = true;
                        break;
                    }
                }
            }
            if let Some(d) = c.cid.clone() {
                for cand in del_one(&d) {
                    let t = LookupCase { cid: Some(cand), ..c.clone() };
                    if still_fails(&t.render()) {
                        c = t;
                        progress = true;
                        break;
                    }
                }
            }
            if c.did != D_UUID && c.did != Did::None {
                let t = LookupCase { did: D_UUID, ..c.clone() };
                if still_fails(&t.render()) {
                    c = t;
                    progress = true;
                }
            }
        }
        c.render()
    }
}
