//! Generator of (minidump bytes, per-module symbol-file bytes) pairs for engine `process` (C03).
//!
//! Everything is a deterministic function of `(seed, cpu, os, feat)`, so a case line only has to
//! name those; `feat` is a bit mask of sub-generators (the shrinker clears bits one at a time).
//! Dumps are assembled with `minidump-synth`; raw CPU contexts are produced for every CPU by
//! reading `size_with` random/zero bytes as the `md::CONTEXT_*` struct, setting the interesting
//! registers and serialising the struct again with scroll's `Pwrite`.

use crate::common::Rng;
use minidump::format as md;
use minidump_synth::*;
use scroll::ctx::SizeWith;
use scroll::{Pread, Pwrite};
use std::collections::HashMap;
use test_assembler::{Endian, Section};

pub const CPUS: &[&str] = &["x86", "amd64", "arm", "arm64", "arm64old", "mips", "mips64", "ppc", "ppc64", "sparc"];
pub const OSES: &[&str] = &["windows", "linux", "macos", "android", "ios"];

pub const F_STACKS: u32 = 1 << 0;
pub const F_MODULES: u32 = 1 << 1;
pub const F_EXCEPTION: u32 = 1 << 2;
pub const F_EXC_CONTEXT: u32 = 1 << 3;
pub const F_MEMINFO: u32 = 1 << 4;
pub const F_MAPS: u32 = 1 << 5;
pub const F_LIMITS: u32 = 1 << 6;
pub const F_PROC: u32 = 1 << 7;
pub const F_MISC: u32 = 1 << 8;
pub const F_HANDLES: u32 = 1 << 9;
pub const F_UNLOADED: u32 = 1 << 10;
pub const F_CRASHPAD: u32 = 1 << 11;
pub const F_NAMES: u32 = 1 << 12;
pub const F_SYM_FUNC: u32 = 1 << 13;
pub const F_SYM_CFI: u32 = 1 << 14;
pub const F_SYM_WIN: u32 = 1 << 15;
pub const F_SYM_CORRUPT: u32 = 1 << 16;
pub const F_HOSTILE: u32 = 1 << 17;
pub const F_MEM64: u32 = 1 << 18;
pub const F_SOFT: u32 = 1 << 19;
pub const F_BREAKPAD: u32 = 1 << 20;
pub const F_MAC: u32 = 1 << 21;
pub const F_CODE: u32 = 1 << 22;
pub const F_BIG: u32 = 1 << 23;
pub const F_EVIL: u32 = 1 << 24;
pub const F_ALL: u32 = (1 << 25) - 1;
pub const FEAT_NAMES: &[&str] = &[
    "stacks", "modules", "exception", "exc-context", "meminfo", "maps", "limits", "proc", "misc", "handles", "unloaded",
    "crashpad", "names", "sym-func", "sym-cfi", "sym-win", "sym-corrupt", "hostile", "mem64", "soft-errors", "breakpad-info",
    "mac", "code", "big-endian", "evil-json",
];

pub struct Built {
    pub dump: Vec<u8>,
    pub syms: HashMap<String, Vec<u8>>,
    pub evil: Option<String>,
    pub tags: Vec<String>,
}

pub fn ptr_width(cpu: &str) -> u32 {
    match cpu {
        "x86" | "arm" | "mips" | "ppc" => 4,
        _ => 8,
    }
}

fn arch_id(cpu: &str) -> u16 {
    use md::ProcessorArchitecture::*;
    (match cpu {
        "x86" => PROCESSOR_ARCHITECTURE_INTEL,
        "amd64" => PROCESSOR_ARCHITECTURE_AMD64,
        "arm" => PROCESSOR_ARCHITECTURE_ARM,
        "arm64" => PROCESSOR_ARCHITECTURE_ARM64,
        "arm64old" => PROCESSOR_ARCHITECTURE_ARM64_OLD,
        "mips" => PROCESSOR_ARCHITECTURE_MIPS,
        "mips64" => PROCESSOR_ARCHITECTURE_MIPS64,
        "ppc" => PROCESSOR_ARCHITECTURE_PPC,
        "ppc64" => PROCESSOR_ARCHITECTURE_PPC64,
        "sparc" => PROCESSOR_ARCHITECTURE_SPARC,
        _ => PROCESSOR_ARCHITECTURE_UNKNOWN,
    }) as u16
}

fn platform_id(os: &str) -> u32 {
    use md::PlatformId::*;
    (match os {
        "windows" => VER_PLATFORM_WIN32_NT,
        "linux" => Linux,
        "macos" => MacOs,
        "android" => Android,
        "ios" => Ios,
        _ => Unix,
    }) as u32
}

fn rand_bytes(rng: &mut Rng, n: usize) -> Vec<u8> {
    let mut v = Vec::with_capacity(n);
    while v.len() < n {
        let x = rng.next().to_le_bytes();
        let k = (n - v.len()).min(8);
        v.extend_from_slice(&x[..k]);
    }
    v
}

pub struct Regs {
    pub ip: u64,
    pub sp: u64,
    pub fp: u64,
    pub lr: u64,
    /// values for a few general registers (used as bases/indices by the crashing instruction)
    pub gen: [u64; 4],
}

/// A raw CPU context for `cpu` holding `regs`; the other fields are zero or random.
pub fn make_context(cpu: &str, big: bool, rng: &mut Rng, regs: &Regs, bad_flags: bool) -> Vec<u8> {
    let endian = if big { scroll::BE } else { scroll::LE };
    let random_fill = rng.chance(1, 2);
    macro_rules! ctx {
        ($ty:ty, |$c:ident| $body:block) => {{
            let n = <$ty>::size_with(&endian);
            let mut bytes = if random_fill { rand_bytes(rng, n) } else { vec![0u8; n] };
            let mut $c: $ty = bytes.pread_with(0, endian).expect("context pread");
            $body
            bytes.pwrite_with($c, 0, endian).expect("context pwrite");
            bytes
        }};
    }
    let fl = |good: u32, rng: &mut Rng| -> u32 {
        if bad_flags {
            *rng.pick(&[0u32, 0x10000, 0x100000, 0x40000000, 0xffffffff, 0x40])
        } else {
            good
        }
    };
    match cpu {
        "x86" => ctx!(md::CONTEXT_X86, |c| {
            c.context_flags = fl(0x1003f, rng);
            c.eip = regs.ip as u32;
            c.esp = regs.sp as u32;
            c.ebp = regs.fp as u32;
            c.eax = regs.gen[0] as u32;
            c.ebx = regs.gen[1] as u32;
        }),
        "amd64" => ctx!(md::CONTEXT_AMD64, |c| {
            c.context_flags = fl(0x10001f, rng);
            c.rip = regs.ip;
            c.rsp = regs.sp;
            c.rbp = regs.fp;
            c.rax = regs.gen[0];
            c.rbx = regs.gen[1];
            c.rcx = regs.gen[2];
            c.rdx = regs.gen[3];
        }),
        "arm" => ctx!(md::CONTEXT_ARM, |c| {
            c.context_flags = fl(0x40000007, rng);
            c.iregs[15] = regs.ip as u32;
            c.iregs[13] = regs.sp as u32;
            c.iregs[11] = regs.fp as u32;
            c.iregs[7] = regs.fp as u32;
            c.iregs[14] = regs.lr as u32;
        }),
        "arm64" => ctx!(md::CONTEXT_ARM64, |c| {
            c.context_flags = fl(0x40001f, rng);
            c.pc = regs.ip;
            c.sp = regs.sp;
            c.iregs[29] = regs.fp;
            c.iregs[30] = regs.lr;
        }),
        "arm64old" => ctx!(md::CONTEXT_ARM64_OLD, |c| {
            c.context_flags = fl(0x80000006, rng) as u64;
            c.pc = regs.ip;
            c.sp = regs.sp;
            c.iregs[29] = regs.fp;
            c.iregs[30] = regs.lr;
        }),
        "mips" | "mips64" => ctx!(md::CONTEXT_MIPS, |c| {
            c.context_flags = fl(0x40007, rng);
            c.epc = regs.ip;
            c.iregs[29] = regs.sp;
            c.iregs[30] = regs.fp;
            c.iregs[31] = regs.lr;
        }),
        "ppc" => ctx!(md::CONTEXT_PPC, |c| {
            c.context_flags = fl(0x20000003, rng);
            c.srr0 = regs.ip as u32;
            c.gpr[1] = regs.sp as u32;
            c.lr = regs.lr as u32;
        }),
        "ppc64" => ctx!(md::CONTEXT_PPC64, |c| {
            c.context_flags = fl(0x01000003, rng) as u64;
            c.srr0 = regs.ip;
            c.gpr[1] = regs.sp;
            c.lr = regs.lr;
        }),
        _ => ctx!(md::CONTEXT_SPARC, |c| {
            c.context_flags = fl(0x10000003, rng);
            c.pc = regs.ip;
            c.g_r[14] = regs.sp;
        }),
    }
}

#[derive(Clone)]
pub struct ModSpec {
    pub base: u64,
    pub size: u32,
    pub name: String,
}

fn module_name(os: &str, i: usize, rng: &mut Rng) -> String {
    let leaf = match os {
        "windows" => format!("mod{i}.dll"),
        "macos" | "ios" => format!("libmod{i}.dylib"),
        _ => format!("libmod{i}.so"),
    };
    match rng.below(8) {
        0 => format!("C:\\Program Files\\app\\{leaf}"),
        1 => format!("/usr/lib/{leaf}"),
        2 => String::new(),
        3 => "mod0.dll".to_string(), // duplicate leaf names across modules
        _ => leaf,
    }
}

/// interesting bases for a region of `size` bytes
fn place(rng: &mut Rng, ptr: u32, size: u64, hostile: bool, slot: u64) -> u64 {
    let top: u128 = if ptr == 4 { 1u128 << 32 } else { 1u128 << 64 };
    let regular = if ptr == 4 { 0x1000_0000u64 + slot * 0x0100_0000 } else { 0x7ff0_0000_0000u64 + slot * 0x1_0000_0000 };
    if !hostile {
        return regular;
    }
    match rng.below(8) {
        0 => (top - size as u128).min(u64::MAX as u128) as u64, // ends exactly at the top of the address space
        1 => ((1u128 << 64) - size.max(1) as u128) as u64,      // ends at 2^64
        2 => u64::MAX - rng.below(size.max(1)),                 // base + size overflows
        3 => rng.below(0x2000),                                 // near zero
        4 => (1u64 << 32).wrapping_sub(size / 2),               // straddles 2^32
        5 => 0x0000_8000_0000_0000u64.wrapping_sub(size / 2),   // straddles the canonical boundary
        _ => regular,
    }
}

// ------------------------------------------------------------------------------------ symbol files

fn cfi_regs(cpu: &str) -> (&'static str, &'static str, &'static [&'static str]) {
    // (sp, fp, callee saved)
    match cpu {
        "x86" => ("$esp", "$ebp", &["$ebx", "$esi", "$edi", "$ebp"]),
        "amd64" => ("$rsp", "$rbp", &["$rbx", "$rbp", "$r12", "$r13", "$r14", "$r15"]),
        "arm" => ("sp", "r11", &["r4", "r5", "r6", "r7", "r11", "fp", "lr", "r13", "sp"]),
        "arm64" | "arm64old" => ("sp", "x29", &["x19", "x20", "x28", "x29", "fp", "x30", "lr"]),
        "mips" | "mips64" => ("$sp", "$fp", &["$s0", "$s1", "$fp", "$ra", "$gp"]),
        _ => ("sp", "fp", &["r1", "r2"]),
    }
}

fn cfi_rules(rng: &mut Rng, cpu: &str, inmod: u64) -> String {
    let (sp, fp, saved) = cfi_regs(cpu);
    let w = ptr_width(cpu);
    let hostile: &[&str] = &[
        ".cfa: {sp} 1 + .ra: {inmod}",
        ".cfa: {sp} 1 + .ra: {inmod}",
        ".cfa: {sp} {w} + .ra: {inmod}",
        ".cfa: {sp} 1 + .ra: {inmod} {fp}: {inmod}",
        ".cfa: {sp} 1 + .ra: 4096",
        ".cfa: {sp} 0 + .ra: .cfa",
        ".cfa: {sp} .ra: 1073745924",
        ".cfa: {sp} 1 + .ra: 1073745924",
        ".cfa: 18446744073709551615 .ra: 4096",
        ".cfa: {sp} 18446744073709551615 + .ra: .cfa ^",
        ".cfa: {sp} 8 + .ra: .cfa 0 / ^",
        ".cfa: {sp} 8 + .ra: .cfa 0 % ^",
        ".cfa: {sp} 8 @ .ra: .cfa ^",
        ".cfa: {sp} 8 + .ra:",
        ".cfa: .ra: 5000",
        ".cfa: {sp} {sp} {sp} {sp} + + + .ra: {sp} ^ ^",
        ".cfa: {fp} 8 + .ra: {fp} ^ {fp}: {fp} ^",
        ".cfa: {sp} 4 + .ra: .cfa -4 + ^ {sp}: .cfa",
        ".cfa: $nope 4 + .ra: 4096",
        ".cfa: {sp} 2 + .ra: .cfa 2 - ^ {fp}: .undef",
        ".ra: 4096 .cfa: {sp} 1 +",
        ".cfa: {sp} 1 + .ra: 4096 .cfa: 0",
        ".cfa: -1 .ra: -1",
        ".cfa: {sp} 9223372036854775807 + 9223372036854775807 + 2 + .ra: 4097",
    ];
    if rng.chance(1, 3) {
        let t = *rng.pick(hostile);
        return t.replace("{sp}", sp).replace("{fp}", fp).replace("{inmod}", &inmod.to_string()).replace("{w}", &w.to_string());
    }
    let frame = *rng.pick(&[w as u64, 2 * w as u64, 16, 24, 32, 48, 64, 128, 1, 0, 4096]);
    let mut s = format!(".cfa: {sp} {frame} + .ra: .cfa {w} - ^");
    let k = rng.below(3);
    for j in 0..k {
        let r = *rng.pick(saved);
        s.push_str(&format!(" {r}: .cfa {} - ^", (j + 2) * w as u64));
    }
    s
}

fn win_program(rng: &mut Rng) -> String {
    let progs: &[&str] = &[
        "$T0 $ebp = $eip $T0 4 + ^ = $ebp $T0 ^ = $esp $T0 8 + =",
        "$T0 .raSearch = $eip $T0 ^ = $esp $T0 4 + =",
        "$T0 .raSearchStart = $eip $T0 ^ = $esp $T0 4 + = $ebp $T0 4 - ^ =",
        "$T1 .raSearch = $T0 $T1 4 - 8 @ = $ebp $T1 4 - ^ = $eip $T1 ^ = $esp $T1 4 + =",
        "$eip 4096 = $esp $esp 1 + =",
        "$eip 4096 = $esp $esp =",
        "$eip 1073745924 = $esp $esp 4294967295 + =",
        "$eip $esp ^ = $esp $esp 4 + = $ebx .undef =",
        "$T0 $esp 0 / = $eip $T0 =",
        "$T0 $esp 7 @ = $eip $T0 =",
        "$eip .cbParams .cbSavedRegs .cbLocals .cbCalleeParams + + + = $esp $esp 4 + =",
        "$eip",
        "= = =",
        "$esp .raSearch 4294967295 + = $eip $esp ^ =",
        "$T0 4294967292 = $eip $T0 ^ = $esp $T0 4 + =",
        "$eip $ebp 4 + ^ = $esp $ebp 8 + = $ebp $ebp ^ =",
        "$eip $ebp 4 + ^ =$esp $ebp 8 + =$ebp $ebp ^ =",
    ];
    (*rng.pick(progs)).to_string()
}

fn hexish(rng: &mut Rng) -> u32 {
    *rng.pick(&[0u32, 4, 8, 0xc, 0x10, 0x40, 0x1000, 0x7fffffff, 0x80000000, 0xfffffff8, 0xfffffffc, 0xffffffff])
}

fn func_name(rng: &mut Rng, i: usize) -> String {
    let names: &[&str] = &[
        "main",
        "ns::Class::method(int, char const*)",
        "plain(int, std::map<int, int>, void (*)(int))",
        "f(a>b)",
        "g(",
        "h()",
        "A::B::C(std::vector<std::pair<int, int>>)",
        "k(int, (x), <y>)",
        "l(int)) extra(",
        "m(é, ü)",
        "n(<)",
        "o(a, b, c, d, e, f, g, h, i, j, k, l, m, n, o, p)",
        "p::q(",
        "r::s()",
        "t(,,,)",
        "operator>>(int)",
        "u(int) const",
    ];
    if rng.chance(1, 3) {
        format!("fn{i}")
    } else {
        (*rng.pick(names)).to_string()
    }
}

/// Symbol-file text for a module of `size` bytes (addresses are module relative).
pub fn gen_symbols(rng: &mut Rng, cpu: &str, os: &str, name: &str, base: u64, size: u32, feat: u32) -> Vec<u8> {
    // an absolute address inside this module (for rules that return to a constant)
    let inmod = base.wrapping_add((size as u64 / 2).min(0x1004));
    let mut s = String::new();
    let osname = match os {
        "windows" => "windows",
        "macos" | "ios" => "mac",
        _ => "Linux",
    };
    let leaf = name.rsplit(['/', '\\']).next().unwrap_or("");
    s.push_str(&format!("MODULE {osname} {} 000000000000000000000000000000000 {}\n", if cpu == "x86" { "x86" } else { cpu }, if leaf.is_empty() { "x" } else { leaf }));
    if rng.chance(1, 4) {
        s.push_str("INFO CODE_ID 5A5B5C5D1000 mod.dll\nINFO URL https://example.invalid/x.sym\n");
    }
    let size = size as u64;
    let span = size.clamp(0x100, 0x20000);
    let nfunc = if feat & F_SYM_FUNC != 0 { rng.range(1, 6) } else { 0 };
    if nfunc > 0 {
        s.push_str("FILE 0 src/a.cpp\nFILE 1 /very/long/path/to/b.rs\nFILE 4294967295 c.h\n");
        s.push_str("INLINE_ORIGIN 0 inl_zero(int)\nINLINE_ORIGIN 1 outer::inl_one()\n");
    }
    let mut at = rng.below(0x40);
    for i in 0..nfunc {
        let fsize = *rng.pick(&[1u64, 4, 0x10, 0x40, 0x100, span / 4 + 1, 0xffffffff]);
        let psize = hexish(rng);
        let multi = if rng.chance(1, 6) { "m " } else { "" };
        s.push_str(&format!("FUNC {multi}{at:x} {fsize:x} {psize:x} {}\n", func_name(rng, i as usize)));
        if rng.chance(1, 2) {
            // INLINE <depth> <call line> <call file> <origin> (<addr> <size>)+
            s.push_str(&format!("INLINE 0 10 0 0 {at:x} {:x}\n", fsize.min(0x10)));
            if rng.chance(1, 2) {
                s.push_str(&format!("INLINE 1 11 1 1 {at:x} {:x}\n", fsize.min(8)));
            }
            if rng.chance(1, 4) {
                s.push_str(&format!("INLINE 7 12 9 9 {at:x} {:x}\n", fsize.min(4)));
            }
        }
        let nl = rng.below(4);
        let mut la = at;
        for _ in 0..nl {
            let ls = rng.range(1, 8);
            s.push_str(&format!("{la:x} {ls:x} {} {}\n", rng.below(100), rng.below(3)));
            la += ls;
        }
        at = at.wrapping_add(fsize.min(span / 2 + 1)).wrapping_add(rng.below(0x20));
    }
    if feat & F_SYM_FUNC != 0 {
        for i in 0..rng.below(3) {
            let a = rng.below(span);
            s.push_str(&format!("PUBLIC {}{a:x} {:x} pub{i}(int, int)\n", if rng.chance(1, 6) { "m " } else { "" }, hexish(rng)));
        }
    }
    if feat & F_SYM_CFI != 0 {
        // one record covering the whole module (so that every seeded return address has rules), plus a few small ones
        let n = rng.range(1, 3);
        for i in 0..n {
            let (a, l) = if i == 0 { (0, span.max(size).min(0xffffffff)) } else { (rng.below(span), rng.range(1, 0x100)) };
            s.push_str(&format!("STACK CFI INIT {a:x} {l:x} {}\n", cfi_rules(rng, cpu, inmod)));
            for _ in 0..rng.below(3) {
                let d = a + rng.below(l.min(0x100));
                s.push_str(&format!("STACK CFI {d:x} {}\n", cfi_rules(rng, cpu, inmod)));
            }
        }
    }
    if feat & F_SYM_WIN != 0 {
        let n = rng.range(1, 3);
        for i in 0..n {
            let (a, l) = if i == 0 { (0, span.max(size).min(0xffffffff)) } else { (rng.below(span), rng.range(1, 0x100)) };
            let ty = *rng.pick(&[4u32, 4, 0, 0, 1, 3]);
            let (prolog, epilog, params, saved, locals, maxs) = (rng.below(16), rng.below(8), hexish(rng), hexish(rng), hexish(rng), hexish(rng));
            if ty == 4 {
                s.push_str(&format!("STACK WIN 4 {a:x} {l:x} {prolog:x} {epilog:x} {params:x} {saved:x} {locals:x} {maxs:x} 1 {}\n", win_program(rng)));
            } else {
                s.push_str(&format!("STACK WIN {ty:x} {a:x} {l:x} {prolog:x} {epilog:x} {params:x} {saved:x} {locals:x} {maxs:x} 0 {}\n", rng.below(2)));
            }
        }
    }
    let mut bytes = s.into_bytes();
    if feat & F_SYM_CORRUPT != 0 && !bytes.is_empty() {
        match rng.below(4) {
            0 => {
                let k = rng.range(1, 8);
                for _ in 0..k {
                    let i = rng.below(bytes.len() as u64) as usize;
                    bytes[i] = *rng.pick(&[0u8, b'\n', b' ', 0xff, b'f', b'-', b'0', 0x80, b'\r']);
                }
            }
            1 => {
                let n = rng.below(bytes.len() as u64) as usize;
                bytes.truncate(n);
            }
            2 => {
                let i = rng.below(bytes.len() as u64) as usize;
                let ins: &[u8] = *rng.pick(&[&b"ffffffffffffffffffffffff"[..], b"\nSTACK WIN 4 0 ffffffff 0 0 ffffffff ffffffff ffffffff 0 1 $eip 4096 =\n", b"\nSTACK CFI INIT 0 ffffffffffffffff .cfa: $rsp 1 + .ra: 4096\n", b"\nFUNC 0 ffffffffffffffff 0 whole\n", b"\n\n\n", b"\xf0\x9f\x92\xa9"]);
                let tail = bytes.split_off(i);
                bytes.extend_from_slice(ins);
                bytes.extend_from_slice(&tail);
            }
            _ => {
                let n = rng.range(0, 200) as usize;
                bytes = rand_bytes(rng, n);
            }
        }
    }
    bytes
}

// ------------------------------------------------------------------------------------ text streams

pub fn gen_limits(rng: &mut Rng) -> Vec<u8> {
    let mut s: Vec<u8> = Vec::new();
    if !rng.chance(1, 8) {
        s.extend_from_slice(b"Limit                     Soft Limit           Hard Limit           Units     \n");
    }
    let names = ["Max cpu time", "Max file size", "Max stack size", "Max open files", "Max nice priority", "Max realtime timeout", "Max core file size"];
    let vals = ["unlimited", "8388608", "0", "1024", "18446744073709551615", "18446744073709551616", "-1", "abc", "+7", " 12 ", ""];
    let units = ["seconds", "bytes", "files", "us", "", " "];
    let n = rng.below(8);
    for _ in 0..n {
        match rng.below(10) {
            0 => s.extend_from_slice(b"\n"),
            1 => s.extend_from_slice(b"Max cpu time\n"),
            2 => s.extend_from_slice(b"Max cpu time              unlimited\n"),
            3 => s.extend_from_slice(b"  \n"),
            4 => s.extend_from_slice(b"a  b\n"),
            5 => s.extend_from_slice(b"a  b  c  d  e  f\n"),
            6 => {
                s.extend_from_slice(b"Max \xff\xfe time  ");
                s.extend_from_slice(rng.pick(&vals).as_bytes());
                s.extend_from_slice(b"  1\xc3\x28  u\n");
            }
            _ => {
                let line = format!("{:<26}{:<21}{:<21}{:<10}\n", rng.pick(&names), rng.pick(&vals), rng.pick(&vals), rng.pick(&units));
                s.extend_from_slice(line.as_bytes());
            }
        }
    }
    if rng.chance(1, 4) {
        s.extend_from_slice(b"Max tail  1  2"); // no trailing newline
    }
    s
}

fn gen_maps(rng: &mut Rng, ptr: u32, around: &[u64]) -> Vec<u8> {
    let mut s = String::new();
    let perms = ["r-xp", "rw-p", "---p", "r--p", "rwxp", "r--s", "----", "xyz"];
    let paths = ["/usr/lib/libc.so.6", "[stack]", "[heap]", "", "/dev/ashmem/dalvik (deleted)", "[vdso]"];
    let mut regions: Vec<(u64, u64)> = vec![];
    for &a in around {
        let page = a & !0xfff;
        regions.push((page, page.wrapping_add(0x1000)));
        if rng.chance(1, 2) {
            regions.push((page.wrapping_sub(0x1000), page));
        }
        if rng.chance(1, 2) {
            regions.push((page.wrapping_add(0x1000), page.wrapping_add(0x3000)));
        }
    }
    for _ in 0..rng.below(4) {
        let a = if ptr == 4 { rng.below(1 << 32) & !0xfff } else { rng.next() & !0xfff };
        regions.push((a, a.wrapping_add(*rng.pick(&[0x1000u64, 0x2000, 0x10000]))));
    }
    if rng.chance(1, 3) {
        regions.push((0xffff_ffff_ffff_f000, 0xffff_ffff_ffff_ffff));
    }
    if rng.chance(1, 4) {
        regions.push((0xffff_ffff_ffff_e000, 0xffff_ffff_ffff_f000));
    }
    if rng.chance(1, 6) {
        regions.push((0x2000, 0x1000)); // start > end
    }
    if rng.chance(1, 6) {
        regions.push((0x5000, 0x5000)); // empty
    }
    for (i, (a, b)) in regions.into_iter().enumerate() {
        // the first region (the one holding the first hot address) is mostly a guard-page candidate
        let perm = if i == 0 && rng.chance(2, 3) { "---p" } else { *rng.pick(&perms) };
        s.push_str(&format!("{a:x}-{b:x} {} {:08x} 08:01 {} {}\n", perm, rng.below(0x10000), rng.below(100000), rng.pick(&paths)));
    }
    if rng.chance(1, 4) {
        s.push_str("garbage line\n-\n12-\n-34 r-xp\nzz-yy r-xp 0 0:0 0\n");
    }
    s.into_bytes()
}

// ------------------------------------------------------------------------------------ crashing code

/// instruction bytes for the crashing amd64 instruction
pub fn gen_code(rng: &mut Rng) -> Vec<u8> {
    let guided: &[&[u8]] = &[
        &[0x50],                                     // push rax
        &[0xff, 0x30],                               // push [rax]
        &[0xff, 0x10],                               // call [rax]
        &[0xff, 0xd0],                               // call rax
        &[0xe8, 0x00, 0x10, 0x00, 0x00],             // call rel32
        &[0xc3],                                     // ret
        &[0xc2, 0x08, 0x00],                         // ret 8
        &[0xcb],                                     // retf
        &[0x48, 0xcf],                               // iretq
        &[0x58],                                     // pop rax
        &[0x8f, 0x00],                               // pop [rax]
        &[0x48, 0x89, 0x18],                         // mov [rax], rbx
        &[0x48, 0x8b, 0x04, 0xcb],                   // mov rax, [rbx+rcx*8]
        &[0x48, 0x01, 0x84, 0xcb, 0xff, 0xff, 0xff, 0x7f], // add [rbx+rcx*8+0x7fffffff], rax
        &[0x48, 0x29, 0x03],                         // sub [rbx], rax
        &[0x48, 0xf7, 0xf9],                         // idiv rcx
        &[0xf7, 0x33],                               // div dword [rbx]
        &[0x0f, 0x28, 0x03],                         // movaps xmm0, [rbx]
        &[0x0f, 0x29, 0x03],                         // movaps [rbx], xmm0
        &[0x0f, 0x10, 0x03],                         // movups xmm0, [rbx]
        &[0x0f, 0x2e, 0x03],                         // ucomiss xmm0, [rbx]
        &[0xf4],                                     // hlt
        &[0xff, 0x25, 0x00, 0x00, 0x00, 0x00],       // jmp [rip+0]
        &[0xff, 0x20],                               // jmp [rax]
        &[0xff, 0x28],                               // jmp far [rax]
        &[0xff, 0x18],                               // call far [rax]
        &[0xff, 0xe0],                               // jmp rax
        &[0xeb, 0x10],                               // jmp short
        &[0x74, 0x10],                               // jz
        &[0x0f, 0x84, 0x00, 0x01, 0x00, 0x00],       // jz rel32
        &[0x48, 0x8d, 0x04, 0xcb],                   // lea rax, [rbx+rcx*8]
        &[0x48, 0x39, 0x03],                         // cmp [rbx], rax
        &[0x48, 0x3b, 0x03],                         // cmp rax, [rbx]
        &[0xfe, 0x03],                               // inc byte [rbx]
        &[0x48, 0xff, 0x0b],                         // dec qword [rbx]
        &[0xf3, 0xa4],                               // rep movsb
        &[0xa4],                                     // movsb
        &[0x68, 0x00, 0x00, 0x00, 0x00],             // push imm32
        &[0xc8, 0x10, 0x00, 0x00],                   // enter
        &[0xc9],                                     // leave
        &[0xa0, 1, 2, 3, 4, 5, 6, 7, 8],             // mov al, [moffs64]
        &[0x48, 0xa3, 1, 2, 3, 4, 5, 6, 7, 0x88],    // mov [moffs64], rax
        &[0x64, 0x48, 0x8b, 0x04, 0x25, 0x28, 0, 0, 0], // mov rax, fs:[0x28]
        &[0x67, 0x8b, 0x03],                         // mov eax, [ebx]
        &[0x0f, 0x01, 0xd0],                         // xgetbv
        &[0x0f, 0x0b],                               // ud2
        &[0xcc],                                     // int3
        &[0xcd, 0x80],                               // int 0x80
        &[0x0f, 0x05],                               // syscall
        &[0x87, 0x03],                               // xchg [rbx], eax
        &[0xf0, 0x48, 0x0f, 0xb1, 0x0b],             // lock cmpxchg [rbx], rcx
        &[0xc5, 0xf8, 0x28, 0x03],                   // vmovaps xmm0, [rbx]
        &[0x62, 0xf1, 0x7c, 0x48, 0x28, 0x03],       // vmovaps zmm0, [rbx]
        &[0x0f, 0x00, 0x30],                         // (jmpe / invalid group 6)
        &[0x0f, 0xb8, 0x00, 0x00, 0x00, 0x00],       // jmpe
        &[0x9a, 1, 2, 3, 4, 5, 6],                   // callf (invalid in 64-bit)
        &[0xea, 1, 2, 3, 4, 5, 6],                   // jmpf (invalid in 64-bit)
        &[0x48, 0xff, 0x30],                         // push qword [rax]
        &[0x66, 0x50],                               // push ax
        &[0x41, 0xff, 0x14, 0xc0],                   // call [r8+rax*8]
        &[0x48, 0x63, 0x03],                         // movsxd
        &[0x8e, 0x18],                               // mov ds, [rax]
        &[0x0f, 0x22, 0xc0],                         // mov cr0, rax
        &[0xd7],                                     // xlat
        &[0x48, 0x0f, 0xc7, 0x0b],                   // cmpxchg16b
    ];
    let mut v = match rng.below(8) {
        0 => { let n_ = rng.range(1, 16) as usize; rand_bytes(rng, n_) },
        1 => {
            // random prefixes + guided
            let mut p: Vec<u8> = vec![];
            for _ in 0..rng.below(4) {
                p.push(*rng.pick(&[0x66u8, 0x67, 0xf2, 0xf3, 0xf0, 0x2e, 0x36, 0x3e, 0x26, 0x64, 0x65, 0x40, 0x48, 0x4f, 0x41]));
            }
            p.extend_from_slice(*rng.pick(guided));
            p
        }
        2 => {
            // opcode byte + random modrm/sib/disp
            let mut p = vec![*rng.pick(&[0x01u8, 0x29, 0x39, 0x3b, 0x89, 0x8b, 0x8d, 0x8f, 0xfe, 0xff, 0xf7, 0xc7, 0x0f])];
            p.extend(rand_bytes(rng, 10));
            p
        }
        _ => rng.pick(guided).to_vec(),
    };
    if rng.chance(1, 10) {
        let n = rng.range(1, v.len() as u64) as usize;
        v.truncate(n); // truncated instruction at the end of the region
    } else if rng.chance(1, 2) {
        v.extend(rand_bytes(rng, 16));
    }
    v
}

// ------------------------------------------------------------------------------------ the dump

fn lesec(big: bool) -> Endian {
    if big {
        Endian::Big
    } else {
        Endian::Little
    }
}

/// Build the pair for `(seed, cpu, os, feat)`.
pub fn build(seed: u64, cpu: &str, os: &str, feat: u32) -> Option<Built> {
    // one independent PRNG stream per section, so that clearing a feature bit (shrinking) leaves
    // the other sections unchanged
    let sub = |k: u64| Rng::new(seed ^ 0xC03C_03C0_3C03_C03C ^ k.wrapping_mul(0x9E37_79B9_7F4A_7C15));
    let mut rng_store = sub(1);
    let rng = &mut rng_store;
    let big = feat & F_BIG != 0;
    let endian = lesec(big);
    let ptr = ptr_width(cpu);
    let hostile = feat & F_HOSTILE != 0;
    let mut tags: Vec<String> = vec![];
    let mask = if ptr == 4 { 0xffff_ffffu64 } else { u64::MAX };

    // ---- modules
    let mut mods: Vec<ModSpec> = vec![];
    if feat & F_MODULES != 0 {
        let n = rng.range(1, 4);
        for i in 0..n {
            let size = if hostile { *rng.pick(&[0u32, 1, 0x1000, 0x10000, 0x7fffffff, 0xffffffff]) } else { *rng.pick(&[0x1000u32, 0x8000, 0x10000, 0x100000]) };
            let base = if hostile { place(rng, ptr, size as u64, true, i) } else if ptr == 4 { 0x0040_0000 + i * 0x0020_0000 } else { 0x0000_7f00_0040_0000 + i * 0x0100_0000 };
            mods.push(ModSpec { base, size, name: module_name(os, i as usize, rng) });
        }
    }
    if std::env::var("VERIF_LOUD").is_ok() {
        for m in &mods {
            eprintln!("module {:#x} +{:#x} {:?}", m.base, m.size, m.name);
        }
    }
    // an address inside some module (or a random one)
    let code_addr = |rng: &mut Rng| -> u64 {
        if !mods.is_empty() && !rng.chance(1, 6) {
            let m = rng.pick(&mods);
            let span = (m.size as u64).clamp(1, 0x20000);
            m.base.wrapping_add(rng.below(span)) & mask
        } else {
            { let r1_ = rng.next(); *rng.pick(&[0u64, 1, 4095, 4096, 0x1000_0000, mask, mask - 7, 0x0000_8000_0000_0000 & mask, r1_ & mask]) }
        }
    };

    rng_store = sub(2);
    let rng = &mut rng_store;
    let mut dump = SynthMinidump::with_endian(endian);
    // the exception's own context must come first: its RVA (right after the header) is then known
    let exc_regs;
    let mut exc_ctx_loc: (u32, u32) = (0, 0);
    let exc_has_ctx = feat & F_EXCEPTION != 0 && feat & F_EXC_CONTEXT != 0;
    // code region for the crashing instruction
    let code_base: u64 = if hostile && rng.chance(1, 3) { *rng.pick(&[0u64, 0xffff_ffff_ffff_fff0, 0x0000_7fff_ffff_fff8]) } else { 0x0000_5555_0000_1000 & mask };
    let code = gen_code(rng);
    {
        let gens = [
            { let r1_ = rng.next(); *rng.pick(&[0u64, 8, 0x10, 0x7fff_0000_0000, 0x0000_8000_0000_0000, 0xffff_8000_0000_0000, u64::MAX, 0xdead_beef_dead_beef, r1_]) },
            { let r1_ = rng.next(); *rng.pick(&[0u64, 1, 0x1000, u64::MAX, 0x5a5a_5a5a_5a5a_5a5a, 0xe5e5_e5e5_e5e5_e5e5, r1_]) },
            { let r1_ = rng.next(); *rng.pick(&[0u64, 1, 2, 0x2000_0000_0000_0000, u64::MAX, r1_]) },
            rng.next(),
        ];
        let ip = if feat & F_CODE != 0 { code_base.wrapping_add(if rng.chance(1, 8) { code.len() as u64 - 1 } else { 0 }) } else { code_addr(rng) };
        exc_regs = Regs { ip, sp: { let r1_ = rng.next(); *rng.pick(&[0u64, 4, 7, 8, 0x7ffe_0000, 0x7ffd_0000_0040, u64::MAX, r1_]) } & mask, fp: rng.next() & mask, lr: code_addr(rng), gen: gens };
    }
    rng_store = sub(3);
    let rng = &mut rng_store;
    if exc_has_ctx {
        let bytes = { let b_ = rng.chance(1, 12); make_context(cpu, big, rng, &exc_regs, b_) };
        let n = if rng.chance(1, 16) { bytes.len() / 2 } else { bytes.len() };
        exc_ctx_loc = (n as u32, 32); // right after the 32-byte header
        dump = dump.add(Section::with_endian(endian).append_bytes(&bytes));
    }

    rng_store = sub(4);
    let rng = &mut rng_store;
    // ---- system info
    let mut si = SystemInfo::new(endian).set_processor_architecture(arch_id(cpu)).set_platform_id(platform_id(os));
    si.number_of_processors = *rng.pick(&[0u8, 1, 2, 8, 255]);
    si.major_version = rng.below(12) as u32;
    si.minor_version = rng.below(4) as u32;
    si.build_number = rng.below(30000) as u32;
    si.processor_level = rng.below(32) as u16;
    si.processor_revision = rng.next() as u16;
    if hostile && rng.chance(1, 3) {
        si.csd_version_rva = *rng.pick(&[1u32, 0x7fffffff, 0xffffffff, 28]);
    }
    dump = dump.add_system_info(si);

    rng_store = sub(5);
    let rng = &mut rng_store;
    // ---- module list + symbols
    let mut syms: HashMap<String, Vec<u8>> = HashMap::new();
    for m in &mods {
        let name = DumpString::new(&m.name, endian);
        let mut module = Module::new(endian, m.base, m.size, &name, rng.next() as u32, rng.next() as u32, None);
        // a CodeView record (PDB70) so that debug_file/debug_id exist
        if rng.chance(2, 3) {
            let cv = Section::with_endian(endian)
                .D32(md::CvSignature::Pdb70 as u32)
                .append_bytes(&rand_bytes(rng, 16))
                .D32(rng.below(4) as u32)
                .append_bytes(format!("{}.pdb\0", m.name.rsplit(['/', '\\']).next().unwrap_or("x")).as_bytes());
            module = module.cv_record(&cv);
            dump = dump.add(cv);
        }
        dump = dump.add(name).add_module(module);
        if feat & (F_SYM_FUNC | F_SYM_CFI | F_SYM_WIN | F_SYM_CORRUPT) != 0 && !rng.chance(1, 6) {
            syms.insert(m.name.clone(), gen_symbols(rng, cpu, os, &m.name, m.base, m.size, feat));
        }
    }
    rng_store = sub(6);
    let rng = &mut rng_store;
    if feat & F_UNLOADED != 0 {
        let n = rng.range(1, 4);
        for i in 0..n {
            let name = DumpString::new(&format!("unloaded{}.dll", i % 2), endian);
            let (base, size) = if hostile {
                let size = *rng.pick(&[0u32, 1, 0x1000, 0xffffffff]);
                (place(rng, ptr, size as u64, true, 8 + i), size)
            } else if !mods.is_empty() && rng.chance(1, 2) {
                let m = rng.pick(&mods);
                (m.base.wrapping_add(m.size as u64), 0x10000) // right after a loaded module
            } else {
                (code_addr(rng) & !0xfff, 0x20000)
            };
            let um = UnloadedModule::new(endian, base, size, &name, rng.next() as u32, rng.next() as u32);
            dump = dump.add(name).add_unloaded_module(um);
        }
    }

    rng_store = sub(7);
    let rng = &mut rng_store;
    // ---- threads
    let nthreads = if feat & F_STACKS != 0 { rng.range(1, 3) } else { rng.range(0, 2) };
    let mut tids: Vec<u32> = vec![];
    let mut stack_tops: Vec<u64> = vec![];
    for t in 0..nthreads {
        let tid = if rng.chance(1, 8) { 1 } else { 0x100 + t as u32 }; // sometimes duplicate ids
        tids.push(tid);
        let ssize: u64 = if feat & F_STACKS != 0 { { let r1_ = rng.range(16, 4096); *rng.pick(&[16u64, 17, 24, 64, 100, 256, 1024, 4096, r1_]) } } else { *rng.pick(&[0u64, 1, 8]) };
        let sbase = place(rng, ptr, ssize, hostile, 32 + t) & if ptr == 4 && !hostile { 0xffff_ffff } else { u64::MAX };
        stack_tops.push(sbase);
        // contents: random, seeded with return addresses and frame-pointer links
        let mut bytes = if rng.chance(1, 3) { vec![0u8; ssize as usize] } else { rand_bytes(rng, ssize as usize) };
        let w = ptr as usize;
        let words = ssize as usize / w;
        let put = |bytes: &mut Vec<u8>, i: usize, v: u64| {
            if (i + 1) * w <= bytes.len() {
                let b = if big { v.to_be_bytes() } else { v.to_le_bytes() };
                if big {
                    bytes[i * w..(i + 1) * w].copy_from_slice(&b[8 - w..]);
                } else {
                    bytes[i * w..(i + 1) * w].copy_from_slice(&b[..w]);
                }
            }
        };
        let density = *rng.pick(&[0u64, 2, 4, 8, 16]);
        for i in 0..words {
            if density > 0 && rng.below(density) == 0 {
                put(&mut bytes, i, code_addr(rng));
            } else if rng.chance(1, 6) {
                // frame pointer link to a higher stack slot followed by a return address
                let target = sbase.wrapping_add(((i as u64 + 1 + rng.below(8)) * w as u64).min(ssize));
                put(&mut bytes, i, target);
                put(&mut bytes, i + 1, code_addr(rng));
            }
        }
        let sp = match rng.below(10) {
            0 => sbase.wrapping_add(ssize),       // one past the end
            1 => sbase.wrapping_sub(1),           // just below
            2 => rng.next() & mask,               // anywhere
            3 => sbase.wrapping_add(ssize.saturating_sub(1)), // last byte
            4 => sbase.wrapping_add(rng.below(ssize.max(1))), // unaligned
            _ => sbase.wrapping_add(rng.below(ssize.max(1)) & !(w as u64 - 1)),
        } & mask;
        let fp = if rng.chance(2, 3) { sbase.wrapping_add(rng.below(ssize.max(1)) & !(w as u64 - 1)) } else { rng.next() } & mask;
        let regs = Regs { ip: code_addr(rng), sp, fp, lr: code_addr(rng), gen: [rng.next(), rng.next(), rng.next(), rng.next()] };
        let ctx_bytes = { let b_ = rng.chance(1, 16); make_context(cpu, big, rng, &regs, b_) };
        let ctx_bytes = if rng.chance(1, 20) { ctx_bytes[..ctx_bytes.len() / 3].to_vec() } else { ctx_bytes };
        let ctx = Section::with_endian(endian).append_bytes(&ctx_bytes);
        let stack = Memory::with_section(Section::with_endian(endian).append_bytes(&bytes), sbase);
        let thread = Thread::new(endian, tid, &stack, &ctx);
        dump = dump.add_thread(thread).add(ctx);
        // the thread cites its stack by file offset, which only a MemoryList entry provides; in
        // Memory64 mode the same bytes are also listed in the Memory64List (which `get_memory` prefers)
        if feat & F_MEM64 != 0 {
            dump = dump.add_memory64(Memory::with_section(Section::with_endian(endian).append_bytes(&bytes), sbase));
        }
        dump = dump.add_memory(stack);
        if feat & F_NAMES != 0 && rng.chance(2, 3) {
            if rng.chance(1, 5) {
                dump = dump.add_thread_name(ThreadName::new(endian, tid, None));
            } else {
                let nm = DumpString::new(*rng.pick(&["main", "", "worker #1", "ünï\u{1F4A9}", "a\"b\\c\n"]), endian);
                dump = dump.add_thread_name(ThreadName::new(endian, tid, Some(&nm))).add(nm);
            }
        }
    }
    // the crashing code
    if feat & F_CODE != 0 {
        let mem = Memory::with_section(Section::with_endian(endian).append_bytes(&code), code_base);
        if feat & F_MEM64 != 0 {
            dump = dump.add_memory64(mem);
        } else {
            dump = dump.add_memory(mem);
        }
    }

    rng_store = sub(8);
    let rng = &mut rng_store;
    // ---- exception
    let mut crash_addr: u64 = 0;
    if feat & F_EXCEPTION != 0 {
        let mut ex = Exception::new(endian);
        ex.thread_id = if !tids.is_empty() && !rng.chance(1, 6) { *rng.pick(&tids) } else { 0xdead };
        let (code_, flags, info0): (u32, u32, u64) = match os {
            "windows" => *rng.pick(&[
                (0xc0000005u32, 0u32, 0u64), (0xc0000005, 0, 1), (0xc0000005, 0, 8), (0xc0000005, 0, 99), (0xc00000fd, 0, 0), (0xc0000094, 0, 0),
                (0xc0000096, 0, 0), (0xc0000006, 0, 1), (0xc0000409, 0, 5), (0x80000003, 0, 0), (0xc0000420, 0, 0), (0xe06d7363, 0, 0), (0x12345678, 0, 0), (0xc0000194, 0, 0),
            ]),
            "macos" | "ios" => *rng.pick(&[
                (1u32, 13u32, 0u64), (1, 1, 0), (1, 2, 0), (1, 0x101, 0), (2, 1, 0), (3, 1, 0), (3, 8, 0), (5, 0x10003, 0), (6, 1, 0), (11, 0x20000000, 0), (12, 0, 0), (13, 0, 0), (99, 0, 0),
            ]),
            _ => *rng.pick(&[
                (11u32, 1u32, 0u64), (11, 2, 0), (11, 0x80, 0), (7, 0x80, 0), (7, 1, 0), (8, 1, 0), (8, 3, 0), (4, 1, 0), (5, 1, 0), (6, 0xfffffffa, 0), (31, 1, 0), (0xffffffff, 0, 0), (0, 0, 0),
            ]),
        };
        ex.exception_record.exception_code = code_;
        ex.exception_record.exception_flags = flags;
        crash_addr = match rng.below(8) {
            0 => 0,
            1 => u64::MAX,
            2 => exc_regs.gen[0],
            3 => exc_regs.sp.wrapping_sub(8),
            4 => exc_regs.ip,
            5 => 0x1000,
            _ => rng.next() & mask,
        };
        ex.exception_record.exception_address = if os == "windows" { exc_regs.ip } else { crash_addr };
        ex.exception_record.number_parameters = *rng.pick(&[0u32, 2, 2, 3, 15, 16, 0xffffffff]);
        ex.exception_record.exception_information[0] = info0;
        ex.exception_record.exception_information[1] = crash_addr;
        ex.exception_record.exception_information[2] = rng.next();
        ex.thread_context = exc_ctx_loc;
        dump = dump.add_exception(ex);
    }

    rng_store = sub(9);
    let rng = &mut rng_store;
    // ---- memory info / maps
    // addresses the guard-page check will look at
    let mut hot: Vec<u64> = vec![crash_addr, exc_regs.gen[0], exc_regs.gen[1], exc_regs.sp.wrapping_sub(8), exc_regs.sp];
    hot.truncate(rng.range(1, 5) as usize);
    if feat & F_MEMINFO != 0 {
        let mut add = |dump: SynthMinidump, base: u64, size: u64, state: u32, prot: u32| -> SynthMinidump {
            dump.add_memory_info(MemoryInfo::new(endian, base, base, prot, size, state, prot, 0x20000))
        };
        let prots = [1u32, 2, 4, 0x20, 0x40, 0x104, 0, 0x10];
        for &a in &hot {
            let page = a & !0xfff;
            // the region holding the address: often a small no-access one (guard page candidate)
            let sz = *rng.pick(&[0x1000u64, 0x1000, 0x4000, 0x8000, 0x10000]);
            let prot = if rng.chance(1, 2) { 1 } else { *rng.pick(&prots) };
            dump = add(dump, page, sz, 0x1000, prot);
            if rng.chance(2, 3) {
                dump = add(dump, page.wrapping_add(sz), 0x2000, 0x1000, *rng.pick(&prots));
            }
            if rng.chance(2, 3) {
                dump = add(dump, page.wrapping_sub(0x2000), 0x2000, 0x1000, *rng.pick(&prots));
            }
        }
        if rng.chance(1, 2) {
            // regions at the very top of the address space
            dump = add(dump, 0xffff_ffff_ffff_f000, 0x1000, 0x1000, *rng.pick(&prots));
            if rng.chance(1, 2) {
                dump = add(dump, 0xffff_ffff_ffff_e000, 0x1000, 0x1000, *rng.pick(&prots));
            }
        }
        if hostile {
            dump = add(dump, rng.next(), *rng.pick(&[0u64, 1, u64::MAX, 0x8000_0000_0000_0000]), *rng.pick(&[0x1000u32, 0x2000, 0x10000, 0]), *rng.pick(&prots));
            dump = add(dump, u64::MAX, 1, 0x1000, 4);
            dump = add(dump, 0, u64::MAX, 0x1000, 1);
        }
        tags.push("meminfo".into());
    }
    rng_store = sub(10);
    let rng = &mut rng_store;
    if feat & F_MAPS != 0 {
        dump = dump.set_linux_maps(&gen_maps(rng, ptr, &hot));
    }

    rng_store = sub(11);
    let rng = &mut rng_store;
    // ---- /proc streams
    if feat & F_LIMITS != 0 {
        dump = dump.set_linux_proc_limits(&gen_limits(rng));
    }
    rng_store = sub(12);
    let rng = &mut rng_store;
    if feat & F_PROC != 0 {
        let lsb: &[&[u8]] = &[b"DISTRIB_ID=Ubuntu\nDISTRIB_RELEASE=22.04\nDISTRIB_CODENAME=jammy\nDISTRIB_DESCRIPTION=\"Ubuntu 22.04\"\n", b"=\n==\nDISTRIB_ID\n", b"ID=\"\nRELEASE='x\n\xff=\xfe\n", b""];
        dump = dump.set_linux_lsb_release(*rng.pick(lsb));
        let cpuinfo: &[&[u8]] = &[b"processor\t: 0\nmodel name\t: X\nmicrocode\t: 0x1f\n\nprocessor\t: 1\n", b"microcode : 0xffffffffffffffffff\n", b"microcode:zz\n:\n", b"microcode\t: 0x\n", b"\xff\xff: \xfe\n"];
        dump = dump.set_linux_cpu_info(*rng.pick(cpuinfo));
        let status: &[&[u8]] = &[b"Name:\tapp\nPid:\t1234\nPPid:\t1\n", b"Pid:\tabc\n", b"Pid:\t99999999999999999999\n", b"Pid:\n", b"Pid:\t-5\n", b"\n\n"];
        dump = dump.set_linux_proc_status(*rng.pick(status));
        let environ: &[&[u8]] = &[b"A=B\0C=D\0", b"\0\0=\0", b"NOEQ\0", b""];
        dump = dump.set_linux_environ(*rng.pick(environ));
    }
    rng_store = sub(13);
    let rng = &mut rng_store;
    if feat & F_SOFT != 0 {
        dump = dump.set_soft_errors(*rng.pick(&["[]", "[{\"a\":1}]", "{", "[1,2,\"x\"]", "null", "\"s\""]));
    }

    rng_store = sub(14);
    let rng = &mut rng_store;
    // ---- misc info
    if feat & F_MISC != 0 {
        let mut misc = MiscStream::new(endian);
        if rng.chance(2, 3) {
            misc.process_id = Some(rng.next() as u32);
        }
        if rng.chance(2, 3) {
            misc.process_times = Some(MiscFieldsProcessTimes { process_create_time: *rng.pick(&[0u32, 1262805300, 1262805400, 0xffffffff]), process_user_time: rng.next() as u32, process_kernel_time: rng.next() as u32 });
        }
        if rng.chance(1, 3) {
            misc.power_info = Some(MiscFieldsPowerInfo { processor_max_mhz: 3000, processor_current_mhz: 2000, processor_mhz_limit: 3000, processor_max_idle_state: 1, processor_current_idle_state: 1 });
        }
        if rng.chance(1, 3) {
            misc.process_integrity_level = Some(rng.next() as u32);
            misc.process_execute_flags = Some(rng.next() as u32);
            misc.protected_process = Some(rng.below(2) as u32);
        }
        if rng.chance(1, 4) {
            misc.build_strings = Some(MiscFieldsBuildString::default());
        }
        if rng.chance(1, 4) {
            misc.pad_to_size = Some(*rng.pick(&[832usize, 900, 1364, 2000]));
        }
        dump = dump.add_stream(misc);
    }

    rng_store = sub(15);
    let rng = &mut rng_store;
    // ---- handles
    if feat & F_HANDLES != 0 {
        for i in 0..rng.range(1, 3) {
            let tn = DumpString::new(*rng.pick(&["File", "Event", ""]), endian);
            let on = DumpString::new(*rng.pick(&["\\Device\\HarddiskVolume1\\x", "", "ü"]), endian);
            let hd = HandleDescriptor::new(endian, 0x10 + i, if rng.chance(3, 4) { Some(&tn) } else { None }, if rng.chance(3, 4) { Some(&on) } else { None }, rng.next() as u32, rng.next() as u32, 1, 2);
            dump = dump.add(tn).add(on).add_handle_descriptor(hd);
        }
    }
    rng_store = sub(16);
    let rng = &mut rng_store;
    if feat & F_CRASHPAD != 0 {
        let mut cp = CrashpadInfo::new(endian).add_simple_annotation("k", "v").add_simple_annotation("", "ü");
        cp = cp.add_module(ModuleCrashpadInfo::new(*rng.pick(&[0u32, 1, 99, 0xffffffff]), endian).add_list_annotation("x").add_simple_annotation("a", "b"));
        dump = dump.add_crashpad_info(cp);
    }
    rng_store = sub(17);
    let rng = &mut rng_store;
    if feat & F_BREAKPAD != 0 {
        // MINIDUMP_BREAKPAD_INFO: validity, dump_thread_id, requesting_thread_id
        let validity = *rng.pick(&[0u32, 1, 2, 3, 0xffffffff]);
        let pick_tid = |rng: &mut Rng| if !tids.is_empty() && rng.chance(3, 4) { *rng.pick(&tids) } else { 0xbeef };
        let sec = Section::with_endian(endian).D32(validity).D32(pick_tid(rng)).D32(pick_tid(rng));
        dump = dump.add_stream(SimpleStream { stream_type: md::MINIDUMP_STREAM_TYPE::BreakpadInfoStream as u32, section: sec });
    }
    rng_store = sub(18);
    let rng = &mut rng_store;
    if feat & F_MAC != 0 {
        // boot args: u32 stream_type-ish header + rva of a string; crash info: hostile raw bytes
        let sec = Section::with_endian(endian).append_bytes(&{ let n_ = rng.range(0, 64) as usize; rand_bytes(rng, n_) });
        dump = dump.add_stream(SimpleStream { stream_type: md::MINIDUMP_STREAM_TYPE::MozMacosBootargsStream as u32, section: sec });
        let sec = Section::with_endian(endian).D32(0xf).D32(*rng.pick(&[0u32, 1, 8, 20, 0xffffffff])).append_bytes(&{ let n_ = rng.range(0, 200) as usize; rand_bytes(rng, n_) });
        dump = dump.add_stream(SimpleStream { stream_type: md::MINIDUMP_STREAM_TYPE::MozMacosCrashInfoStream as u32, section: sec });
        // an unknown and an unimplemented stream
        dump = dump.add_stream(SimpleStream { stream_type: 0x4d5a_0099, section: Section::with_endian(endian).D32(1) });
        dump = dump.add_stream(SimpleStream { stream_type: md::MINIDUMP_STREAM_TYPE::ThreadExListStream as u32, section: Section::with_endian(endian).D32(0) });
    }

    rng_store = sub(19);
    let rng = &mut rng_store;
    let evil = if feat & F_EVIL != 0 {
        let leaf = mods.first().map(|m| m.name.rsplit(['/', '\\']).next().unwrap_or("").to_string()).unwrap_or_default();
        Some(match rng.below(5) {
            0 => format!("{{\"ModuleSignatureInfo\":{{\"Cert Inc\":[{:?},\"other.dll\"]}},\"CPUMicrocodeVersion\":\"0x1a\"}}", leaf),
            1 => format!("{{\"ModuleSignatureInfo\":\"{{\\\"C\\\":[{}]}}\",\"CPUMicrocodeVersion\":\"zz\"}}", serde_json::to_string(&serde_json::to_string(&leaf).unwrap()).unwrap().trim_matches('"')),
            2 => "{\"ModuleSignatureInfo\":5,\"CPUMicrocodeVersion\":7}".to_string(),
            3 => "not json".to_string(),
            _ => "{\"CPUMicrocodeVersion\":\"0xffffffffffffffffffff\"}".to_string(),
        })
    } else {
        None
    };

    for (i, n) in FEAT_NAMES.iter().enumerate() {
        if feat & (1 << i) != 0 {
            tags.push(format!("feat:{n}"));
        }
    }
    tags.push(format!("threads:{nthreads}"));
    tags.push(format!("modules:{}", mods.len()));
    let _ = stack_tops;
    let bytes = dump.finish()?;
    Some(Built { dump: bytes, syms, evil, tags })
}

/// byte-level corruption of a dump: `k` edits chosen by `seed`
pub fn mutate_dump(bytes: &mut Vec<u8>, seed: u64, k: u32) {
    if bytes.is_empty() {
        return;
    }
    let mut rng = Rng::new(seed ^ 0x6d75_7461_7465);
    let len = bytes.len() as u64;
    // where is the stream directory? (header: count at 8, rva at 12, little endian in most cases)
    let dir = if bytes.len() >= 16 { u32::from_le_bytes([bytes[12], bytes[13], bytes[14], bytes[15]]) as u64 } else { 0 };
    let ndir = if bytes.len() >= 12 { u32::from_le_bytes([bytes[8], bytes[9], bytes[10], bytes[11]]) as u64 } else { 0 };
    for _ in 0..k {
        let pos = match rng.below(4) {
            0 => rng.below(32.min(len)),                                               // header
            1 if dir < len => dir + rng.below((ndir.clamp(1, 64) * 12).min(len - dir)), // directory
            2 => {
                // the first bytes of some stream (list counts, sizes, rvas)
                let e = dir + 12 * rng.below(ndir.clamp(1, 64));
                if e + 12 <= len {
                    let rva = u32::from_le_bytes([bytes[e as usize + 8], bytes[e as usize + 9], bytes[e as usize + 10], bytes[e as usize + 11]]) as u64;
                    (rva + rng.below(64)).min(len - 1)
                } else {
                    rng.below(len)
                }
            }
            _ => rng.below(len),
        } as usize;
        match rng.below(6) {
            0 => bytes[pos] = *rng.pick(&[0u8, 1, 0x7f, 0x80, 0xff, 0x10]),
            1 => bytes[pos] ^= 1 << rng.below(8),
            2 => {
                // overwrite a 32-bit little-endian word with a boundary value
                let v: u32 = *rng.pick(&[0u32, 1, 0x7fffffff, 0x80000000, 0xffffffff, len as u32, len as u32 - 1, len as u32 + 1, 0xfffffff0]);
                for (j, b) in v.to_le_bytes().iter().enumerate() {
                    if pos + j < bytes.len() {
                        bytes[pos + j] = *b;
                    }
                }
            }
            3 => {
                // overwrite a 64-bit word
                let v: u64 = *rng.pick(&[0u64, u64::MAX, 1 << 63, u64::MAX - 0xfff, 0xffff_ffff_ffff_f000, 1 << 32]);
                for (j, b) in v.to_le_bytes().iter().enumerate() {
                    if pos + j < bytes.len() {
                        bytes[pos + j] = *b;
                    }
                }
            }
            4 => bytes[pos] = rng.next() as u8,
            _ => {
                if rng.chance(1, 4) {
                    let n = rng.below(len) as usize;
                    bytes.truncate(n.max(1));
                    return;
                } else {
                    bytes[pos] = bytes[pos].wrapping_add(1);
                }
            }
        }
    }
}
