//! arg_recovery.rs side of engine `process` (C03): x86 dumps whose frames carry generated function
//! names (nested templates / parentheses, unbalanced nesting, huge argument lists, multi-byte
//! characters and white space) are processed with `recover_function_args`; the `arguments` of every
//! frame of the processed state are compared with the compiled model `MdModel.ArgRecovery`
//! (`fillArguments` on the frames' stack pointers, names, `eax` and the bytes of the stack memory).
//!
//! `argrec_kernel` is part of every pipeline case (any x86 state produced under option sets 2 and 3);
//! `process argrec seed:<n> step:<bytes> stack:<bytes> espoff:<bytes> names:<hex,hex,…> opt:<2|3>` builds a dump
//! in which frame i executes inside a FUNC named names[i] and frames are `step` bytes apart.

use super::pipeline_gen as pg;
use crate::common::*;
use minidump::format as md;
use minidump::*;
use minidump_processor::ProcessState;
use minidump_synth::*;
use minidump_unwind::CallingConvention;
use std::collections::HashMap;
use test_assembler::{Endian, Section};

const MOD_BASE: u64 = 0x0040_0000;
const STACK_BASE: u64 = 0x2000_0000;

/// (request, answer) for the argument recovery of the first threads of an x86 state
pub fn argrec_kernel(dump: &Minidump<'_, &[u8]>, state: &ProcessState, opt: u32) -> Option<(String, String)> {
    if opt < 2 || dump.endian != scroll::Endian::Little {
        return None;
    }
    let memory_list = dump.get_memory().unwrap_or_default();
    let tl = dump.get_stream::<MinidumpThreadList>().ok()?;
    let mut reqs: Vec<String> = vec![];
    let mut anss: Vec<String> = vec![];
    let mut budget: usize = 200_000;
    for (stack, thread) in state.threads.iter().zip(tl.threads.iter()) {
        if reqs.len() >= 2 || stack.frames.is_empty() || stack.frames.len() > 64 {
            continue;
        }
        if !stack.frames.iter().any(|f| f.function_name.is_some() && matches!(f.context.raw, MinidumpRawContext::X86(_))) {
            continue;
        }
        // the stack memory the processor hands to `fill_arguments` (processor.rs:1166-1183)
        let mut sm = thread.stack_memory(&memory_list);
        if let Some(f0) = stack.frames.first() {
            let sp = f0.context.get_stack_pointer();
            if sm.as_ref().and_then(|m| m.get_memory_at_address::<u64>(sp)).is_none() {
                sm = memory_list.memory_at_address(sp).or(sm);
            }
        }
        let stk = match &sm {
            None => "-".to_string(),
            Some(m) => {
                if m.bytes().len() > 16384 {
                    continue;
                }
                format!("{}:{}", m.base_address(), hex(m.bytes()))
            }
        };
        let mut frames: Vec<String> = vec![];
        let mut ans: Vec<String> = vec![];
        for f in &stack.frames {
            let (x86, eax) = match &f.context.raw {
                MinidumpRawContext::X86(ctx) => (1, ctx.get_register("eax", &f.context.valid).map(|v| v.to_string()).unwrap_or_else(|| "-".into())),
                _ => (0, "-".into()),
            };
            let name = match &f.function_name {
                None => "-".to_string(),
                Some(n) => hex(n.as_bytes()),
            };
            frames.push(format!("{}/{}/{}/{}", f.context.get_stack_pointer(), name, x86, eax));
            ans.push(match &f.arguments {
                None => "-".to_string(),
                Some(a) => format!(
                    "{}[{}]",
                    match a.calling_convention {
                        CallingConvention::Cdecl => "cdecl",
                        CallingConvention::WindowsThisCall => "thiscall-win",
                        CallingConvention::OtherThisCall => "thiscall",
                    },
                    a.args.iter().map(|x| format!("{}={}", hex(x.name.as_bytes()), x.value.map(|v| v.to_string()).unwrap_or_else(|| "?".into()))).collect::<Vec<_>>().join(",")
                ),
            });
        }
        let req = format!("argrec fill stk:{stk} frames:{}", frames.join(";"));
        if req.len() > budget {
            continue;
        }
        budget -= req.len();
        reqs.push(req);
        anss.push(ans.join(";"));
    }
    if reqs.is_empty() {
        return None;
    }
    Some((reqs.join(" // "), anss.join(" // ")))
}

// ------------------------------------------------------------------------------------ the dedicated cases

/// a hostile "demangled" function name
pub fn gen_name(rng: &mut Rng) -> String {
    fn ident(rng: &mut Rng) -> String {
        (*rng.pick(&["f", "g", "main", "ns", "Class", "method", "operator<<", "operator()", "operator,", "std", "vector", "é", "λ", "名前", "x"])).to_string()
    }
    fn ty(rng: &mut Rng, depth: u32) -> String {
        let base = *rng.pick(&["int", "char const*", "unsigned long", "T", "std::string", "void", "é", "bool", ""]);
        if depth > 3 {
            return base.to_string();
        }
        match rng.below(9) {
            0 => format!("std::map<{}, {}>", ty(rng, depth + 1), ty(rng, depth + 1)),
            1 => format!("std::vector<{}>", ty(rng, depth + 1)),
            2 => format!("{} (*)({}, {})", ty(rng, depth + 1), ty(rng, depth + 1), ty(rng, depth + 1)),
            3 => format!("A<(1>2), {}>", ty(rng, depth + 1)),
            4 => format!("{}<", base),
            5 => format!("{})", base),
            6 => format!("{}{}{}", *rng.pick(&[" ", "\u{a0}", "\u{3000}", "\u{2003}", "\u{85}", "\t"]), base, *rng.pick(&[" ", "\u{a0}", "\u{2028}", "\u{205f}", "\u{1680}", ""])),
            _ => base.to_string(),
        }
    }
    let mut s = String::new();
    for _ in 0..rng.below(3) {
        s.push_str(&ident(rng));
        s.push_str(*rng.pick(&["::", "::", ":", ":::", "<int>::"]));
    }
    s.push_str(&ident(rng));
    match rng.below(24) {
        0 => return s,                        // no argument list at all
        1 => return format!("{s}("),           // never closed
        2 => return format!("{s})("),          // wrong order
        3 => {
            // a huge flat list
            let n = rng.range(100, 1200);
            let t = *rng.pick(&["int", "T<a,b>", "é", " x "]);
            return format!("{s}({})", vec![t; n as usize].join(","));
        }
        4 => {
            // deep nesting, balanced or not
            let n = rng.range(50, 600) as usize;
            let (o, c) = *rng.pick(&[("<", ">"), ("(", ")")]);
            let closes = match rng.below(3) {
                0 => n,
                1 => n - 1,
                _ => n + 1,
            };
            return format!("{s}({}a,b{})", o.repeat(n), c.repeat(closes));
        }
        _ => {}
    }
    s.push('(');
    let n = rng.below(7);
    for i in 0..n {
        if i > 0 {
            s.push_str(*rng.pick(&[",", ", ", " ,", ",,", ",\u{a0}"]));
        }
        s.push_str(&ty(rng, 0));
    }
    s.push(')');
    s.push_str(*rng.pick(&["", "", " const", " [clone .cold]", ")", "(", " -> decltype(a(b))", "\u{3000}"]));
    s
}

pub struct ArgCase {
    pub seed: u64,
    pub step: u64,
    pub stack: u64,
    pub espoff: u64,
    pub names: Vec<Vec<u8>>,
}

/// the (dump, symbols) pair of a dedicated case
pub fn build(c: &ArgCase) -> Option<(Vec<u8>, HashMap<String, Vec<u8>>)> {
    if c.stack > (1 << 20) || c.names.len() > 64 || c.names.is_empty() || c.step > 4096 {
        return None;
    }
    let endian = Endian::Little;
    let mut rng = Rng::new(c.seed ^ 0xA56A_56A5_6A56_A56A);
    let n = c.names.len() as u64;
    let func = |i: u64| MOD_BASE + 0x1000 + 0x100 * i;
    let mut bytes: Vec<u8> = (0..c.stack).map(|j| ((0xA0u64 + j * 7) & 0xff) as u8).collect();
    let put = |bytes: &mut Vec<u8>, off: u64, v: u32| {
        let off = off as usize;
        if off + 4 <= bytes.len() {
            bytes[off..off + 4].copy_from_slice(&v.to_le_bytes());
        }
    };
    for k in 0..n {
        // the return address of frame k (read at cfa - 4) points into FUNC k + 1; the last one is 0
        let cfa = c.espoff + c.step * (k + 1);
        if cfa >= 4 {
            put(&mut bytes, cfa - 4, if k + 1 < n { (func(k + 1) + 0x11) as u32 } else { 0 });
        }
    }
    let regs = pg::Regs { ip: func(0) + 0x10, sp: STACK_BASE + c.espoff, fp: STACK_BASE + c.espoff, lr: 0, gen: [rng.next(), rng.next(), 0, 0] };
    let ctx_bytes = pg::make_context("x86", false, &mut rng, &regs, false);
    let ctx = Section::with_endian(endian).append_bytes(&ctx_bytes);
    let stack_mem = Memory::with_section(Section::with_endian(endian).append_bytes(&bytes), STACK_BASE);
    let name = DumpString::new("c:\\argrec.dll", endian);
    let module = minidump_synth::Module::new(endian, MOD_BASE, 0x10000, &name, 1, 2, None);
    let si = SystemInfo::new(endian).set_processor_architecture(md::ProcessorArchitecture::PROCESSOR_ARCHITECTURE_INTEL as u16).set_platform_id(md::PlatformId::VER_PLATFORM_WIN32_NT as u32);
    let thread = Thread::new(endian, 0x100, &stack_mem, &ctx);
    let dump = SynthMinidump::with_endian(endian).add_system_info(si).add(name).add_module(module).add_thread(thread).add(ctx).add_memory(stack_mem).finish()?;
    let mut s: Vec<u8> = Vec::new();
    s.extend_from_slice(b"MODULE windows x86 000000000000000000000000000000000 argrec.pdb\n");
    for (i, nm) in c.names.iter().enumerate() {
        s.extend_from_slice(format!("FUNC {:x} 100 0 ", 0x1000 + 0x100 * i).as_bytes());
        s.extend_from_slice(nm);
        s.push(b'\n');
    }
    s.extend_from_slice(format!("STACK CFI INIT 1000 {:x} .cfa: $esp {} + .ra: .cfa 4 - ^\n", 0x100 * n, c.step).as_bytes());
    let mut syms = HashMap::new();
    syms.insert("c:\\argrec.dll".to_string(), s);
    Some((dump, syms))
}

pub fn generate(tier: Tier, rng: &mut Rng, emit: &mut dyn FnMut(String)) {
    let quick = tier == Tier::Quick;
    let directed: &[&[&str]] = &[
        &["f(a, b, c)", "g(int)", "h()"],
        &["ns::Class::method(int, char const*)", "plain(int, std::map<int, int>, void (*)(int))"],
        &["f(a>b)", "g(", "k(int, (x), <y>)", "l(int)) extra("],
        &["m(\u{a0}é ,\u{3000}ü\u{2003}) const", "t(,,,)", "operator>>(int)", "operator,(a, b)"],
        &["A::B::C(std::vector<std::pair<int, int>>)", "u(int) const", "n(<)", "p::q("],
        &["x(\u{85}a\u{85},\u{1680}b\u{2028},\u{205f})"],
    ];
    for (i, names) in directed.iter().enumerate() {
        for step in [16u64, 8, 4] {
            emit(format!(
                "process argrec seed:{i} step:{step} stack:256 espoff:0 names:{} opt:2",
                names.iter().map(|n| hex(n.as_bytes())).collect::<Vec<_>>().join(",")
            ));
        }
    }
    for _ in 0..(if quick { 2500 } else { 40000 }) {
        let n = rng.range(1, 5);
        let names: Vec<String> = (0..n).map(|_| hex(gen_name(rng).as_bytes())).collect();
        let step = *rng.pick(&[4u64, 8, 12, 16, 16, 32, 64, 0, 1, 4096]);
        let stack = *rng.pick(&[0u64, 3, 16, 64, 256, 256, 1024, 4096]);
        let espoff = *rng.pick(&[0u64, 0, 0, 4, 1, 250]);
        emit(format!("process argrec seed:{} step:{step} stack:{stack} espoff:{espoff} names:{} opt:{}", rng.below(1 << 32), names.join(","), 2 + rng.below(2)));
    }
}
