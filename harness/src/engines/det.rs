//! Engine `det` (C13): the same `(dump, symbols)` pair is processed many times in-process — fresh
//! `Symbolizer`, fresh hash maps (fresh `RandomState`s) — under several supplier completion schedules
//! and three executors; `print_json(false)`, `print_json(true)`, `print`, `print_brief` bytes must be
//! IDENTICAL across all runs of one pair. The small models of `MdModel.Det` are driven with inputs
//! extracted from the real run (the REAL iteration order of the limits map and of the validity
//! set, the REAL completion order of the supplier calls) and compared with what the real
//! renderer / walker produced.
//!
//! case lines
//!   `det run f:<0|1|2> exc:<0|1> lim:<n>.<seed> alias:<0..4> mods:<path>=<ok|nf|pe>[@<g>],.. thr:<m.m.m;m.m;..>
//!            sched:<d.d.d|d.d.d|..> runs:<N> x:<subset of BRT> rs:<seed> evil:<0|1|2> [cpu:<arm64|amd64|arm|x86|mips|mips64|arm64old|ppc|ppc64|sparc>]`
//!       f       ProcessorOptions: 0 default, 1 stable_all, 2 unstable_all
//!       exc     add an exception stream (SIGSEGV on the first thread)
//!       lim     `/proc/<pid>/limits` stream with n limit lines (names/values from the seed); 0: none
//!       alias   STACK CFI flavour of the modules that have symbols (see `cfi_text`): 0 every register once;
//!               1 every alias pair of the CPU under both spellings with different rules; 2 one spelling
//!               `.undef`; 3 like 1 plus a delta record overriding one spelling; 4 (legacy) flavour 0 on AMD64;
//!               5 like 1 with `$` prefixes and duplicate `$x:` / `x:` occurrences
//!       cpu     CPU of the dump (absent: arm64, or amd64 for flavour 4)
//!       mods    module list (ARM64 Linux dump); path = code_file; what the supplier answers; `@g`: the
//!               module carries the PDB70 CodeView record and timestamp of group g (modules of one
//!               group share debug file, debug id and code id but not the code file)
//!       evil    evil JSON: 0 none; 1 ModuleSignatureInfo with every module under one certificate;
//!               2 one module listed under three certificates
//!       thr     one call chain per thread: module index of every frame, innermost first
//!       sched   supplier schedules: per module the number of suspensions before it answers; the
//!               first table is the base schedule
//!       runs    repetitions of (executor B, base schedule)
//!       x       executors every schedule is run under: B hand-rolled poll-to-completion,
//!               R randomised poller (seed rs: releases waiting supplier calls in random order,
//!               spurious polls), T multi-thread tokio runtime (supplier suspends in spawned tasks)
//!   `det file d:<testdata dump> f:<0|1|2> k:<max suspensions> runs:<N> x:<subset of BRT> rs:<seed>`
//!       a dump of the repository's testdata with the repository's symbol directory behind the same
//!       gates (oracle only, no model)
//!   `det cfi [cpu:<X86|AMD64|ARM|ARM64_OLD|ARM64|PPC|PPC64|MIPS|SPARC>] init:<r=v+|r=v-,..|-> rules:<hexlabel>=<v|->,..|-> sh:<seed>`
//!       direct call of `walk_with_stack_cfi` (exported by the `fuzz` feature) with a generic twin of
//!       `CfiStackWalker<C>` built on the real context type (no `cpu:` = ARM64); the rules are rendered into
//!       INIT and delta records in an order chosen by `sh`; init = caller registers forwarded from the
//!       callee (r = position in `C::REGISTERS`)
//!   `det mix a:<cpu> b:<cpu> seq:<digits 0-7> rs:<seed>`
//!       two dumps processed once each, then printed alternately (digit = 4 * which dump + printer) on one
//!       thread and as tasks of the multi-thread runtime; every output must equal the same print on a fresh thread

use crate::common::*;
use async_trait::async_trait;
use breakpad_symbols::fuzzing_private_exports::walk_with_stack_cfi;
use breakpad_symbols::{
    CfiRules, FileError, FileKind, FrameWalker, LocateSymbolsResult, Module, SymbolError, SymbolFile,
    SymbolSupplier,
};
use minidump::format as md;
use minidump::{CpuContext, Minidump, MinidumpContextValidity};
use minidump_processor::{Limit, ProcessState, ProcessorOptions};
use minidump_synth as synth;
use std::cell::RefCell;
use std::collections::{BTreeMap, BTreeSet, HashSet};
use std::future::Future;
use std::path::PathBuf;
use std::pin::Pin;
use std::sync::atomic::{AtomicBool, Ordering};
use std::sync::{Arc, Mutex, OnceLock};
use std::task::{Context, Poll, Wake, Waker};
use test_assembler::{Endian, Section};

pub struct Det;

const LE: Endian = Endian::Little;

// ------------------------------------------------------------------------------------ the case

#[derive(Clone, Copy, PartialEq, Eq, Debug)]
enum Res {
    Ok,
    Nf,
    Pe,
}
impl Res {
    fn s(self) -> &'static str {
        match self {
            Res::Ok => "ok",
            Res::Nf => "nf",
            Res::Pe => "pe",
        }
    }
}

#[derive(Clone, Debug)]
struct RunCase {
    feat: u32,
    exc: bool,
    lim_n: u32,
    lim_seed: u64,
    alias: u32,
    /// CPU of the dump: arm64 amd64 arm x86 mips mips64 arm64old ppc ppc64 sparc
    cpu: String,
    mods: Vec<(String, Res)>,
    /// per module: CodeView group — modules of one group carry the same PDB70 record (debug file,
    /// debug id) and the same timestamp (hence code id) although their code files differ
    cv: Vec<Option<u32>>,
    thr: Vec<Vec<usize>>,
    sched: Vec<Vec<u32>>,
    runs: u32,
    execs: String,
    rs: u64,
    /// 0: no evil JSON; 1: ModuleSignatureInfo, every module under one certificate; 2: one module
    /// listed under two certificates
    evil: u32,
}

#[derive(Clone, Debug)]
struct CfiCase {
    /// name of the context type as in `MdModel.Gen.Regs.Ctx` (X86, AMD64, ARM, ARM64_OLD, ARM64, PPC, PPC64, MIPS, SPARC)
    cpu: String,
    init: Vec<(u32, u64, bool)>,
    rules: Vec<(String, Option<u64>)>,
    sh: u64,
}

/// a dump of the repository's testdata with the repository's symbol directory
#[derive(Clone, Debug)]
struct FileCase {
    name: String,
    feat: u32,
    /// every lookup is suspended `fnv(code_file, seed_i) % (k+1)` times under schedule i
    k: u32,
    runs: u32,
    execs: String,
    rs: u64,
}

/// two dumps of (usually) different pointer widths, processed once each, then PRINTED alternately:
/// on fresh threads (base), one after the other on ONE thread, and as tasks of the multi-thread runtime
#[derive(Clone, Debug)]
struct MixCase {
    a: String,
    b: String,
    /// the prints, in order: digit = 4 * (0: state a, 1: state b) + printer (0 json, 1 pretty json, 2 text, 3 brief)
    seq: Vec<u8>,
    rs: u64,
}

enum Case {
    Mix(MixCase),
    Run(RunCase),
    Cfi(CfiCase),
    File(FileCase),
}

fn field<'a>(f: &'a str, pfx: &str) -> Option<&'a str> {
    f.strip_prefix(pfx)
}

fn parse_case(case: &str) -> Option<Case> {
    let f: Vec<&str> = case.split(' ').filter(|s| !s.is_empty()).collect();
    if f.len() < 2 || f[0] != "det" {
        return None;
    }
    match f[1] {
        "run" => {
            if f.len() != 13 && f.len() != 14 {
                return None;
            }
            let feat: u32 = field(f[2], "f:")?.parse().ok()?;
            let exc = match field(f[3], "exc:")? {
                "0" => false,
                "1" => true,
                _ => return None,
            };
            let (n, s) = field(f[4], "lim:")?.split_once('.')?;
            let alias: u32 = field(f[5], "alias:")?.parse().ok()?;
            let mut mods = vec![];
            let mut cv = vec![];
            for m in field(f[6], "mods:")?.split(',') {
                let (p, r) = m.rsplit_once('=')?;
                let (r, g) = match r.split_once('@') {
                    Some((r, g)) => (r, Some(g.parse::<u32>().ok().filter(|g| *g < 100)?)),
                    None => (r, None),
                };
                cv.push(g);
                let r = match r {
                    "ok" => Res::Ok,
                    "nf" => Res::Nf,
                    "pe" => Res::Pe,
                    _ => return None,
                };
                if p.is_empty() {
                    return None;
                }
                mods.push((p.to_string(), r));
            }
            let mut thr = vec![];
            for t in field(f[7], "thr:")?.split(';') {
                let chain = t.split('.').map(|x| x.parse().ok()).collect::<Option<Vec<usize>>>()?;
                if chain.is_empty() || chain.iter().any(|m| *m >= mods.len()) {
                    return None;
                }
                thr.push(chain);
            }
            let mut sched = vec![];
            for t in field(f[8], "sched:")?.split('|') {
                let tab = t.split('.').map(|x| x.parse().ok()).collect::<Option<Vec<u32>>>()?;
                if tab.len() != mods.len() {
                    return None;
                }
                sched.push(tab);
            }
            let runs: u32 = field(f[9], "runs:")?.parse().ok()?;
            let execs = field(f[10], "x:")?.to_string();
            if execs.chars().any(|c| !"BRT".contains(c)) {
                return None;
            }
            let rs: u64 = field(f[11], "rs:")?.parse().ok()?;
            let evil: u32 = field(f[12], "evil:")?.parse().ok()?;
            if feat > 2 || alias > 5 || evil > 2 || mods.len() > 64 || thr.len() > 200 || sched.is_empty() || runs == 0 {
                return None;
            }
            // optional last field (older corpus lines: ARM64, or AMD64 for flavour 4)
            let cpu = match f.get(13) {
                Some(x) => field(x, "cpu:")?.to_string(),
                None => if alias == 4 { "amd64" } else { "arm64" }.to_string(),
            };
            cpu_spec(&cpu)?;
            Some(Case::Run(RunCase {
                feat,
                exc,
                lim_n: n.parse().ok()?,
                lim_seed: s.parse().ok()?,
                alias,
                cpu,
                mods,
                cv,
                thr,
                sched,
                runs,
                execs,
                rs,
                evil,
            }))
        }
        "mix" => {
            if f.len() != 6 {
                return None;
            }
            let a = field(f[2], "a:")?.to_string();
            let b = field(f[3], "b:")?.to_string();
            cpu_spec(&a)?;
            cpu_spec(&b)?;
            let seq: Vec<u8> = field(f[4], "seq:")?.chars().map(|c| c.to_digit(8).map(|d| d as u8)).collect::<Option<_>>()?;
            if seq.is_empty() || seq.len() > 64 {
                return None;
            }
            Some(Case::Mix(MixCase { a, b, seq, rs: field(f[5], "rs:")?.parse().ok()? }))
        }
        "file" => {
            if f.len() != 8 {
                return None;
            }
            let name = field(f[2], "d:")?.to_string();
            if !FILE_DUMPS.contains(&name.as_str()) {
                return None;
            }
            let feat: u32 = field(f[3], "f:")?.parse().ok()?;
            let execs = field(f[6], "x:")?.to_string();
            if feat > 2 || execs.chars().any(|c| !"BRT".contains(c)) {
                return None;
            }
            Some(Case::File(FileCase {
                name,
                feat,
                k: field(f[4], "k:")?.parse().ok()?,
                runs: field(f[5], "runs:")?.parse().ok()?,
                execs,
                rs: field(f[7], "rs:")?.parse().ok()?,
            }))
        }
        "cfi" => {
            // `cpu:` is optional (older corpus lines: ARM64)
            let (cpu, f) = match f.get(2).and_then(|x| field(x, "cpu:")) {
                Some(cpu) => (cpu.to_string(), [&f[..2], &f[3..]].concat()),
                None => ("ARM64".to_string(), f.clone()),
            };
            if f.len() != 5 {
                return None;
            }
            let nregs = cfi_registers(&cpu)?.len() as u32;
            let mut init = vec![];
            let i = field(f[2], "init:")?;
            if i != "-" {
                for e in i.split(',') {
                    let (r, v) = e.split_once('=')?;
                    let valid = match v.chars().last()? {
                        '+' => true,
                        '-' => false,
                        _ => return None,
                    };
                    let r: u32 = r.parse().ok()?;
                    if r >= nregs {
                        return None;
                    }
                    init.push((r, v[..v.len() - 1].parse().ok()?, valid));
                }
            }
            let mut rules = vec![];
            let r = field(f[3], "rules:")?;
            if r != "-" {
                for e in r.split(',') {
                    let (l, v) = e.split_once('=')?;
                    let l = String::from_utf8(unhex(l)?).ok()?;
                    if l.is_empty()
                        || l == ".cfa"
                        || l == ".ra"
                        || l.starts_with('$')
                        || l.ends_with(':')
                        || l.chars().any(|c| c.is_ascii_whitespace() || !c.is_ascii_graphic())
                    {
                        return None;
                    }
                    let v = if v == "-" { None } else { Some(v.parse().ok()?) };
                    rules.push((l, v));
                }
            }
            let labels: BTreeSet<&str> = rules.iter().map(|(l, _)| l.as_str()).collect();
            if labels.len() != rules.len() {
                return None;
            }
            Some(Case::Cfi(CfiCase { cpu, init, rules, sh: field(f[4], "sh:")?.parse().ok()? }))
        }
        _ => None,
    }
}

fn render_run(c: &RunCase) -> String {
    format!(
        "det run f:{} exc:{} lim:{}.{} alias:{} mods:{} thr:{} sched:{} runs:{} x:{} rs:{} evil:{} cpu:{}",
        c.feat,
        c.exc as u32,
        c.lim_n,
        c.lim_seed,
        c.alias,
        c.mods
            .iter()
            .zip(c.cv.iter())
            .map(|((p, r), g)| format!("{p}={}{}", r.s(), g.map(|g| format!("@{g}")).unwrap_or_default()))
            .collect::<Vec<_>>()
            .join(","),
        c.thr
            .iter()
            .map(|t| t.iter().map(|m| m.to_string()).collect::<Vec<_>>().join("."))
            .collect::<Vec<_>>()
            .join(";"),
        c.sched
            .iter()
            .map(|t| t.iter().map(|m| m.to_string()).collect::<Vec<_>>().join("."))
            .collect::<Vec<_>>()
            .join("|"),
        c.runs,
        c.execs,
        c.rs,
        c.evil,
        c.cpu
    )
}

fn render_mix(c: &MixCase) -> String {
    format!("det mix a:{} b:{} seq:{} rs:{}", c.a, c.b, c.seq.iter().map(|d| d.to_string()).collect::<String>(), c.rs)
}

const FILE_DUMPS: &[&str] = &["test.dmp", "linux-mini.dmp", "simple-crashpad.dmp", "pipeline-inlines-macos-segv.dmp", "invalid-parameter.dmp"];

fn render_file(c: &FileCase) -> String {
    format!("det file d:{} f:{} k:{} runs:{} x:{} rs:{}", c.name, c.feat, c.k, c.runs, c.execs, c.rs)
}

fn render_cfi(c: &CfiCase) -> String {
    let init = if c.init.is_empty() {
        "-".to_string()
    } else {
        c.init.iter().map(|(r, v, ok)| format!("{r}={v}{}", if *ok { '+' } else { '-' })).collect::<Vec<_>>().join(",")
    };
    let rules = if c.rules.is_empty() {
        "-".to_string()
    } else {
        c.rules
            .iter()
            .map(|(l, v)| format!("{}={}", hex(l.as_bytes()), v.map(|v| v.to_string()).unwrap_or("-".into())))
            .collect::<Vec<_>>()
            .join(",")
    };
    format!("det cfi cpu:{} init:{init} rules:{rules} sh:{}", c.cpu, c.sh)
}

// ------------------------------------------------------------------------- the (dump, symbols) pair

const LIMIT_NAMES: &[&str] = &[
    "Max cpu time",
    "Max file size",
    "Max data size",
    "Max stack size",
    "Max core file size",
    "Max resident set",
    "Max processes",
    "Max open files",
    "Max locked memory",
    "Max address space",
    "Max file locks",
    "Max pending signals",
    "Max msgqueue size",
    "Max nice priority",
    "Max realtime priority",
    "Max realtime timeout",
];
const LIMIT_UNITS: &[&str] = &["seconds", "bytes", "processes", "files", "locks", "signals", "us", ""];

fn limits_text(n: u32, seed: u64) -> String {
    let mut rng = Rng::new(seed ^ 0x11a1);
    let mut s = String::from("Limit                     Soft Limit           Hard Limit           Units     \n");
    let mut names: Vec<String> = LIMIT_NAMES.iter().map(|x| x.to_string()).collect();
    // shuffle
    for i in (1..names.len()).rev() {
        let j = rng.below(i as u64 + 1) as usize;
        names.swap(i, j);
    }
    for i in 0..n as usize {
        let name = if i < names.len() { names[i].clone() } else { format!("Max verif thing {i}") };
        let val = |rng: &mut Rng| -> String {
            match rng.below(4) {
                0 => "unlimited".to_string(),
                1 => rng.below(100_000).to_string(),
                2 => (rng.next() >> rng.below(40)).to_string(),
                _ => "8388608".to_string(),
            }
        };
        let soft = val(&mut rng);
        let hard = val(&mut rng);
        let unit = *rng.pick(LIMIT_UNITS);
        s.push_str(&format!("{name:<26}{soft:<21}{hard:<21}{unit:<10}\n"));
        // now and then the same name again (the later line wins in the map)
        if rng.chance(1, 12) {
            s.push_str(&format!("{name:<26}{:<21}{:<21}{unit:<10}\n", "1", "2"));
        }
        // ... or a DIFFERENT name that a careless normalisation would identify with it (other letter
        // case, other kernel's capitalisation): distinct keys of the map, distinct entries of the report,
        // whose relative order must not be left to the hash order
        if rng.chance(1, 5) {
            let twin = match rng.below(4) {
                0 => name.to_uppercase(),
                1 => name.to_lowercase(),
                2 => name.replace("cpu", "CPU").replace("Max", "max"),
                _ => name.chars().enumerate().map(|(k, ch)| if k % 2 == 0 { ch.to_ascii_uppercase() } else { ch }).collect(),
            };
            if twin != name {
                s.push_str(&format!("{twin:<26}{:<21}{:<21}{unit:<10}\n", val(&mut rng), val(&mut rng)));
            }
        }
    }
    s
}

fn mod_base(i: usize) -> u64 {
    0x1000_0000 + (i as u64) * 0x10_0000
}
const MOD_SIZE: u32 = 0x1_0000;
const UNLOADED_BASE: u64 = 0x2000_0000;
fn stack_base(t: usize) -> u64 {
    0x7000_0000 + (t as u64) * 0x1_0000
}
fn frame_off(j: usize) -> u64 {
    0x1000 + ((j % 12) as u64) * 0x200 + 0x40
}
fn tid(t: usize) -> u32 {
    1000 + 7 * t as u32
}

/// what the generator needs to know about a CPU
struct CpuSpec {
    /// `MINIDUMP_SYSTEM_INFO.processor_architecture`
    arch: u16,
    /// bytes per stack slot / register (the size `CfiStackWalker` reads with `^`)
    word: u64,
    /// architecture string of the MODULE line
    sym_arch: &'static str,
}

fn cpu_spec(cpu: &str) -> Option<CpuSpec> {
    let (arch, word, sym_arch) = match cpu {
        "x86" => (0, 4, "x86"),
        "mips" => (1, 4, "mips"),
        "ppc" => (3, 4, "ppc"),
        "arm" => (5, 4, "arm"),
        "amd64" => (9, 8, "x86_64"),
        "arm64" => (12, 8, "arm64"),
        "sparc" => (0x8001, 4, "sparc"),
        "ppc64" => (0x8002, 8, "ppc64"),
        "arm64old" => (0x8003, 8, "arm64"),
        // (no context reader for this architecture number: threads without context)
        "mips64" => (0x8004, 8, "mips64"),
        _ => return None,
    };
    Some(CpuSpec { arch, word, sym_arch })
}

const RUN_CPUS: &[&str] = &["arm64", "amd64", "arm", "x86", "mips", "mips64", "arm64old", "ppc", "ppc64", "sparc"];

/// STACK CFI records of one module for the dump's CPU. Every frame of the generated stacks is four
/// slots of `word` bytes below the CFA: a saved register, an alternative frame-pointer slot, the
/// canonical frame-pointer slot, the return address. Flavours (`alias:`):
///   0 every register named once; 1 every alias pair the CPU's `memoize_register` knows named under
///   BOTH spellings with different rules (where the CPU has none: the `$`-prefixed and the plain
///   spelling, which are ONE key of the rule map — the later text wins); 2 one spelling `.undef`;
///   3 like 1 plus a delta record overriding one spelling; 4 (legacy) = 0 on AMD64;
///   5 like 1 with `$` prefixes sprinkled over labels and duplicate `$x:` / `x:` occurrences.
/// On the unchanged tree the spelling that sorts LAST carries the value the chain needs.
fn cfi_text(cpu: &str, flavour: u32) -> String {
    let w = cpu_spec(cpu).map(|s| s.word as i64).unwrap_or(8);
    let (w4, w3, w2) = (4 * w, 3 * w, 2 * w);
    let fl = if flavour == 4 { 0 } else { flavour };
    let both = fl == 1 || fl == 3 || fl == 5;
    let mut s = String::new();
    match cpu {
        "amd64" => {
            let rbp = match fl {
                0 => "$rbp: .cfa -16 + ^".to_string(),
                2 => "$rbp: .cfa -24 + ^ rbp: .undef".to_string(),
                _ => "rbp: .cfa -24 + ^ $rbp: .cfa -16 + ^".to_string(),
            };
            s.push_str(&format!("STACK CFI INIT 1000 7000 .cfa: $rsp 32 + $r12: $rbx 1 + {rbp} .ra: .cfa -8 + ^ $rbx: .cfa -32 + ^ $r14: .cfa $r13: .undef $r15: 7 $nosuchreg + $rax: .cfa 8 + ^ ^ 3 $nosuchreg -\n"));
            if fl == 3 || fl == 5 {
                s.push_str("STACK CFI 1400 rbp: .cfa -32 + ^ $rbp: .cfa -16 + ^ r15: 77\n");
            }
            s.push_str("STACK CFI 2000 $r15: .cfa 8 - $r14: 5\n");
        }
        "x86" => {
            let ebp = match fl {
                0 => "$ebp: .cfa -8 + ^".to_string(),
                2 => "$ebp: .cfa -12 + ^ ebp: .undef".to_string(),
                _ => "ebp: .cfa -12 + ^ $ebp: .cfa -8 + ^".to_string(),
            };
            s.push_str(&format!("STACK CFI INIT 1000 7000 .cfa: $esp 16 + $esi: $ebx 1 + {ebp} .ra: .cfa -4 + ^ $ebx: .cfa -16 + ^ $edi: .undef $eax: 7 $nosuchreg + $ecx: .cfa 4 + ^ ^ 3 $nosuchreg -\n"));
            if fl == 3 || fl == 5 {
                s.push_str("STACK CFI 1400 ebp: .cfa -16 + ^ $ebp: .cfa -8 + ^ $eax: 77\n");
            }
            s.push_str("STACK CFI 2000 $ecx: .cfa 8 - edi: 5\n");
        }
        "mips" | "mips64" => {
            let d = if fl == 5 { "$" } else { "" };
            let fp = match fl {
                0 => format!("fp: .cfa -{w2} + ^"),
                2 => format!("fp: .cfa -{w3} + ^ $fp: .undef"),
                _ => format!("$fp: .cfa -{w3} + ^ fp: .cfa -{w2} + ^"),
            };
            s.push_str(&format!("STACK CFI INIT 1000 7000 .cfa: {d}sp {w4} + s1: {d}s0 1 + {fp} .ra: .cfa -{w} + ^ {d}s0: .cfa -{w4} + ^ s2: .cfa s3: .undef t0: 7 {d}nosuchreg + t1: .cfa 4 + ^ ^ 3 {d}nosuchreg -\n"));
            if fl == 3 || fl == 5 {
                s.push_str(&format!("STACK CFI 1400 $fp: .cfa -{w4} + ^ fp: .cfa -{w2} + ^ s4: 77\n"));
            }
            s.push_str("STACK CFI 2000 s5: .cfa 8 - $s2: 5\n");
        }
        "arm" => {
            // "fp" < "r11", "lr" < "r14", "pc" < "r15", "r13" < "sp": the second of each wins
            let d = if fl == 5 { "$" } else { "" };
            let fp = match fl {
                0 => format!("r11: .cfa -{w2} + ^"),
                2 => format!("r11: .undef fp: .cfa -{w3} + ^"),
                _ => format!("r11: .cfa -{w2} + ^ {d}fp: .cfa -{w3} + ^"),
            };
            let more = if both {
                format!(" sp: .cfa r13: .cfa 64 + {d}lr: 4660 r14: 22136 r15: .cfa -{w} + ^ pc: 74565")
            } else {
                String::new()
            };
            s.push_str(&format!("STACK CFI INIT 1000 7000 .cfa: sp {w4} + r5: {d}r4 1 + {fp} .ra: .cfa -{w} + ^ r4: .cfa -{w4} + ^ r6: .cfa r7: .undef r3: 7 nosuchreg + r2: .cfa 4 + ^ ^ 3 nosuchreg -{more}\n"));
            if fl == 3 || fl == 5 {
                s.push_str(&format!("STACK CFI 1400 fp: .cfa -{w4} + ^ r8: 77 $r14: 4369 lr: 8738\n"));
            }
            if fl == 5 {
                s.push_str(&format!("STACK CFI 1800 $r11: .cfa -{w2} + ^ r11: .cfa -{w2} + ^ $fp: 7 fp: .cfa -{w3} + ^\n"));
            }
            s.push_str("STACK CFI 2000 r9: .cfa 8 - r6: 5\n");
        }
        // arm64, arm64old — and the CPUs without an unwinder (the records are never evaluated)
        _ => {
            // "fp" < "x29", "lr" < "x30": the second of each wins
            let d = if fl == 5 { "$" } else { "" };
            let x29 = match fl {
                2 => "x29: .undef".to_string(),
                _ => "x29: .cfa -16 + ^".to_string(),
            };
            let fp = if fl >= 1 { format!(" {d}fp: .cfa -24 + ^") } else { String::new() };
            let more = if fl == 5 { " lr: 4660 x30: 22136 $x19: 1 x19: .cfa -32 + ^" } else { "" };
            // the labels are deliberately not in name order, and x19..x22 make the rule map big enough
            // for its hash order to vary
            s.push_str(&format!(
                "STACK CFI INIT 1000 7000 .cfa: sp 32 + x21: x19 1 + {x29} .ra: .cfa -8 + ^ x19: .cfa -32 + ^{fp} x20: .cfa x22: .undef x3: 7 nosuchreg + x2: .cfa 8 + ^ ^ 3 nosuchreg -{more}\n"
            ));
            if fl == 3 || fl == 5 {
                s.push_str("STACK CFI 1400 fp: .cfa -32 + ^ x23: 77\n");
            }
            s.push_str("STACK CFI 2000 x24: .cfa 8 - x20: 5\n");
        }
    }
    s
}

fn symbol_text(c: &RunCase, i: usize) -> String {
    let leaf = leaf_of(&c.mods[i].0);
    // modules of one CodeView group are copies of one binary: same symbol file (up to the MODULE line's name)
    let i = match c.cv[i] {
        Some(g) => 100 + g as usize,
        None => i,
    };
    let arch = cpu_spec(&c.cpu).map(|s| s.sym_arch).unwrap_or("arm64");
    let mut s = format!("MODULE Linux {arch} {:032X}0 {leaf}\n", 0xabcd_0000u64 + i as u64);
    s.push_str(&format!("FILE 0 src/m{i}.c\nFILE 1 src/inl{i}.h\n"));
    s.push_str(&format!("INLINE_ORIGIN 0 inlined_{i}\n"));
    for k in 0..14u64 {
        let a = 0x1000 + k * 0x200;
        s.push_str(&format!("FUNC {a:x} 200 0 fn{i}_{k}(int, char)\n"));
        if k % 3 == 0 {
            s.push_str(&format!("INLINE 0 {} 1 0 {:x} 20\n", 40 + k, a + 0x30));
        }
        s.push_str(&format!("{a:x} 100 {} 0\n{:x} 100 {} 0\n", 10 + k, a + 0x100, 20 + k));
    }
    s.push_str(&format!("PUBLIC 8000 0 pub{i}\n"));
    s.push_str(&cfi_text(&c.cpu, c.alias));
    s
}

fn leaf_of(path: &str) -> &str {
    path.rsplit(['/', '\\']).next().unwrap_or(path)
}

/// thread context of the dump's CPU: instruction pointer, stack pointer, frame pointer and
/// per-thread values in the callee-saved registers the CFI records mention
fn ctx_section(cpu: &str, pc: u64, sp: u64, fp: u64, t: usize) -> Section {
    use scroll::ctx::SizeWith;
    use scroll::{Pread, Pwrite};
    macro_rules! ctx {
        ($ty:ty, |$c:ident| $body:block) => {{
            let n = <$ty>::size_with(&scroll::LE);
            let mut bytes = vec![0u8; n];
            let mut $c: $ty = bytes.pread_with(0, scroll::LE).expect("context pread");
            $body
            bytes.pwrite_with($c, 0, scroll::LE).expect("context pwrite");
            Section::with_endian(LE).append_bytes(&bytes)
        }};
    }
    let t = t as u64;
    match cpu {
        "x86" => ctx!(md::CONTEXT_X86, |c| {
            c.context_flags = 0x1003f;
            c.eip = pc as u32;
            c.esp = sp as u32;
            c.ebp = fp as u32;
            c.ebx = (0x10 + t) as u32;
            c.esi = (0x1200 + t) as u32;
            c.edi = (0x1210 + t) as u32;
            c.eax = 1;
            c.ecx = 2;
            c.edx = 3;
        }),
        "amd64" => ctx!(md::CONTEXT_AMD64, |c| {
            c.context_flags = 0x10001f;
            c.rax = 1;
            c.rcx = 2;
            c.rdx = 3;
            c.rbx = 0x10 + t;
            c.rsp = sp;
            c.rbp = fp;
            c.rsi = 0x1200 + t;
            c.rdi = 0x1210 + t;
            c.r8 = 0x1220 + t;
            c.r9 = 0x1230 + t;
            c.r10 = 0x1240 + t;
            c.r11 = 0x1250 + t;
            c.r12 = 0x1260 + t;
            c.r13 = 0x1270 + t;
            c.r14 = 0x1280 + t;
            c.r15 = 0x1290 + t;
            c.rip = pc;
        }),
        "arm" => ctx!(md::CONTEXT_ARM, |c| {
            c.context_flags = 0x40000007;
            for r in 0..16u32 {
                c.iregs[r as usize] = if (4..=10).contains(&r) { 0x1900 + r * 0x10 + t as u32 } else { r + 1 };
            }
            c.iregs[11] = fp as u32;
            c.iregs[13] = sp as u32;
            c.iregs[14] = 0;
            c.iregs[15] = pc as u32;
        }),
        "arm64old" => ctx!(md::CONTEXT_ARM64_OLD, |c| {
            c.context_flags = 0x80000006;
            for r in 0..31u64 {
                c.iregs[r as usize] = match r {
                    29 => fp,
                    30 => 0,
                    19..=28 => 0x1900 + r * 0x10 + t,
                    _ => r + 1,
                };
            }
            c.sp = sp;
            c.pc = pc;
        }),
        "mips" | "mips64" => ctx!(md::CONTEXT_MIPS, |c| {
            c.context_flags = if cpu == "mips" { 0x40007 } else { 0x80007 };
            for r in 0..32u64 {
                c.iregs[r as usize] = if (16..=23).contains(&r) { 0x1900 + r * 0x10 + t } else { r + 1 };
            }
            c.iregs[29] = sp;
            c.iregs[30] = fp;
            c.iregs[31] = 0;
            c.epc = pc;
        }),
        "ppc" => ctx!(md::CONTEXT_PPC, |c| {
            c.context_flags = 0x20000003;
            c.srr0 = pc as u32;
            for r in 0..32u32 {
                c.gpr[r as usize] = 0x100 + r + t as u32;
            }
            c.gpr[1] = sp as u32;
            c.lr = 0x1234;
        }),
        "ppc64" => ctx!(md::CONTEXT_PPC64, |c| {
            c.context_flags = 0x01000003;
            c.srr0 = pc;
            for r in 0..32u64 {
                c.gpr[r as usize] = 0x100 + r + t;
            }
            c.gpr[1] = sp;
            c.lr = 0x1234;
        }),
        "sparc" => ctx!(md::CONTEXT_SPARC, |c| {
            c.context_flags = 0x10000003;
            c.pc = pc;
            c.npc = pc + 4;
            for r in 0..32u64 {
                c.g_r[r as usize] = 0x100 + r + t;
            }
            c.g_r[14] = sp;
        }),
        _ => arm64_ctx(pc, sp, fp, t as usize),
    }
}

fn arm64_ctx(pc: u64, sp: u64, fp: u64, t: usize) -> Section {
    let mut s = Section::with_endian(LE).D32(0x40001f).D32(0);
    for r in 0..31u64 {
        let v = match r {
            29 => fp,
            30 => 0,
            19..=28 => 0x1900 + r * 0x10 + t as u64,
            _ => r + 1,
        };
        s = s.D64(v);
    }
    s = s.D64(sp).D64(pc);
    s = s.append_repeated(0, 16 * 32).D32(0).D32(0);
    s = s.append_repeated(0, 4 * 8).append_repeated(0, 8 * 8).append_repeated(0, 4 * 2).append_repeated(0, 8 * 2);
    s
}

fn build_dump(c: &RunCase) -> Vec<u8> {
    let amd64 = c.cpu == "amd64";
    let spec = cpu_spec(&c.cpu).expect("cpu");
    let w = spec.word;
    let mut dump = synth::SynthMinidump::with_endian(LE)
        .add_system_info(synth::SystemInfo::new(LE).set_processor_architecture(spec.arch).set_platform_id(0x8201));
    for (i, (path, _)) in c.mods.iter().enumerate() {
        let name = synth::DumpString::new(path, LE);
        match c.cv[i] {
            None => {
                dump = dump
                    .add_module(synth::Module::new(LE, mod_base(i), MOD_SIZE, &name, 0x5000_0000 + i as u32, 0, None))
                    .add(name);
            }
            Some(g) => {
                // PDB70 record: same GUID, age and pdb name for the whole group
                let cv = Section::with_endian(LE)
                    .D32(0x5344_5352)
                    .D32(0xabcd_0000 + g)
                    .D16(0xf00d)
                    .D16(0xbeef)
                    .append_bytes(b"\x01\x02\x03\x04\x05\x06\x07\x08")
                    .D32(1)
                    .append_bytes(format!("grp{g}.pdb\0").as_bytes());
                dump = dump
                    .add_module(synth::Module::new(LE, mod_base(i), MOD_SIZE, &name, 0x6000_0000 + g, 0, None).cv_record(&cv))
                    .add(name)
                    .add(cv);
            }
        }
    }
    // unloaded modules: overlapping ranges, repeated names — every thread's outermost return address
    // lands in several of them (JSON `frames[*].unloaded_modules`: names and offsets)
    for (k, (name, off)) in [("old1.so", 0u64), ("zold.so", 0x1000), ("old1.so", 0x2000), ("aold.so", 0x3000), ("mold.so", 0x4000), ("old2.so", 0x4800), ("bold.so", 0x0800)]
        .iter()
        .enumerate()
    {
        let n = synth::DumpString::new(name, LE);
        dump = dump
            .add_unloaded_module(synth::UnloadedModule::new(LE, UNLOADED_BASE + off, 0x8000, &n, 0x4000_0000 + k as u32, 0))
            .add(n);
    }
    let slot = |s: Section, v: u64| if w == 4 { s.D32(v as u32) } else { s.D64(v) };
    // MIPS: the caller's instruction is the return address minus 8 (arm/x86: minus 1..4)
    let ret_adj = if c.cpu.starts_with("mips") { 12 } else { 4 };
    for (t, chain) in c.thr.iter().enumerate() {
        let base = stack_base(t);
        let depth = chain.len();
        let mut stack = Section::with_endian(LE);
        for j in 0..depth {
            let cfa = base + 4 * w * (j as u64 + 1);
            let ret = if j + 1 < depth { mod_base(chain[j + 1]) + frame_off(j + 1) + ret_adj } else { UNLOADED_BASE + 0x5000 + 0x10 * (t as u64 % 64) };
            stack = slot(stack, 0x5a00 + (t as u64) * 0x100 + j as u64); // saved register (cfa-4w)
            stack = slot(stack, 0xA000_0000 + (t as u64) * 0x100 + j as u64); // alternative fp slot (cfa-3w)
            stack = slot(stack, cfa + 2 * w); // canonical fp slot (cfa-2w): the caller's frame record
            stack = slot(stack, ret); // return address (cfa-w)
        }
        stack = stack.append_repeated(0, 64);
        let mem = synth::Memory::with_section(stack, base);
        let ctx = ctx_section(&c.cpu, mod_base(chain[0]) + frame_off(0), base, base + 2 * w, t);
        let thread = synth::Thread::new(LE, tid(t), &mem, &ctx);
        dump = dump.add_thread(thread).add(ctx).add_memory(mem);
        if t % 2 == 0 {
            let n = synth::DumpString::new(&format!("worker-{t}"), LE);
            dump = dump.add_thread_name(synth::ThreadName::new(LE, tid(t), Some(&n))).add(n);
        }
    }
    if c.lim_n > 0 {
        dump = dump.set_linux_proc_limits(limits_text(c.lim_n, c.lim_seed).as_bytes());
    }
    dump = dump
        .set_linux_proc_status(b"Name:\tverif\nPid:\t4242\n")
        .set_linux_lsb_release(b"DISTRIB_ID=Verif\nDISTRIB_RELEASE=1.0\nDISTRIB_CODENAME=det\nDISTRIB_DESCRIPTION=\"Verif 1.0\"\n")
        .set_linux_cpu_info(b"processor\t: 0\nmicrocode\t: 0x1e\n");
    // Crashpad annotations (global, per module: list / simple / typed objects; the keys deliberately
    // not in name order) — shown by the raw stream dump
    {
        let mut cp = synth::CrashpadInfo::new(LE)
            .add_simple_annotation("zeta", "last")
            .add_simple_annotation("channel", "verif")
            .add_simple_annotation("alpha", "first")
            .add_simple_annotation("ptype", "det");
        for i in 0..c.mods.len().min(3) {
            cp = cp.add_module(
                synth::ModuleCrashpadInfo::new(i as u32, LE)
                    .add_list_annotation("list-b")
                    .add_list_annotation("list-a")
                    .add_simple_annotation("mod-z", "1")
                    .add_simple_annotation("mod-a", "2")
                    .add_annotation_object("obj-y", synth::AnnotationValue::String("why".into()))
                    .add_annotation_object("obj-b", synth::AnnotationValue::Custom(0x8001, vec![1, 2, 3, i as u8]))
                    .add_annotation_object("obj-k", synth::AnnotationValue::Invalid),
            );
        }
        dump = dump.add_crashpad_info(cp);
    }
    if c.lim_seed % 3 == 0 {
        // a MemoryInfoList as well (regions of the modules and stacks)
        for (i, _) in c.mods.iter().enumerate() {
            dump = dump.add_memory_info(synth::MemoryInfo::new(LE, mod_base(i), mod_base(i), 0x20, MOD_SIZE as u64, 0x1000, 0x20, 0x100_0000));
        }
        for t in 0..c.thr.len() {
            dump = dump.add_memory_info(synth::MemoryInfo::new(LE, stack_base(t), stack_base(t), 0x04, 0x1000, 0x1000, 0x04, 0x2_0000));
        }
    }
    {
        if amd64 || c.cpu == "x86" {
            // code at the first thread's instruction pointer: `mov rax, [rbx]` / `dec eax; mov eax, [ebx]`
            // then nops (crash analysis disassembles it)
            let code = Section::with_endian(LE).append_bytes(&[0x48, 0x8b, 0x03]).append_repeated(0x90, 29);
            dump = dump.add_memory(synth::Memory::with_section(code, mod_base(c.thr[0][0]) + frame_off(0)));
        }
        // the process memory map
        let mut maps = String::new();
        for (i, (path, _)) in c.mods.iter().enumerate() {
            maps.push_str(&format!("{:x}-{:x} r-xp 00000000 08:01 {} {}\n", mod_base(i), mod_base(i) + MOD_SIZE as u64, 100 + i, path));
        }
        for t in 0..c.thr.len() {
            maps.push_str(&format!("{:x}-{:x} rw-p 00000000 00:00 0 [stack:{}]\n", stack_base(t), stack_base(t) + 0x1000, tid(t)));
        }
        dump = dump.set_linux_maps(maps.as_bytes());
    }
    if c.exc {
        let mut e = synth::Exception::new(LE);
        e.thread_id = tid(0);
        e.exception_record.exception_code = 11; // SIGSEGV
        e.exception_record.exception_address = 0x10;
        dump = dump.add_exception(e);
    }
    dump.finish().expect("synth dump")
}

/// the "evil JSON" (`ProcessorOptions::evil_json`): certificate -> signed modules
fn evil_text(c: &RunCase) -> String {
    let obj: serde_json::Map<String, serde_json::Value> =
        evil_certs(c).into_iter().map(|(k, v)| (k, serde_json::Value::from(v))).collect();
    // the real file carries the object as a STRING holding JSON
    serde_json::json!({ "ModuleSignatureInfo": serde_json::Value::Object(obj).to_string(), "CPUMicrocodeVersion": "0x2f" }).to_string()
}

// -------------------------------------------------------------------------------- the supplier

/// how a supplier call suspends
#[derive(Clone)]
enum GateMode {
    /// returns `Pending` k times, waking itself every time (like `yield_now`)
    Auto,
    /// returns `Pending` until the executor has released it k times
    Ctl(Arc<Ctl>),
    /// awaits a task spawned on the tokio runtime that yields k times
    Spawn,
}

#[derive(Default)]
struct Ctl {
    /// tickets waiting for a release, with the waker to fire
    waiting: Mutex<Vec<(usize, Waker)>>,
    released: Mutex<Vec<usize>>,
    next: Mutex<usize>,
}

struct Gate {
    remaining: u32,
    ctl: Option<Arc<Ctl>>,
    ticket: usize,
}
impl Future for Gate {
    type Output = ();
    fn poll(mut self: Pin<&mut Self>, cx: &mut Context<'_>) -> Poll<()> {
        if self.remaining == 0 {
            return Poll::Ready(());
        }
        match self.ctl.clone() {
            None => {
                self.remaining -= 1;
                cx.waker().wake_by_ref();
                Poll::Pending
            }
            Some(ctl) => {
                let mut rel = ctl.released.lock().unwrap();
                if let Some(p) = rel.iter().position(|t| *t == self.ticket) {
                    rel.swap_remove(p);
                    self.remaining -= 1;
                    if self.remaining == 0 {
                        return Poll::Ready(());
                    }
                }
                drop(rel);
                let mut w = ctl.waiting.lock().unwrap();
                w.retain(|(t, _)| *t != self.ticket);
                w.push((self.ticket, cx.waker().clone()));
                Poll::Pending
            }
        }
    }
}

/// suspend the calling supplier `k` times in the way `mode` says
async fn suspend(mode: &GateMode, k: u32) {
    match mode {
        GateMode::Auto => Gate { remaining: k, ctl: None, ticket: 0 }.await,
        GateMode::Ctl(ctl) => {
            let ticket = {
                let mut n = ctl.next.lock().unwrap();
                *n += 1;
                *n
            };
            Gate { remaining: k, ctl: Some(ctl.clone()), ticket }.await
        }
        GateMode::Spawn => {
            let h = tokio::spawn(async move {
                for _ in 0..k {
                    tokio::task::yield_now().await;
                }
                if k % 3 == 2 {
                    tokio::time::sleep(std::time::Duration::from_micros(50 * k as u64)).await;
                }
            });
            let _ = h.await;
        }
    }
}

/// the repository's `SimpleSymbolSupplier` behind a gate: lookups complete in an order decided by
/// the schedule seed
struct DelaySup {
    inner: breakpad_symbols::SimpleSymbolSupplier,
    k: u32,
    seed: u64,
    mode: GateMode,
    done: Arc<Mutex<Vec<String>>>,
}

#[async_trait]
impl SymbolSupplier for DelaySup {
    async fn locate_symbols(&self, module: &(dyn Module + Sync)) -> Result<LocateSymbolsResult, SymbolError> {
        let name = module.code_file().to_string();
        let d = (fnv64(name.as_bytes()) ^ self.seed.wrapping_mul(0x9E37_79B9_7F4A_7C15)) >> 17;
        suspend(&self.mode, (d % (self.k as u64 + 1)) as u32).await;
        let r = self.inner.locate_symbols(module).await;
        self.done.lock().unwrap().push(leaf_of(&name).to_string());
        r
    }
    async fn locate_file(&self, module: &(dyn Module + Sync), file_kind: FileKind) -> Result<PathBuf, FileError> {
        self.inner.locate_file(module, file_kind).await
    }
}

struct Sup {
    /// code_file -> module index
    index: BTreeMap<String, usize>,
    res: Vec<Res>,
    text: Arc<Vec<String>>,
    delays: Vec<u32>,
    mode: GateMode,
    /// module indices in the order the supplier calls were started / completed
    started: Arc<Mutex<Vec<usize>>>,
    done: Arc<Mutex<Vec<usize>>>,
}

#[async_trait]
impl SymbolSupplier for Sup {
    async fn locate_symbols(&self, module: &(dyn Module + Sync)) -> Result<LocateSymbolsResult, SymbolError> {
        let i = *self.index.get(module.code_file().as_ref()).expect("det: unknown module");
        self.started.lock().unwrap().push(i);
        let k = self.delays[i];
        suspend(&self.mode, k).await;
        self.done.lock().unwrap().push(i);
        match self.res[i] {
            Res::Ok => {
                let mut symbols = SymbolFile::from_bytes(self.text[i].as_bytes())?;
                // (a real HTTP supplier's URL contains the debug id, so it differs between two same-leaf
                // modules even when both are found; here it is a function of the leaf name only, so that
                // "same leaf, same outcome" pairs have equal statistics)
                let leaf = leaf_of(module.code_file().as_ref()).to_string();
                symbols.url = Some(format!("https://symbols.example/{leaf}/{leaf}.sym"));
                Ok(LocateSymbolsResult { symbols, extra_debug_info: None })
            }
            Res::Nf => Err(SymbolError::NotFound),
            Res::Pe => match SymbolFile::from_bytes(b"MODULE Linux arm64 0 m\nthis is not a record\n") {
                Err(e) => Err(e),
                Ok(_) => panic!("det: garbage parsed"),
            },
        }
    }
    async fn locate_file(&self, _module: &(dyn Module + Sync), _file_kind: FileKind) -> Result<PathBuf, FileError> {
        Err(FileError::NotFound)
    }
}

// ------------------------------------------------------------------------------- the executors

struct Flag(AtomicBool);
impl Wake for Flag {
    fn wake(self: Arc<Self>) {
        self.0.store(true, Ordering::SeqCst);
    }
    fn wake_by_ref(self: &Arc<Self>) {
        self.0.store(true, Ordering::SeqCst);
    }
}

const POLL_LIMIT: usize = 2_000_000;

/// B: poll the one future until it is ready
fn block_on_simple<F: Future>(fut: F) -> Result<F::Output, String> {
    let mut fut = std::pin::pin!(fut);
    let flag = Arc::new(Flag(AtomicBool::new(true)));
    let waker = Waker::from(flag.clone());
    let mut cx = Context::from_waker(&waker);
    for _ in 0..POLL_LIMIT {
        if let Poll::Ready(v) = fut.as_mut().poll(&mut cx) {
            return Ok(v);
        }
        if !flag.0.swap(false, Ordering::SeqCst) {
            return Err("pending without a wake-up (executor B)".into());
        }
    }
    Err("poll limit reached (executor B)".into())
}

/// R: poll; between polls release waiting supplier calls in random order (sometimes two, sometimes
/// none: a spurious poll)
fn block_on_random<F: Future>(fut: F, ctl: &Arc<Ctl>, rng: &mut Rng) -> Result<F::Output, String> {
    let mut fut = std::pin::pin!(fut);
    let flag = Arc::new(Flag(AtomicBool::new(true)));
    let waker = Waker::from(flag.clone());
    let mut cx = Context::from_waker(&waker);
    let mut idle = 0;
    for _ in 0..POLL_LIMIT {
        if let Poll::Ready(v) = fut.as_mut().poll(&mut cx) {
            return Ok(v);
        }
        let mut w = ctl.waiting.lock().unwrap();
        if w.is_empty() {
            drop(w);
            idle += 1;
            if idle > 1000 && !flag.0.load(Ordering::SeqCst) {
                return Err("pending, nothing to release and no wake-up (executor R)".into());
            }
            continue;
        }
        idle = 0;
        let n = match rng.below(8) {
            0 => 0,
            1 | 2 => 2,
            _ => 1,
        };
        for _ in 0..n {
            if w.is_empty() {
                break;
            }
            let pick = rng.below(w.len() as u64) as usize;
            let (t, wk) = w.swap_remove(pick);
            ctl.released.lock().unwrap().push(t);
            wk.wake();
        }
    }
    Err("poll limit reached (executor R)".into())
}

fn tokio_rt() -> &'static tokio::runtime::Runtime {
    static RT: OnceLock<tokio::runtime::Runtime> = OnceLock::new();
    RT.get_or_init(|| {
        tokio::runtime::Builder::new_multi_thread().worker_threads(4).enable_all().build().expect("tokio runtime")
    })
}

// ------------------------------------------------------------------------------------ one run

#[derive(Default)]
struct RunOut {
    /// print_json(false), print_json(true), print, print_brief, summary of the pending-stats
    /// reporter (empty when the run had none), raw `--dump` style output of the streams
    bytes: [Vec<u8>; 6],
    done: Vec<usize>,
    started: Vec<usize>,
    err: Option<String>,
    state: Option<ProcessState>,
}

fn run_once(bytes: &[u8], c: &RunCase, text: &Arc<Vec<String>>, evil: Option<&std::path::Path>, delays: &[u32], exec: char, seed: u64, keep_state: bool) -> RunOut {
    run_once_r(bytes, c, text, evil, delays, exec, seed, keep_state, true)
}

/// `reporter`: process with a `PendingProcessorStats` subscribed to everything (as the interactive
/// minidump-stackwalk does)
#[allow(clippy::too_many_arguments)]
fn run_once_r(bytes: &[u8], c: &RunCase, text: &Arc<Vec<String>>, evil: Option<&std::path::Path>, delays: &[u32], exec: char, seed: u64, keep_state: bool, reporter: bool) -> RunOut {
    let mut out = RunOut::default();
    let dump = match Minidump::read(bytes) {
        Ok(d) => d,
        Err(e) => {
            out.err = Some(format!("read: {e}"));
            return out;
        }
    };
    let ctl = Arc::new(Ctl::default());
    let started = Arc::new(Mutex::new(vec![]));
    let done = Arc::new(Mutex::new(vec![]));
    let sup = Sup {
        index: c.mods.iter().enumerate().map(|(i, (p, _))| (p.clone(), i)).collect(),
        res: c.mods.iter().map(|(_, r)| *r).collect(),
        text: text.clone(),
        delays: delays.to_vec(),
        mode: match exec {
            'R' => GateMode::Ctl(ctl.clone()),
            'T' => GateMode::Spawn,
            _ => GateMode::Auto,
        },
        started: started.clone(),
        done: done.clone(),
    };
    let provider = minidump_unwind::Symbolizer::new(sup);
    let mut options = match c.feat {
        0 => ProcessorOptions::default(),
        1 => ProcessorOptions::stable_all(),
        _ => ProcessorOptions::unstable_all(),
    };
    options.evil_json = evil;
    let mut subs = minidump_processor::PendingProcessorStatSubscriptions::default();
    subs.thread_count = true;
    subs.frame_count = true;
    subs.unwalked_result = true;
    subs.live_frames = true;
    let stats = minidump_processor::PendingProcessorStats::new(subs);
    if reporter {
        options.stat_reporter = Some(&stats);
    }
    let fut = minidump_processor::process_minidump_with_options(&dump, &provider, options);
    let state = match exec {
        'R' => {
            let mut rng = Rng::new(seed);
            block_on_random(fut, &ctl, &mut rng)
        }
        'T' => tokio_rt()
            .block_on(async { tokio::time::timeout(std::time::Duration::from_secs(20), fut).await })
            .map_err(|_| "no completion within 20 s (executor T)".to_string()),
        _ => block_on_simple(fut),
    };
    if reporter {
        out.bytes[4] = pending_summary(&stats);
    }
    out.bytes[5] = raw_dump_text(&dump);
    out.started = started.lock().unwrap().clone();
    out.done = done.lock().unwrap().clone();
    let state = match state {
        Ok(Ok(s)) => s,
        Ok(Err(e)) => {
            out.err = Some(format!("process: {e}"));
            return out;
        }
        Err(e) => {
            out.err = Some(format!("hang: {e}"));
            return out;
        }
    };
    if let Err(e) = state.print_json(&mut out.bytes[0], false) {
        out.err = Some(format!("print_json: {e}"));
    }
    if let Err(e) = state.print_json(&mut out.bytes[1], true) {
        out.err = Some(format!("print_json(pretty): {e}"));
    }
    if let Err(e) = state.print(&mut out.bytes[2]) {
        out.err = Some(format!("print: {e}"));
    }
    if let Err(e) = state.print_brief(&mut out.bytes[3]) {
        out.err = Some(format!("print_brief: {e}"));
    }
    if keep_state {
        out.state = Some(state);
    }
    out
}

fn repo_dir() -> PathBuf {
    PathBuf::from(std::env::var("VERIF_REPO").unwrap_or_else(|_| "/repo".into()))
}

/// one run of a testdata dump with the repository's symbols
fn run_file_once(bytes: &[u8], c: &FileCase, sched_seed: u64, exec: char, seed: u64) -> (RunOut, Vec<String>) {
    let mut out = RunOut::default();
    let dump = match Minidump::read(bytes) {
        Ok(d) => d,
        Err(e) => {
            out.err = Some(format!("read: {e}"));
            return (out, vec![]);
        }
    };
    let ctl = Arc::new(Ctl::default());
    let done = Arc::new(Mutex::new(vec![]));
    let sup = DelaySup {
        inner: breakpad_symbols::SimpleSymbolSupplier::new(vec![repo_dir().join("testdata/symbols")]),
        k: c.k,
        seed: sched_seed,
        mode: match exec {
            'R' => GateMode::Ctl(ctl.clone()),
            'T' => GateMode::Spawn,
            _ => GateMode::Auto,
        },
        done: done.clone(),
    };
    let provider = minidump_unwind::Symbolizer::new(sup);
    let mut options = match c.feat {
        0 => ProcessorOptions::default(),
        1 => ProcessorOptions::stable_all(),
        _ => ProcessorOptions::unstable_all(),
    };
    options.evil_json = None;
    let fut = minidump_processor::process_minidump_with_options(&dump, &provider, options);
    let state = match exec {
        'R' => {
            let mut rng = Rng::new(seed);
            block_on_random(fut, &ctl, &mut rng)
        }
        'T' => tokio_rt()
            .block_on(async { tokio::time::timeout(std::time::Duration::from_secs(20), fut).await })
            .map_err(|_| "no completion within 20 s (executor T)".to_string()),
        _ => block_on_simple(fut),
    };
    let done = done.lock().unwrap().clone();
    let state = match state {
        Ok(Ok(s)) => s,
        Ok(Err(e)) => {
            out.err = Some(format!("process: {e}"));
            return (out, done);
        }
        Err(e) => {
            out.err = Some(format!("hang: {e}"));
            return (out, done);
        }
    };
    let _ = state.print_json(&mut out.bytes[0], false).map_err(|e| out.err = Some(format!("print_json: {e}")));
    let _ = state.print_json(&mut out.bytes[1], true).map_err(|e| out.err = Some(format!("print_json(pretty): {e}")));
    let _ = state.print(&mut out.bytes[2]).map_err(|e| out.err = Some(format!("print: {e}")));
    let _ = state.print_brief(&mut out.bytes[3]).map_err(|e| out.err = Some(format!("print_brief: {e}")));
    out.bytes[5] = raw_dump_text(&dump);
    (out, done)
}

fn exec_file(c: &FileCase) -> ImplResult {
    let mut res = ImplResult::default();
    let bytes = match std::fs::read(repo_dir().join("testdata").join(&c.name)) {
        Ok(b) => b,
        Err(e) => {
            res.out = format!("ERR cannot read {}: {e}", c.name);
            res.oracle.push(("testdata-missing".into(), res.out.clone()));
            return res;
        }
    };
    let (base, base_done) = run_file_once(&bytes, c, c.rs, 'B', c.rs);
    let mut n_runs = 1;
    let mut orders: BTreeSet<Vec<String>> = BTreeSet::new();
    orders.insert(base_done.clone());
    let diff = |o: &RunOut, kind: &str, what: &str, oracle: &mut Vec<(String, String)>| {
        if o.err != base.err {
            oracle.push((format!("outcome-differs-across-{kind}"), format!("{what}: {:?} (base: {:?})", o.err, base.err)));
            return;
        }
        if let Some(i) = (0..2).find(|i| base.bytes[*i] != o.bytes[*i]) {
            oracle.push((format!("json-differs-across-{kind}"), format!("{what}: {} differs; {}", WHICH[i], first_diff(&base.bytes[i], &o.bytes[i]))));
        }
        if let Some(i) = (2..4).find(|i| base.bytes[*i] != o.bytes[*i]) {
            oracle.push((format!("text-differs-across-{kind}"), format!("{what}: {} differs; {}", WHICH[i], first_diff(&base.bytes[i], &o.bytes[i]))));
        }
        if base.bytes[5] != o.bytes[5] {
            oracle.push((format!("raw-dump-differs-across-{kind}"), format!("{what}: {}", first_diff(&base.bytes[5], &o.bytes[5]))));
        }
    };
    for r in 1..c.runs {
        let (o, _) = if r % 2 == 1 {
            std::thread::scope(|s| s.spawn(|| run_file_once(&bytes, c, c.rs, 'B', c.rs)).join())
                .unwrap_or_else(|_| (RunOut { err: Some("panic".into()), ..Default::default() }, vec![]))
        } else {
            run_file_once(&bytes, c, c.rs, 'B', c.rs)
        };
        n_runs += 1;
        diff(&o, "runs", &format!("run #{r} (executor B, base schedule)"), &mut res.oracle);
    }
    for si in 0..3u64 {
        for x in c.execs.chars() {
            if si == 0 && x == 'B' {
                continue;
            }
            let (o, d) = run_file_once(&bytes, c, c.rs.wrapping_add(si), x, c.rs.wrapping_add(si * 977));
            n_runs += 1;
            orders.insert(d);
            diff(&o, if si == 0 { "executors" } else { "schedules" }, &format!("executor {x}, schedule seed +{si}"), &mut res.oracle);
        }
    }
    for which in ["json", "text", "raw-dump"] {
        if res.oracle.iter().any(|(cl, _)| *cl == format!("{which}-differs-across-runs")) {
            res.oracle.retain(|(cl, _)| *cl != format!("{which}-differs-across-schedules") && *cl != format!("{which}-differs-across-executors"));
        }
    }
    let mut seen = BTreeSet::new();
    res.oracle.retain(|(cl, _)| seen.insert(cl.clone()));
    res.out = match &base.err {
        Some(e) => format!("ERR {e}"),
        None => format!("ok json={:016x}/{} text={:016x}/{}", fnv64(&base.bytes[0]), base.bytes[0].len(), fnv64(&base.bytes[2]), base.bytes[2].len()),
    };
    res.nontrivial = base.err.is_none() && n_runs >= 4;
    res.tags.push("kind:file".into());
    res.tags.push(format!("file:{}", c.name));
    res.tags.push(format!("file-distinct-completion-orders:{}", orders.len().min(6)));
    res
}

// ----------------------------------------------------------------------------------- the oracle

const WHICH: [&str; 6] = ["print_json(false)", "print_json(true)", "print", "print_brief", "pending-stats summary", "raw stream dump"];

/// what `minidump-stackwalk --dump` prints, through the same public `print` methods
fn raw_dump_text(dump: &Minidump<'_, &[u8]>) -> Vec<u8> {
    use minidump::*;
    let mut out: Vec<u8> = vec![];
    let _ = dump.print(&mut out);
    let system_info = dump.get_stream::<MinidumpSystemInfo>().ok();
    let memory_list = dump.get_stream::<MinidumpMemoryList<'_>>().ok();
    let misc_info = dump.get_stream::<MinidumpMiscInfo>().ok();
    let unified = dump.get_stream::<MinidumpMemoryList<'_>>().ok().map(UnifiedMemoryList::Memory);
    if let Ok(l) = dump.get_stream::<MinidumpThreadList<'_>>() {
        let _ = l.print(&mut out, unified.as_ref(), system_info.as_ref(), misc_info.as_ref(), false);
    }
    if let Ok(l) = dump.get_stream::<MinidumpModuleList>() {
        let _ = l.print(&mut out);
    }
    if let Ok(l) = dump.get_stream::<MinidumpUnloadedModuleList>() {
        let _ = l.print(&mut out);
    }
    if let Some(l) = memory_list {
        let _ = l.print(&mut out, true);
    }
    if let Ok(l) = dump.get_stream::<MinidumpMemoryInfoList<'_>>() {
        let _ = l.print(&mut out);
    }
    if let Ok(e) = dump.get_stream::<MinidumpException>() {
        let _ = e.print(&mut out, system_info.as_ref(), misc_info.as_ref());
    }
    if let Some(si) = system_info {
        let _ = si.print(&mut out);
    }
    if let Ok(n) = dump.get_stream::<MinidumpThreadNames>() {
        let _ = n.print(&mut out);
    }
    if let Ok(c) = dump.get_stream::<MinidumpCrashpadInfo>() {
        let _ = c.print(&mut out);
    }
    out
}

/// what the pending-stats reporter saw, in a canonical form: counters, the live frames SORTED by
/// (thread, frame) — they arrive in completion order —, and the JSON of the unwalked state
fn pending_summary(stats: &minidump_processor::PendingProcessorStats) -> Vec<u8> {
    let (done, total) = stats.get_thread_count();
    let frames = stats.get_frame_count();
    let mut live: Vec<(usize, usize, u64)> = vec![];
    stats.drain_new_frames(|f| live.push((f.thread_idx, f.frame_idx, f.frame.instruction)));
    live.sort();
    let mut out = format!("threads {done}/{total} frames {frames} live {live:?}\nunwalked: ").into_bytes();
    match stats.take_unwalked_result() {
        Some(state) => {
            let _ = state.print_json(&mut out, false);
        }
        None => out.extend_from_slice(b"none"),
    }
    out
}

fn first_diff(a: &[u8], b: &[u8]) -> String {
    let n = a.iter().zip(b.iter()).take_while(|(x, y)| x == y).count();
    let ctx = |v: &[u8]| -> String {
        let lo = n.saturating_sub(60);
        let hi = (n + 60).min(v.len());
        String::from_utf8_lossy(&v[lo..hi]).replace('\n', "\\n")
    };
    format!("lengths {}/{}; first difference at byte {n}: …{}… vs …{}…", a.len(), b.len(), ctx(a), ctx(b))
}

/// indices of the modules whose file leaf name is shared with a module of another path
fn shared_leaf_modules(c: &RunCase) -> BTreeSet<usize> {
    let mut s = BTreeSet::new();
    for i in 0..c.mods.len() {
        for j in 0..c.mods.len() {
            if i != j && c.mods[i].0 != c.mods[j].0 && leaf_of(&c.mods[i].0) == leaf_of(&c.mods[j].0) {
                s.insert(i);
            }
        }
    }
    s
}

/// certificate table of the evil JSON: certificate -> module file names
fn evil_certs(c: &RunCase) -> BTreeMap<String, Vec<String>> {
    let mut certs: BTreeMap<String, Vec<String>> = BTreeMap::new();
    if c.evil == 0 {
        return certs;
    }
    let names = ["CN=Verif Code Signing A", "CN=Verif Code Signing B", "O=Other Corp", "CN=Third"];
    let mut leaves: Vec<&str> = c.mods.iter().map(|(p, _)| leaf_of(p)).collect();
    leaves.sort();
    leaves.dedup();
    for (i, l) in leaves.iter().enumerate() {
        certs.entry(names[i % names.len()].to_string()).or_default().push(l.to_string());
    }
    // certificates of modules that are not in the dump (make the map big enough for its order to vary)
    for k in 0..6 {
        certs.entry(format!("CN=Unrelated {k}")).or_default().push(format!("unrelated{k}.dll"));
    }
    if c.evil == 2 {
        // dual-signed: the first leaf is ALSO listed under two other certificates
        certs.entry("CN=Second Signature".to_string()).or_default().push(leaves[0].to_string());
        certs.entry("CN=Unrelated 3".to_string()).or_default().push(leaves[0].to_string());
    }
    certs
}

/// file names listed under more than one certificate
fn multi_cert_leaves(c: &RunCase) -> BTreeSet<String> {
    let mut n: BTreeMap<String, usize> = BTreeMap::new();
    for ms in evil_certs(c).values() {
        for m in ms {
            *n.entry(m.clone()).or_default() += 1;
        }
    }
    n.into_iter().filter(|(_, k)| *k > 1).map(|(m, _)| m).collect()
}

/// the JSON document with (stats) the per-module symbol statistics of the same-leaf modules and/or
/// (cert) the certificate of the modules listed under several certificates removed
fn mask_json(json: &[u8], c: &RunCase, stats: bool, cert: bool) -> Option<serde_json::Value> {
    let mut v: serde_json::Value = serde_json::from_slice(json).ok()?;
    let shared = shared_leaf_modules(c);
    let multi = multi_cert_leaves(c);
    let mods = v.get_mut("modules")?.as_array_mut()?;
    for m in mods.iter_mut() {
        let base = u64::from_str_radix(m.get("base_addr")?.as_str()?.trim_start_matches("0x"), 16).ok()?;
        let idx = (0..c.mods.len()).find(|i| mod_base(*i) == base)?;
        let o = m.as_object_mut()?;
        if stats && shared.contains(&idx) {
            for k in ["missing_symbols", "loaded_symbols", "corrupt_symbols", "symbol_url", "debug_file", "debug_id"] {
                o.remove(k);
            }
        }
        if cert && multi.contains(leaf_of(&c.mods[idx].0)) {
            o.remove("cert_subject");
        }
    }
    Some(v)
}

/// the text report with the ` (<certificate>)` suffix of the multi-certificate modules' lines removed
fn mask_text(text: &[u8], c: &RunCase) -> Vec<u8> {
    let multi = multi_cert_leaves(c);
    let certs = evil_certs(c);
    let s = String::from_utf8_lossy(text);
    let mut out = String::new();
    for line in s.lines() {
        let mut l = line.to_string();
        if multi.iter().any(|m| line.contains(&format!("  {m}  "))) {
            for name in certs.keys() {
                if let Some(stripped) = l.strip_suffix(&format!(" ({name})")) {
                    l = stripped.to_string();
                    break;
                }
            }
        }
        out.push_str(&l);
        out.push('\n');
    }
    out.into_bytes()
}

fn compare(c: &RunCase, base: &RunOut, other: &RunOut, kind: &str, what: &str, oracle: &mut Vec<(String, String)>) {
    if let Some(e) = &other.err {
        if base.err.as_ref() != Some(e) {
            oracle.push((format!("outcome-differs-across-{kind}"), format!("{what}: {e} (base: {:?})", base.err)));
        }
        return;
    }
    let json_diff = (0..2).find(|i| base.bytes[*i] != other.bytes[*i]);
    let text_diff = (2..4).find(|i| base.bytes[*i] != other.bytes[*i]);
    if let Some(i) = json_diff {
        let eq_masked = |stats: bool, cert: bool| -> bool {
            (0..2).all(|j| match (mask_json(&base.bytes[j], c, stats, cert), mask_json(&other.bytes[j], c, stats, cert)) {
                (Some(a), Some(b)) => a == b,
                _ => false,
            })
        };
        let detail = format!(
            "{what}: {} differs; completion order of the supplier calls {:?} vs base {:?}; {}",
            WHICH[i],
            other.done,
            base.done,
            first_diff(&base.bytes[i], &other.bytes[i])
        );
        // exactly the certificate of a module listed under several certificates (evil.rs)?
        // exactly the symbol statistics of modules that share a leaf name (F16)? both?
        if c.evil == 2 && eq_masked(false, true) {
            oracle.push(("cert-depends-on-hash-order".into(), detail));
        } else if kind != "runs" && eq_masked(true, false) {
            oracle.push(("stats-depend-on-completion-order".into(), detail));
        } else if kind != "runs" && c.evil == 2 && eq_masked(true, true) {
            oracle.push(("cert-depends-on-hash-order".into(), detail.clone()));
            oracle.push(("stats-depend-on-completion-order".into(), detail));
        } else {
            oracle.push((format!("json-differs-across-{kind}"), detail));
        }
    }
    // the pending-stats reporter (both runs had one) and the raw stream dump
    if !base.bytes[4].is_empty() && !other.bytes[4].is_empty() && base.bytes[4] != other.bytes[4] {
        oracle.push((format!("pending-stats-differ-across-{kind}"), format!("{what}: {}", first_diff(&base.bytes[4], &other.bytes[4]))));
    }
    if base.bytes[5] != other.bytes[5] {
        oracle.push((format!("raw-dump-differs-across-{kind}"), format!("{what}: {}", first_diff(&base.bytes[5], &other.bytes[5]))));
    }
    if let Some(i) = text_diff {
        let detail = format!("{what}: {} differs; {}", WHICH[i], first_diff(&base.bytes[i], &other.bytes[i]));
        if c.evil == 2 && (2..4).all(|j| mask_text(&base.bytes[j], c) == mask_text(&other.bytes[j], c)) {
            oracle.push(("cert-depends-on-hash-order".into(), detail));
        } else {
            oracle.push((format!("text-differs-across-{kind}"), detail));
        }
    }
}

// -------------------------------------------------------------- extraction for the Lean models

fn limit_tok(l: &Limit) -> String {
    match l {
        Limit::Error => "err".into(),
        Limit::Unlimited => "unlimited".into(),
        Limit::Limited(v) => v.to_string(),
    }
}
fn json_limit_tok(v: &serde_json::Value) -> String {
    match v {
        serde_json::Value::String(s) => s.clone(),
        serde_json::Value::Number(n) => n.to_string(),
        other => format!("?{other}"),
    }
}

fn list(xs: Vec<String>) -> String {
    if xs.is_empty() {
        "-".into()
    } else {
        xs.join(",")
    }
}

/// key order of the `"registers":{..}` object of `crashing_thread.frames[0]` in the compact JSON text
fn json_register_keys(json: &[u8]) -> Option<Vec<String>> {
    let s = std::str::from_utf8(json).ok()?;
    let start = s.find("\"crashing_thread\":{")?;
    let rest = &s[start..];
    let p = rest.find("\"registers\":{")?;
    let body = &rest[p + 13..];
    let end = body.find('}')?;
    let body = &body[..end];
    let mut keys = vec![];
    for kv in body.split(',') {
        if kv.is_empty() {
            continue;
        }
        let (k, _) = kv.split_once(':')?;
        keys.push(k.trim_matches('"').to_string());
    }
    Some(keys)
}

/// register names in the order `CallStack::print` shows them for the physical frame `f` (every
/// physical frame ends with a "Found by:" line; inlined frames have no registers and end with
/// "Found by: inlining")
fn text_register_names(stack_text: &str, f: usize) -> Vec<String> {
    let mut names = vec![];
    let mut cur = 0usize;
    for line in stack_text.lines() {
        let t = line.trim_start();
        if t.starts_with("Found by:") {
            if t != "Found by: inlining" {
                cur += 1;
            }
            continue;
        }
        // (x86 frames may be followed by recovered arguments: `arg 0 (int) = 0x…`)
        if cur == f && t.contains(" = 0x") && !t.starts_with("arg ") {
            let toks: Vec<&str> = t.split_whitespace().collect();
            for w in toks.windows(3) {
                if w[1] == "=" && w[2].starts_with("0x") {
                    names.push(w[0].to_string());
                }
            }
        }
    }
    names
}

struct Extract {
    request: String,
    out: String,
}

fn extract(c: &RunCase, base: &RunOut) -> Result<Extract, String> {
    let state = base.state.as_ref().ok_or("no state")?;
    let v: serde_json::Value = serde_json::from_slice(&base.bytes[0]).map_err(|e| format!("json: {e}"))?;
    // ---- limits: the map in its REAL iteration order vs the array of the report
    let lim_in: Vec<String> = match &state.linux_proc_limits {
        Some(l) => l
            .limits
            .iter()
            .map(|(n, l)| format!("{}/{}/{}/{}", hex(n.as_bytes()), limit_tok(&l.soft), limit_tok(&l.hard), hex(l.unit.as_bytes())))
            .collect(),
        None => vec![],
    };
    let lim_out: Vec<String> = match v.get("proc_limits").and_then(|p| p.get("limits")).and_then(|l| l.as_array()) {
        Some(a) => a
            .iter()
            .map(|e| {
                format!(
                    "{}/{}/{}/{}",
                    hex(e["name"].as_str().unwrap_or("?").as_bytes()),
                    json_limit_tok(&e["soft"]),
                    json_limit_tok(&e["hard"]),
                    hex(e["unit"].as_str().unwrap_or("?").as_bytes())
                )
            })
            .collect(),
        None => vec![],
    };
    // ---- stats: modules in report order, the REAL completion order of the supplier calls
    let jm = v.get("modules").and_then(|m| m.as_array()).ok_or("no modules")?;
    let mut order: Vec<usize> = vec![]; // report position -> case index
    let mut stats_out = vec![];
    for m in jm {
        let base_addr = m["base_addr"].as_str().and_then(|s| u64::from_str_radix(s.trim_start_matches("0x"), 16).ok()).ok_or("base_addr")?;
        let idx = (0..c.mods.len()).find(|i| mod_base(*i) == base_addr).ok_or("unknown module in report")?;
        order.push(idx);
        let b = |k: &str| if m[k].as_bool().unwrap_or(false) { '1' } else { '0' };
        stats_out.push(format!("{}{}{}", b("missing_symbols"), b("loaded_symbols"), b("corrupt_symbols")));
    }
    let mods_in: Vec<String> = order.iter().map(|i| format!("{}={}", hex(leaf_of(&c.mods[*i].0).as_bytes()), c.mods[*i].1.s())).collect();
    let done_in: Vec<String> = base
        .done
        .iter()
        .map(|i| order.iter().position(|o| o == i).map(|p| p.to_string()).ok_or("completed module not in report"))
        .collect::<Result<_, _>>()?;
    // ---- threads: expected ids by index (from the dump), frame counts from the state; the
    //      completion order handed to the model is an arbitrary permutation (the theorem says it
    //      cannot matter)
    let n = c.thr.len();
    let mut perm: Vec<usize> = (0..n).collect();
    let mut rng = Rng::new(c.rs ^ 0x7e57);
    for i in (1..n).rev() {
        perm.swap(i, rng.below(i as u64 + 1) as usize);
    }
    if state.threads.len() != n {
        return Err(format!("{} threads in the state, {n} in the dump", state.threads.len()));
    }
    let thr_in: Vec<String> = (0..n).map(|t| (tid(t) as u64 * 1000 + state.threads[t].frames.len() as u64).to_string()).collect();
    let thr_out: Vec<String> = v["threads"]
        .as_array()
        .ok_or("no threads")?
        .iter()
        .map(|t| (t["thread_id"].as_u64().unwrap_or(0) * 1000 + t["frame_count"].as_u64().unwrap_or(0)).to_string())
        .collect();
    // ---- registers of one recovered frame: the validity set in its REAL iteration order
    // (a thread whose context could not be read has no frame at all: nothing to show)
    let (fixed, valid_in, text_out): (Vec<String>, Vec<String>, Vec<String>) = if state.threads[0].frames.is_empty() {
        (vec![], vec![], vec![])
    } else {
        let f = 1.min(state.threads[0].frames.len().saturating_sub(1));
        let frame = &state.threads[0].frames[f];
        let fixed: Vec<String> = frame.context.general_purpose_registers().iter().map(|r| hex(r.as_bytes())).collect();
        let valid_in: Vec<String> = match &frame.context.valid {
            MinidumpContextValidity::All => frame.context.general_purpose_registers().iter().map(|r| hex(r.as_bytes())).collect(),
            MinidumpContextValidity::Some(set) => set.iter().map(|r| hex(r.as_bytes())).collect(),
        };
        let mut stack_text = vec![];
        state.threads[0].print(&mut stack_text).map_err(|e| e.to_string())?;
        let text_out: Vec<String> = text_register_names(&String::from_utf8_lossy(&stack_text), f).iter().map(|r| hex(r.as_bytes())).collect();
        (fixed, valid_in, text_out)
    };
    // ---- JSON registers: only the crashing thread's context frame has them; `json_registers`
    //      builds a HashSet of all register names for a fully valid context — its iteration order
    //      (here: that of an equally built set) is what must not matter
    let (jvalid_in, json_out): (Vec<String>, Vec<String>) = match state.requesting_thread {
        Some(rt) if !state.threads[rt].frames.is_empty() => {
            let ctx = &state.threads[rt].frames[0].context;
            let set: HashSet<&str> = match &ctx.valid {
                MinidumpContextValidity::All => ctx.general_purpose_registers().iter().cloned().collect(),
                MinidumpContextValidity::Some(s) => s.clone(),
            };
            (
                set.iter().map(|r| hex(r.as_bytes())).collect(),
                json_register_keys(&base.bytes[0]).ok_or("registers object not found")?.iter().map(|r| hex(r.as_bytes())).collect(),
            )
        }
        _ => (vec![], vec![]),
    };
    // ---- certificates: the table of the evil JSON (its iteration order inside `handle_evil` is not
    //      observable: an arbitrary one is handed to the model) and every module of the report,
    //      dual-signed ones included
    let certs_in: Vec<String> = {
        let mut v: Vec<(String, Vec<String>)> = evil_certs(c).into_iter().collect();
        let mut rng = Rng::new(c.rs ^ 0xce27);
        for i in (1..v.len()).rev() {
            v.swap(i, rng.below(i as u64 + 1) as usize);
        }
        v.iter().map(|(k, ms)| format!("{}={}", hex(k.as_bytes()), ms.iter().map(|m| hex(m.as_bytes())).collect::<Vec<_>>().join("+"))).collect()
    };
    let mut cshown_in = vec![];
    let mut cert_out = vec![];
    if c.evil > 0 {
        for (pos, m) in jm.iter().enumerate() {
            let leaf = leaf_of(&c.mods[order[pos]].0);
            cshown_in.push(hex(leaf.as_bytes()));
            cert_out.push(match m["cert_subject"].as_str() {
                Some(s) => hex(s.as_bytes()),
                None => "0".to_string(),
            });
        }
    }
    let request = format!(
        "det model lim:{} mods:{} done:{} thr:{}/{} fixed:{} valid:{} jvalid:{} certs:{} cshown:{}",
        list(lim_in),
        list(mods_in),
        list(done_in),
        if n == 0 { "-".to_string() } else { perm.iter().map(|x| x.to_string()).collect::<Vec<_>>().join(".") },
        list(thr_in),
        list(fixed),
        list(valid_in),
        list(jvalid_in),
        list(certs_in),
        list(cshown_in)
    );
    let out = format!(
        "lim:{} stats:{} thr:{} text:{} json:{} cert:{}",
        lim_out.join(","),
        stats_out.join(","),
        thr_out.join(","),
        text_out.join(","),
        json_out.join(","),
        cert_out.join(",")
    );
    Ok(Extract { request, out })
}

thread_local! {
    /// model request of the case `exec` ran last on this thread (built from what the run showed)
    static LAST: RefCell<Option<(String, String)>> = const { RefCell::new(None) };
}

// ------------------------------------------------------------------------- direct CFI walker

/// the nine `CpuContext` implementations, by the name `MdModel.Gen.Regs.Ctx` gives them
const CFI_CPUS: &[&str] = &["X86", "AMD64", "ARM", "ARM64_OLD", "ARM64", "PPC", "PPC64", "MIPS", "SPARC"];

/// `$f::<C>($args)` for the context type named `$cpu`
macro_rules! with_cpu {
    ($cpu:expr, $f:ident, $($args:expr),*) => {
        match $cpu {
            "X86" => Some($f::<md::CONTEXT_X86>($($args),*)),
            "AMD64" => Some($f::<md::CONTEXT_AMD64>($($args),*)),
            "ARM" => Some($f::<md::CONTEXT_ARM>($($args),*)),
            "ARM64_OLD" => Some($f::<md::CONTEXT_ARM64_OLD>($($args),*)),
            "ARM64" => Some($f::<md::CONTEXT_ARM64>($($args),*)),
            "PPC" => Some($f::<md::CONTEXT_PPC>($($args),*)),
            "PPC64" => Some($f::<md::CONTEXT_PPC64>($($args),*)),
            "MIPS" => Some($f::<md::CONTEXT_MIPS>($($args),*)),
            "SPARC" => Some($f::<md::CONTEXT_SPARC>($($args),*)),
            _ => None,
        }
    };
}

/// bounds of `impl FrameWalker for CfiStackWalker<C>` plus a way to make an all-zero context
trait TwinCtx: CpuContext + Sized {
    fn zero() -> Self;
    fn try_reg(v: u64) -> Option<Self::Register>;
    fn reg_u64(v: Self::Register) -> u64;
}
macro_rules! twin_ctx {
    ($($t:ty),*) => {$(
        impl TwinCtx for $t {
            fn zero() -> Self {
                use scroll::ctx::SizeWith;
                use scroll::Pread;
                let bytes = vec![0u8; <$t>::size_with(&scroll::LE)];
                bytes.pread_with::<$t>(0, scroll::LE).expect("zero context")
            }
            fn try_reg(v: u64) -> Option<Self::Register> {
                <Self as CpuContext>::Register::try_from(v).ok()
            }
            fn reg_u64(v: Self::Register) -> u64 {
                u64::from(v)
            }
        }
    )*};
}
twin_ctx!(md::CONTEXT_X86, md::CONTEXT_AMD64, md::CONTEXT_ARM, md::CONTEXT_ARM64_OLD, md::CONTEXT_ARM64, md::CONTEXT_PPC, md::CONTEXT_PPC64, md::CONTEXT_MIPS, md::CONTEXT_SPARC);

fn registers_of<C: TwinCtx>() -> &'static [&'static str] {
    C::REGISTERS
}
/// `REGISTERS` of the context type named `cpu`
fn cfi_registers(cpu: &str) -> Option<&'static [&'static str]> {
    with_cpu!(cpu, registers_of,)
}
fn memo_of<C: TwinCtx>(name: &str) -> Option<&'static str> {
    C::zero().memoize_register(name)
}
/// the real `memoize_register` of the context type named `cpu`
fn cfi_memoize(cpu: &str, name: &str) -> Option<&'static str> {
    with_cpu!(cpu, memo_of, name).flatten()
}
fn sp_of<C: TwinCtx>() -> &'static str {
    C::zero().stack_pointer_register_name()
}

/// spellings tried on every context type: every `REGISTERS` entry of every CPU, numbered names of
/// all families, the SPARC window names, a few foreign / misspelt names
fn label_universe() -> &'static Vec<String> {
    static U: OnceLock<Vec<String>> = OnceLock::new();
    U.get_or_init(|| {
        let mut u: BTreeSet<String> = BTreeSet::new();
        for cpu in CFI_CPUS {
            for r in cfi_registers(cpu).unwrap() {
                u.insert(r.to_string());
            }
        }
        for k in 0..33 {
            for p in ["r", "x", "g_r", "s", "w"] {
                u.insert(format!("{p}{k}"));
            }
        }
        for k in 0..9 {
            for p in ["g", "o", "l", "i"] {
                u.insert(format!("{p}{k}"));
            }
        }
        for x in ["fp", "sp", "lr", "pc", "ra", "gp", "ip", "bogus", "x07", "X19", "R11", "FP", "fp2", "f", "r011", "eflags", "cpsr", "efl", "ebp2"] {
            u.insert(x.to_string());
        }
        u.into_iter().collect()
    })
}

/// groups of >= 2 spellings of the universe that the real `memoize_register` of `cpu` sends to one
/// canonical name (found by probing the implementation, not read from a table)
fn alias_groups(cpu: &str) -> Vec<Vec<String>> {
    let mut g: BTreeMap<&'static str, Vec<String>> = BTreeMap::new();
    for l in label_universe() {
        if let Some(c) = cfi_memoize(cpu, l) {
            g.entry(c).or_default().push(l.clone());
        }
    }
    g.into_values().filter(|v| v.len() >= 2).collect()
}

/// twin of `CfiStackWalker<C>` (minidump-unwind/src/lib.rs:610-660) on the real context type
struct Twin<C: TwinCtx> {
    caller_ctx: C,
    caller_validity: HashSet<&'static str>,
    /// every name ever passed to set/clear, canonicalised (for the output)
    touched: BTreeSet<usize>,
}
impl<C: TwinCtx> Twin<C> {
    fn id(name: &str) -> Option<usize> {
        C::REGISTERS.iter().position(|n| *n == name)
    }
}
impl<C: TwinCtx> FrameWalker for Twin<C> {
    fn get_instruction(&self) -> u64 {
        0x1010
    }
    fn has_grand_callee(&self) -> bool {
        false
    }
    fn get_grand_callee_parameter_size(&self) -> u32 {
        0
    }
    fn get_register_at_address(&self, _address: u64) -> Option<u64> {
        None
    }
    fn get_callee_register(&self, name: &str) -> Option<u64> {
        if self.caller_ctx.memoize_register(name) == Some(self.caller_ctx.stack_pointer_register_name()) {
            Some(0x8000)
        } else {
            None
        }
    }
    fn set_caller_register(&mut self, name: &str, val: u64) -> Option<()> {
        let memoized = self.caller_ctx.memoize_register(name)?;
        if let Some(i) = Self::id(memoized) {
            self.touched.insert(i);
        }
        let val = C::try_reg(val)?;
        self.caller_validity.insert(memoized);
        self.caller_ctx.set_register(name, val)
    }
    fn clear_caller_register(&mut self, name: &str) {
        if let Some(memoized) = self.caller_ctx.memoize_register(name) {
            if let Some(i) = Self::id(memoized) {
                self.touched.insert(i);
            }
            self.caller_validity.remove(memoized);
        }
    }
    fn set_cfa(&mut self, _val: u64) -> Option<()> {
        Some(())
    }
    fn set_ra(&mut self, _val: u64) -> Option<()> {
        Some(())
    }
}

/// one direct call of `walk_with_stack_cfi`; `sh` chooses how the rule map is spread over the INIT
/// record and delta records (text order, `$` prefixes, shadowed earlier occurrences — with and
/// without `$`, in the same or an earlier record —, expression forms)
fn cfi_once_t<C: TwinCtx>(c: &CfiCase, sh: u64) -> (Result<Option<String>, String>, String, bool) {
    let mut rng = Rng::new(sh);
    let mut order: Vec<usize> = (0..c.rules.len()).collect();
    for i in (1..order.len()).rev() {
        order.swap(i, rng.below(i as u64 + 1) as usize);
    }
    let expr = |v: &Option<u64>, rng: &mut Rng| -> String {
        match v {
            None => (*rng.pick(&[".undef", "nosuchreg", "1 0 /", "+"])).to_string(),
            Some(v) => match rng.below(3) {
                0 if *v <= i64::MAX as u64 => v.to_string(),
                1 => format!("{} {} +", v / 2, v - v / 2),
                _ => format!(".cfa {} -", 0x9000u64.wrapping_sub(*v) as i64),
            },
        }
    };
    let other = |v: &Option<u64>| if v.is_some() { ".undef".to_string() } else { "12345".to_string() };
    let sp = sp_of::<C>();
    let mut init = format!(".cfa: {}{sp} 4096 + .ra: 8192", if rng.chance(1, 2) { "$" } else { "" });
    let nadd = rng.below(3) as usize;
    let mut adds: Vec<String> = vec![String::new(); nadd];
    for &i in &order {
        let (l, v) = &c.rules[i];
        let dollar = if rng.chance(1, 4) { "$" } else { "" };
        let slot = rng.below(nadd as u64 + 1) as usize;
        let e = expr(v, &mut rng);
        let target: &mut String = if slot == 0 { &mut init } else { &mut adds[slot - 1] };
        // shadowed occurrence EARLIER IN THE SAME record, spelt with the other `$` choice
        if rng.chance(1, 4) {
            let d2 = if dollar.is_empty() { "$" } else { "" };
            target.push_str(&format!(" {d2}{l}: {}", other(v)));
        }
        target.push_str(&format!(" {dollar}{l}: {e}"));
        if slot != 0 && rng.chance(1, 2) {
            // shadowed occurrence in INIT with another outcome
            let d3 = if rng.chance(1, 3) { "$" } else { "" };
            init.push_str(&format!(" {d3}{l}: {}", other(v)));
        }
    }
    let init_rules = CfiRules { address: 0x1000, rules: init };
    let additional: Vec<CfiRules> = adds
        .iter()
        .enumerate()
        .filter(|(_, a)| !a.is_empty())
        .map(|(k, a)| CfiRules { address: 0x1004 + 4 * k as u64, rules: a.trim().to_string() })
        .collect();
    let mut tw = Twin::<C> { caller_ctx: C::zero(), caller_validity: HashSet::new(), touched: BTreeSet::new() };
    for (r, v, valid) in &c.init {
        let name = C::REGISTERS[*r as usize];
        if let Some(x) = C::try_reg(*v) {
            tw.caller_ctx.set_register(name, x);
        }
        if *valid {
            tw.caller_validity.insert(name);
        } else {
            tw.caller_validity.remove(name);
        }
        tw.touched.insert(*r as usize);
    }
    let text = format!("INIT `{}` + {:?}", init_rules.rules, additional.iter().map(|a| a.rules.as_str()).collect::<Vec<_>>());
    let r = catch(|| walk_with_stack_cfi(&init_rules, &additional, &mut tw));
    let out = match r {
        Err(msg) => Err(msg),
        Ok(None) => Ok(None),
        Ok(Some(())) => {
            let mut shown = vec![];
            for (i, name) in C::REGISTERS.iter().enumerate() {
                let valid = tw.caller_validity.contains(name);
                if valid || tw.touched.contains(&i) {
                    shown.push(format!("{i}={}{}", C::reg_u64(tw.caller_ctx.get_register_always(name)), if valid { '+' } else { '-' }));
                }
            }
            Ok(Some(format!("regs:{}", shown.join(","))))
        }
    };
    (out, text, !additional.is_empty())
}

fn cfi_once(c: &CfiCase, sh: u64) -> (Result<Option<String>, String>, String, bool) {
    with_cpu!(c.cpu.as_str(), cfi_once_t, c, sh).expect("det cfi: unknown cpu")
}

fn exec_cfi(c: &CfiCase) -> ImplResult {
    let mut res = ImplResult::default();
    let (first, text, has_delta) = cfi_once(c, c.sh);
    match &first {
        Err(msg) => {
            res.out = "PANIC".into();
            res.oracle.push(("panic".into(), msg.clone()));
        }
        Ok(None) => {
            res.out = "none".into();
            res.oracle.push(("cfi-walk-failed".into(), format!("walk_with_stack_cfi returned None on {text}")));
        }
        Ok(Some(s)) => res.out = s.clone(),
    }
    // the property's oracle on the implementation alone: the same rule map gives the same caller
    // registers on every call (each call builds a fresh HashMap, i.e. a fresh hash seed) and for
    // every way of writing the same map down
    for k in 1..8u64 {
        let sh = if k < 5 { c.sh } else { c.sh.wrapping_mul(31).wrapping_add(k) };
        let (again, text2, _) = cfi_once(c, sh);
        if again != first {
            let class = if k < 5 { "cfi-registers-differ-across-runs" } else { "cfi-registers-differ-across-renderings" };
            res.oracle.push((
                class.into(),
                format!("{} call #{k}: {:?} but the first call gave {:?}; records: {text2} (first call: {text})", c.cpu, again, first),
            ));
            break;
        }
    }
    let additional_nonempty = has_delta;
    // distribution
    let mut targets: Vec<&'static str> = c.rules.iter().filter_map(|(l, _)| cfi_memoize(&c.cpu, l)).collect();
    let n = targets.len();
    targets.sort();
    targets.dedup();
    let aliased = targets.len() < n;
    res.nontrivial = c.rules.len() >= 2;
    res.tags.push("kind:cfi".into());
    res.tags.push(format!("cfi-cpu:{}", c.cpu));
    res.tags.push(format!("cfi-rules:{}", c.rules.len().min(8)));
    if aliased {
        res.tags.push("cfi-aliased-labels".into());
        res.tags.push(format!("cfi-aliased-labels:{}", c.cpu));
    }
    if c.rules.iter().any(|(_, v)| v.is_some_and(|v| v > u32::MAX as u64)) {
        res.tags.push("cfi-value-over-32-bits".into());
    }
    if additional_nonempty {
        res.tags.push("cfi-delta-records".into());
    }
    res
}

// ----------------------------------------------------------------------------------- exec (mix)

fn mix_run_case(cpu: &str, seed: u64) -> RunCase {
    RunCase {
        feat: (seed % 3) as u32,
        exc: true,
        lim_n: 3,
        lim_seed: seed,
        alias: 1,
        cpu: cpu.to_string(),
        mods: vec![("/app/bin/main".to_string(), Res::Ok), ("/usr/lib/libc.so.6".to_string(), Res::Nf)],
        cv: vec![None, None],
        thr: vec![vec![0, 1], vec![1, 0, 0]],
        sched: vec![vec![0, 1]],
        runs: 1,
        execs: "B".into(),
        rs: seed,
        evil: 0,
    }
}

fn print_one(state: &ProcessState, printer: u8) -> Vec<u8> {
    let mut out = vec![];
    let _ = match printer {
        0 => state.print_json(&mut out, false).map_err(|e| e.to_string()),
        1 => state.print_json(&mut out, true).map_err(|e| e.to_string()),
        2 => state.print(&mut out).map_err(|e| e.to_string()),
        _ => state.print_brief(&mut out).map_err(|e| e.to_string()),
    };
    out
}

/// number of characters of the crash address a report shows (10 = 32-bit, 18 = 64-bit formatting)
fn crash_addr_chars(report: &[u8], printer: u8) -> Option<usize> {
    let s = String::from_utf8_lossy(report);
    let key = if printer < 2 { "\"address\":" } else { "Crash address: " };
    let p = s.find(key)? + key.len();
    let rest = s[p..].trim_start().trim_start_matches('"');
    Some(rest.chars().take_while(|c| c.is_ascii_hexdigit() || *c == 'x').count())
}

fn exec_mix(c: &MixCase) -> ImplResult {
    let mut res = ImplResult::default();
    let mut states: Vec<Arc<ProcessState>> = vec![];
    for (k, cpu) in [&c.a, &c.b].iter().enumerate() {
        let rc = mix_run_case(cpu, c.rs.wrapping_add(k as u64));
        let bytes = build_dump(&rc);
        let text: Arc<Vec<String>> = Arc::new((0..rc.mods.len()).map(|i| symbol_text(&rc, i)).collect());
        // processed on a fresh thread, so that this worker's own print context stays out of it
        let o = std::thread::scope(|s| s.spawn(|| run_once(&bytes, &rc, &text, None, &rc.sched[0], 'B', rc.rs, true)).join())
            .unwrap_or_else(|_| RunOut { err: Some("panic".into()), ..Default::default() });
        match o.state {
            Some(st) => states.push(Arc::new(st)),
            None => {
                res.out = format!("ERR {:?}", o.err);
                res.oracle.push(("processing-failed".into(), format!("{cpu}: {:?}", o.err)));
                return res;
            }
        }
    }
    // base: every (state, printer) on its own fresh OS thread (empty thread-local context)
    let mut base: Vec<Vec<u8>> = vec![];
    for d in 0..8u8 {
        let st = states[(d / 4) as usize].clone();
        base.push(std::thread::spawn(move || print_one(&st, d % 4)).join().unwrap_or_default());
    }
    // S: the whole sequence on ONE fresh thread
    let seq = c.seq.clone();
    let sts = states.clone();
    let same: Vec<Vec<u8>> = std::thread::spawn(move || seq.iter().map(|d| print_one(&sts[(*d / 4) as usize], *d % 4)).collect())
        .join()
        .unwrap_or_default();
    let cpu_of = |d: u8| if d / 4 == 0 { &c.a } else { &c.b };
    for (i, d) in c.seq.iter().enumerate() {
        if same.get(i) != Some(&base[*d as usize]) {
            let prev: Vec<String> = c.seq[..i].iter().map(|p| format!("{}:{}", cpu_of(*p), WHICH[(*p % 4) as usize])).collect();
            res.oracle.push((
                "print-depends-on-thread-history".into(),
                format!(
                    "print #{i} ({} of the {} dump) on a thread that printed {:?} before differs from the same print on a fresh thread; {}",
                    WHICH[(*d % 4) as usize],
                    cpu_of(*d),
                    prev,
                    first_diff(&base[*d as usize], same.get(i).map(|v| v.as_slice()).unwrap_or(&[]))
                ),
            ));
            break;
        }
    }
    // T: one task per print on the multi-thread runtime (4 workers), three rounds; which worker a
    // task lands on — and what that worker printed before — is up to the scheduler
    let rt = tokio_rt();
    'rounds: for round in 0..3u64 {
        let outs: Vec<(u8, Vec<u8>)> = rt.block_on(async {
            let mut hs = vec![];
            for (i, d) in c.seq.iter().enumerate() {
                let st = states[(*d / 4) as usize].clone();
                let d = *d;
                let yields = (c.rs.wrapping_add(round * 7 + i as u64 * 3) % 4) as usize;
                hs.push(tokio::spawn(async move {
                    for _ in 0..yields {
                        tokio::task::yield_now().await;
                    }
                    (d, print_one(&st, d % 4))
                }));
            }
            let mut outs = vec![];
            for h in hs {
                outs.push(h.await.unwrap_or((0, vec![])));
            }
            outs
        });
        for (i, (d, o)) in outs.iter().enumerate() {
            if *o != base[*d as usize] {
                res.oracle.push((
                    "print-depends-on-runtime-worker".into(),
                    format!(
                        "round {round}, task #{i} ({} of the {} dump) on the multi-thread runtime differs from the same print on a fresh thread; {}",
                        WHICH[(*d % 4) as usize],
                        cpu_of(*d),
                        first_diff(&base[*d as usize], o)
                    ),
                ));
                break 'rounds;
            }
        }
    }
    // for the model: pointer width of every print of the same-thread sequence, and the number of
    // characters of the crash address it showed
    let width = |d: u8| match states[(d / 4) as usize].system_info.cpu.pointer_width() {
        minidump::system_info::PointerWidth::Bits32 => 32,
        minidump::system_info::PointerWidth::Bits64 => 64,
        _ => 0,
    };
    let widths: Vec<String> = c.seq.iter().map(|d| width(*d).to_string()).collect();
    let chars: Vec<String> = c
        .seq
        .iter()
        .enumerate()
        .map(|(i, d)| same.get(i).and_then(|o| crash_addr_chars(o, *d % 4)).map(|n| n.to_string()).unwrap_or("?".into()))
        .collect();
    res.out = format!("chars:{}", chars.join(","));
    LAST.with(|l| *l.borrow_mut() = Some((render_mix(c), format!("det ctx widths:{}", widths.join(",")))));
    let distinct_widths = width(0) != width(4);
    let alternations = c.seq.windows(2).filter(|w| w[0] / 4 != w[1] / 4).count();
    res.nontrivial = alternations >= 1;
    res.tags.push("kind:mix".into());
    res.tags.push(format!("mix-widths:{}", if distinct_widths { "32+64" } else { "same" }));
    res.tags.push(format!("mix-alternations:{}", alternations.min(8)));
    res
}

// ----------------------------------------------------------------------------------- exec (run)

fn exec_run(c: &RunCase) -> ImplResult {
    let mut res = ImplResult::default();
    let bytes = build_dump(c);
    let text: Arc<Vec<String>> = Arc::new((0..c.mods.len()).map(|i| symbol_text(c, i)).collect());
    let evil_file = if c.evil > 0 {
        let mut f = tempfile::NamedTempFile::new().expect("temp file");
        std::io::Write::write_all(&mut f, evil_text(c).as_bytes()).expect("write evil json");
        Some(f)
    } else {
        None
    };
    let evil: Option<&std::path::Path> = evil_file.as_ref().map(|f| f.path());
    let base = run_once(&bytes, c, &text, evil, &c.sched[0], 'B', c.rs, true);
    let mut n_runs = 1usize;
    // debugging aid for replays: VERIF_DET_DUMP=<dir> keeps the dump, the symbol files and the base reports
    if let Ok(dir) = std::env::var("VERIF_DET_DUMP") {
        let _ = std::fs::create_dir_all(&dir);
        let _ = std::fs::write(format!("{dir}/dump.dmp"), &bytes);
        for (i, t) in text.iter().enumerate() {
            let _ = std::fs::write(format!("{dir}/module{i}.sym"), t);
        }
        for (i, n) in ["report.json", "report.pretty.json", "report.txt", "report.brief.txt"].iter().enumerate() {
            let _ = std::fs::write(format!("{dir}/{n}"), &base.bytes[i]);
        }
    }
    if let Some(e) = &base.err {
        res.out = format!("ERR {e}");
        res.oracle.push(("processing-failed".into(), e.clone()));
        return res;
    }
    // repeated runs, same schedule, same executor: fresh hash seeds (odd runs on a fresh OS thread,
    // whose `RandomState` keys are drawn afresh)
    for r in 1..c.runs {
        // (every third repetition WITHOUT the pending-stats reporter: it must not change the reports)
        let rep = r % 3 != 2;
        let o = if r % 2 == 1 {
            std::thread::scope(|s| s.spawn(|| run_once_r(&bytes, c, &text, evil, &c.sched[0], 'B', c.rs, false, rep)).join())
                .unwrap_or_else(|_| RunOut { err: Some("panic".into()), ..Default::default() })
        } else {
            run_once_r(&bytes, c, &text, evil, &c.sched[0], 'B', c.rs, false, rep)
        };
        n_runs += 1;
        compare(c, &base, &o, "runs", &format!("run #{r} (executor B, base schedule)"), &mut res.oracle);
    }
    let mut orders: BTreeSet<Vec<usize>> = BTreeSet::new();
    orders.insert(base.done.clone());
    for (si, tab) in c.sched.iter().enumerate() {
        for x in c.execs.chars() {
            if si == 0 && x == 'B' {
                continue;
            }
            let o = run_once(&bytes, c, &text, evil, tab, x, c.rs.wrapping_add(si as u64 * 977), false);
            n_runs += 1;
            orders.insert(o.done.clone());
            // the schedule differs, or only the executor
            let kind = if si == 0 { "executors" } else if x == 'B' { "schedules" } else { "schedules" };
            let kind = if si != 0 && x != 'B' && c.sched[si] == c.sched[0] { "executors" } else { kind };
            compare(c, &base, &o, kind, &format!("executor {x}, schedule #{si} {:?}", tab), &mut res.oracle);
        }
    }
    // when already two runs of the SAME schedule and executor differ, differences under other
    // schedules / executors say nothing about schedules / executors
    for which in ["json-differs", "text-differs", "raw-dump-differs", "pending-stats-differ"] {
        if res.oracle.iter().any(|(cl, _)| *cl == format!("{which}-across-runs")) {
            res.oracle.retain(|(cl, _)| *cl != format!("{which}-across-schedules") && *cl != format!("{which}-across-executors"));
        }
    }
    // one report per class is enough
    let mut seen = BTreeSet::new();
    res.oracle.retain(|(cl, _)| seen.insert(cl.clone()));
    match extract(c, &base) {
        Ok(e) => {
            res.out = e.out;
            LAST.with(|l| *l.borrow_mut() = Some((render_run(c), e.request)));
        }
        Err(e) => {
            res.out = format!("EXTRACT-FAILED {e}");
            res.oracle.push(("extract-failed".into(), e));
        }
    }
    // distribution
    let state = base.state.as_ref().unwrap();
    let frames: usize = state.threads.iter().map(|t| t.frames.len()).sum();
    let cfi_frames = state.threads.iter().flat_map(|t| t.frames.iter()).filter(|f| f.trust == minidump_unwind::FrameTrust::CallFrameInfo).count();
    let shared = shared_leaf_modules(c);
    let shared_differ = shared.iter().any(|i| shared.iter().any(|j| leaf_of(&c.mods[*i].0) == leaf_of(&c.mods[*j].0) && c.mods[*i].1 != c.mods[*j].1));
    res.nontrivial = n_runs >= 4 && frames > c.thr.len() && orders.len() >= 1;
    res.tags.push("kind:run".into());
    res.tags.push(format!("runs-per-pair:{}", (n_runs / 4) * 4));
    res.tags.push(format!("threads:{}", if c.thr.len() > 30 { ">30".to_string() } else { ((c.thr.len() + 3) / 4 * 4).to_string() }));
    res.tags.push(format!("limits:{}", if c.lim_n == 0 { "none" } else if c.lim_n >= 8 { ">=8" } else { "<8" }));
    res.tags.push(format!("cfi-alias-flavour:{}", c.alias));
    res.tags.push(format!("run-cpu:{}", c.cpu));
    if cfi_frames > 0 {
        res.tags.push(format!("has-cfi-frames:{}", c.cpu));
    }
    res.tags.push(format!("distinct-completion-orders:{}", orders.len().min(6)));
    if cfi_frames > 0 {
        res.tags.push("has-cfi-frames".into());
    }
    if c.cv.iter().any(|g| g.is_some()) {
        res.tags.push("modules-sharing-debug-id".into());
    }
    if !shared.is_empty() {
        res.tags.push(if shared_differ { "same-leaf-different-outcome".into() } else { "same-leaf-same-outcome".into() });
    }
    for x in c.execs.chars() {
        res.tags.push(format!("exec:{x}"));
    }
    if c.exc {
        res.tags.push("exception-stream".into());
    }
    res.tags.push(format!("evil-json:{}", c.evil));
    res
}

// ------------------------------------------------------------------------------------ generator

const PATHS_PLAIN: &[&str] = &["/usr/lib/libc.so.6", "/usr/lib/libxul.so", "/app/bin/main", "/usr/lib/libm.so", "/opt/q/plugin.so", "/lib/ld-linux.so"];
const PATHS_SAME_LEAF: &[&str] = &["/opt/a/x.so", "/opt/b/x.so", "/opt/c/x.so", "C:\\win\\a\\y.dll", "/opt/d/y.dll"];

fn gen_run(rng: &mut Rng, i: u64, tier: Tier) -> RunCase {
    let quick = tier == Tier::Quick;
    // modules
    let mut mods: Vec<(String, Res)> = vec![];
    let same_leaf = i % 3 == 0;
    let nplain = rng.range(1, 4) as usize;
    let mut plain: Vec<&str> = PATHS_PLAIN.to_vec();
    for _ in 0..nplain {
        let p = plain.swap_remove(rng.below(plain.len() as u64) as usize);
        mods.push((p.to_string(), *rng.pick(&[Res::Ok, Res::Ok, Res::Ok, Res::Nf, Res::Pe])));
    }
    if same_leaf {
        let group: &[&str] = if rng.chance(2, 3) { &PATHS_SAME_LEAF[0..3] } else { &PATHS_SAME_LEAF[3..5] };
        let k = rng.range(2, group.len() as u64) as usize;
        // half of these: different outcomes (F16), half: the same outcome
        let differ = i % 6 == 0;
        let first = *rng.pick(&[Res::Ok, Res::Ok, Res::Nf, Res::Pe]);
        for (j, p) in group.iter().take(k).enumerate() {
            let r = if !differ {
                first
            } else if j == 0 {
                first
            } else {
                *rng.pick(&[Res::Ok, Res::Nf, Res::Pe].iter().filter(|r| **r != first).copied().collect::<Vec<_>>())
            };
            mods.push((p.to_string(), r));
        }
    }
    // a DLL and a renamed copy: same debug file / debug id / code id, different code files (and
    // unique leaf names), same symbols
    let cv_pair = i % 5 == 1;
    let mut groups: Vec<Option<u32>> = vec![None; mods.len()];
    if cv_pair {
        let r = *rng.pick(&[Res::Ok, Res::Ok, Res::Ok, Res::Nf, Res::Pe]);
        let g = rng.below(4) as u32;
        for p in ["/opt/app/app.dll", "/opt/app/backup/app_copy.dll"] {
            mods.push((p.to_string(), r));
            groups.push(Some(g));
        }
        if mods.len() < 4 {
            // two distinct gate modules are needed
            mods.insert(0, ("/usr/lib/libgate.so".to_string(), Res::Ok));
            groups.insert(0, None);
        }
    }
    // shuffle the module list
    for a in (1..mods.len()).rev() {
        let b = rng.below(a as u64 + 1) as usize;
        mods.swap(a, b);
        groups.swap(a, b);
    }
    let nm = mods.len();
    // threads: several walking through the same modules; sometimes > 30 (join_all switches to
    // FuturesOrdered above 30 futures)
    let nt = if i % 40 == 7 { rng.range(31, if quick { 36 } else { 48 }) } else { rng.range(2, 6) } as usize;
    let mut thr = vec![];
    for t in 0..nt {
        let depth = rng.range(2, 6) as usize;
        let mut chain: Vec<usize> = (0..depth).map(|_| rng.below(nm as u64) as usize).collect();
        // make sure every module is walked by some thread, same-leaf modules by DIFFERENT threads first
        if t < nm {
            chain[0] = t % nm;
        }
        thr.push(chain);
    }
    let mut gates: Vec<usize> = vec![];
    if cv_pair {
        // the two copies are first requested by two different threads, each after a lookup of
        // another ("gate") module; the gates are delayed differently per schedule
        let copies: Vec<usize> = (0..nm).filter(|m| groups[*m].is_some()).collect();
        let plain: Vec<usize> = (0..nm).filter(|m| groups[*m].is_none()).collect();
        gates = vec![plain[0], plain[1 % plain.len()]];
        for t in thr.iter_mut() {
            for m in t.iter_mut() {
                if groups[*m].is_some() {
                    *m = gates[0];
                }
            }
        }
        let extra = rng.range(0, 2) as usize;
        thr[0] = [vec![gates[0], copies[0]], (0..extra).map(|_| copies[0]).collect()].concat();
        thr[1] = [vec![gates[1], copies[1]], (0..extra).map(|_| gates[1]).collect()].concat();
    }
    // schedules
    let ns = if nt > 30 { 2 } else { rng.range(2, 4) as usize };
    let mut sched = vec![];
    for s in 0..ns {
        let tab: Vec<u32> = match s {
            0 => {
                let mut tab: Vec<u32> = (0..nm).map(|_| rng.below(3) as u32).collect();
                if cv_pair && gates[0] != gates[1] {
                    // (the second table is the mirror image 4 - d)
                    tab[gates[0]] = if rng.chance(1, 2) { 0 } else { 3 };
                    tab[gates[1]] = 3 - tab[gates[0]];
                    for m in 0..nm {
                        if groups[m].is_some() {
                            tab[m] = 2;
                        }
                    }
                }
                tab
            }
            // the reverse of the base order: who was fast is slow
            1 => {
                let base: &Vec<u32> = &sched[0];
                base.iter().map(|d| 4 - d.min(&4)).collect()
            }
            _ => (0..nm).map(|_| rng.below(6) as u32).collect(),
        };
        sched.push(tab);
    }
    let execs = match i % 8 {
        0 => "BRT",
        1 | 2 | 3 => "BR",
        4 => "BT",
        _ => "B",
    };
    RunCase {
        feat: (i % 3) as u32,
        exc: i % 4 == 1,
        lim_n: if i % 10 == 9 { 0 } else { rng.range(8, 18) as u32 },
        lim_seed: rng.below(1 << 32),
        cv: groups,
        alias: if i % 8 == 7 {
            4
        } else if i % 4 == 3 {
            0
        } else {
            *rng.pick(&[1u32, 1, 2, 3, 3, 5, 5])
        },
        cpu: if i % 8 == 7 {
            "amd64".to_string()
        } else {
            // the CPUs whose unwinders evaluate STACK CFI get most cases; the ones with alias arms most of those
            let rare = *rng.pick(&["ppc", "ppc64", "sparc", "mips64"]);
            (*rng.pick(&["arm64", "arm64", "arm64", "arm", "arm", "arm", "arm", "x86", "x86", "mips", "arm64old", "amd64", rare])).to_string()
        },
        mods,
        thr,
        sched,
        runs: if nt > 30 { 3 } else { 5 },
        execs: execs.to_string(),
        rs: rng.below(1 << 32),
        evil: match i % 7 {
            2 => 1,
            5 => 2,
            _ => 0,
        },
    }
}

/// labels the real `memoize_register` of `cpu` knows (canonical names and aliases)
fn known_labels(cpu: &str) -> Vec<String> {
    label_universe().iter().filter(|l| cfi_memoize(cpu, l).is_some()).cloned().collect()
}

fn cfi_value(rng: &mut Rng) -> Option<u64> {
    match rng.below(16) {
        0..=3 => None,
        // does not fit a 32-bit register: the rule counts as failed there (F25)
        4 => Some((1u64 << 32) + rng.below(0x1000)),
        5 => Some(*rng.pick(&[0u64, 1, 0xffff_ffff, 0x1_0000_0000, 0xffff_ffff_ffff, 1 << 40])),
        _ => Some(rng.below(0x8000)),
    }
}

fn gen_cfi(rng: &mut Rng) -> CfiCase {
    // the CPUs with alias arms get half of the cases
    let cpu = if rng.chance(1, 2) { *rng.pick(&["ARM", "ARM", "ARM64", "ARM64_OLD", "SPARC"]) } else { *rng.pick(CFI_CPUS) };
    let n = rng.range(0, 8) as usize;
    let mut labels: Vec<String> = if rng.chance(3, 4) { known_labels(cpu) } else { label_universe().clone() };
    let mut rules: Vec<(String, Option<u64>)> = vec![];
    // whole alias groups in a fixed fraction
    let groups = alias_groups(cpu);
    if !groups.is_empty() && rng.chance(2, 3) {
        for _ in 0..rng.range(1, 3) {
            let g = rng.pick(&groups).clone();
            for l in g {
                if rules.iter().all(|(x, _)| *x != l) {
                    labels.retain(|x| *x != l);
                    rules.push((l, cfi_value(rng)));
                }
            }
        }
    }
    for _ in 0..n {
        if labels.is_empty() {
            break;
        }
        let l = labels.swap_remove(rng.below(labels.len() as u64) as usize);
        rules.push((l, cfi_value(rng)));
    }
    for a in (1..rules.len()).rev() {
        let b = rng.below(a as u64 + 1) as usize;
        rules.swap(a, b);
    }
    let nregs = cfi_registers(cpu).unwrap().len() as u32;
    let mut init = vec![];
    let mut regs: Vec<u32> = (0..nregs).collect();
    for _ in 0..rng.below(5) {
        if regs.is_empty() {
            break;
        }
        let r = regs.swap_remove(rng.below(regs.len() as u64) as usize);
        init.push((r, rng.below(1000), rng.chance(3, 4)));
    }
    init.sort();
    CfiCase { cpu: cpu.to_string(), init, rules, sh: rng.below(1 << 32) }
}

/// exhaustive part: for every CPU and every two of its alias groups (two spellings each), every rule
/// map over the four labels with outcome {absent, 5, 6, evaluation fails} each
fn exhaustive_cfi(emit: &mut dyn FnMut(String)) {
    for cpu in CFI_CPUS {
        let groups = alias_groups(cpu);
        let nregs = cfi_registers(cpu).unwrap().len() as u32;
        let id = |l: &str| cfi_registers(cpu).unwrap().iter().position(|r| Some(*r) == cfi_memoize(cpu, l)).unwrap() as u32;
        let mut combos: Vec<(usize, usize)> = vec![];
        if groups.len() <= 4 {
            for a in 0..groups.len() {
                for b in a + 1..groups.len() {
                    combos.push((a, b));
                }
            }
        } else {
            // SPARC: 32 window names; neighbouring groups
            for a in (0..groups.len() - 1).step_by(2) {
                combos.push((a, a + 1));
            }
        }
        for (ci, (a, b)) in combos.iter().enumerate() {
            let four = [groups[*a][0].clone(), groups[*a][1].clone(), groups[*b][0].clone(), groups[*b][1].clone()];
            let (ra, rb) = (id(&four[0]), id(&four[2]));
            let inits: Vec<Vec<(u32, u64, bool)>> = if groups.len() <= 4 {
                vec![vec![], vec![(ra, 7, true)], vec![(ra.min(rb), 7, false), (ra.max(rb), 9, true)]]
            } else {
                vec![vec![(ra.min(rb), 7, false), (ra.max(rb), 9, true)]]
            };
            debug_assert!(ra < nregs && rb < nregs);
            for code in 0..256u32 {
                for init in &inits {
                    let mut rules = vec![];
                    for (k, l) in four.iter().enumerate() {
                        match (code >> (2 * k)) & 3 {
                            0 => {}
                            1 => rules.push((l.to_string(), Some(5))),
                            2 => rules.push((l.to_string(), Some(6))),
                            _ => rules.push((l.to_string(), None)),
                        }
                    }
                    emit(render_cfi(&CfiCase { cpu: cpu.to_string(), init: init.clone(), rules, sh: (code as u64) * 131 + ci as u64 }));
                }
            }
        }
    }
}

impl Engine for Det {
    fn name(&self) -> &'static str {
        "det"
    }
    fn rule(&self) -> String {
        "kind run: a generated Linux (dump, symbols) pair for one of ten CPU flavours (arm64, amd64, arm, x86, mips, arm64old CFI-walked; ppc, ppc64, sparc, mips64 context-only) (minidump-synth: 2-8 modules incl. same-leaf paths in 1/3 of the pairs — half of them with different symbol outcomes —, 2-6 threads (31+ in 1/40) walking 2-6 frames through the shared modules by STACK CFI records that name every alias pair of the CPU under both spellings / $-prefixed duplicates / .undef / overriding delta records in 3/4, a /proc/limits stream with 8-18 limits in 9/10, Crashpad annotations, memory maps, optional exception stream, three option sets) processed runs x schedules x executors times in-process (fresh Symbolizer and hash seeds each, with and without a pending-stats reporter; executors B poll-to-completion, R randomised releases + spurious polls, T multi-thread tokio with suspensions in spawned tasks); the four report byte strings, the reporter summary and the raw stream dump of every run are compared with the base run; the model request is built from the REAL iteration orders / completion order of the base run. kind cfi: walk_with_stack_cfi called directly on generated rule maps (0-12 labels from a ~400-name universe incl. every alias group found by probing memoize_register, unknown names, failing rules, values over 32 bits, shadowed and $-prefixed duplicates in INIT and delta records) with a generic twin of CfiStackWalker on each of the nine real context types. kind mix: two dumps (different pointer widths in 9/10) printed alternately on one thread and as tasks of the 4-worker runtime vs fresh-thread prints. non-trivial = (run) >= 4 runs compared and some thread was unwound beyond its context frame, (cfi) >= 2 rules, (mix) the sequence alternates between the two dumps; distinct = distinct case line".into()
    }

    fn exhaustive_part(&self) -> Option<String> {
        Some("kind cfi: for every one of the nine CPU context types and every two of its alias groups (ARM: r11/fp r13/sp r14/lr r15/pc; ARM64, ARM64_OLD: x29/fp x30/lr; SPARC: neighbouring window-name pairs), all 256 rule maps over the four labels with outcome {absent, 5, 6, evaluation fails} each, x 3 initial caller states (SPARC: 1), each map called 8 times (fresh HashMap, 3 renderings) and compared with walkRest (cpu c)".into())
    }

    fn generate(&self, tier: Tier, rng: &mut Rng, emit: &mut dyn FnMut(String)) {
        let quick = tier == Tier::Quick;
        let n_run = if quick { 2400 } else { 40_000 };
        let n_cfi = if quick { 20_000 } else { 400_000 };
        for i in 0..n_run {
            emit(render_run(&gen_run(rng, i, tier)));
        }
        exhaustive_cfi(emit);
        for _ in 0..n_cfi {
            emit(render_cfi(&gen_cfi(rng)));
        }
        // different dumps printed alternately on one thread and on the multi-thread runtime
        let n_mix = if quick { 150 } else { 3000 };
        for i in 0..n_mix {
            let (a, b) = match i % 5 {
                // different pointer widths in 4/5
                0 => ("amd64", "x86"),
                1 => ("arm", "arm64"),
                2 => (*rng.pick(&["x86", "arm", "mips", "ppc", "sparc"]), *rng.pick(&["amd64", "arm64", "arm64old", "ppc64"])),
                3 => (*rng.pick(&["amd64", "arm64", "ppc64", "mips64"]), *rng.pick(&["x86", "arm", "mips", "sparc"])),
                _ => (*rng.pick(RUN_CPUS), *rng.pick(RUN_CPUS)),
            };
            let n = rng.range(2, 12) as usize;
            let mut seq: Vec<u8> = (0..n).map(|_| rng.below(8) as u8).collect();
            // make sure both states occur
            seq[0] = rng.below(4) as u8;
            seq[1] = 4 + rng.below(4) as u8;
            emit(render_mix(&MixCase { a: a.to_string(), b: b.to_string(), seq, rs: rng.below(1 << 32) }));
        }
        // the repository's own dumps and symbols (x86 Windows with STACK WIN, Linux, macOS with inlines)
        let n_file = if quick { 60 } else { 1500 };
        for i in 0..n_file {
            emit(render_file(&FileCase {
                name: FILE_DUMPS[i % FILE_DUMPS.len()].to_string(),
                feat: ((i / FILE_DUMPS.len()) % 3) as u32,
                k: rng.range(0, 5) as u32,
                runs: 4,
                execs: match i % 4 {
                    0 => "BRT",
                    1 => "BR",
                    2 => "BT",
                    _ => "B",
                }
                .to_string(),
                rs: rng.below(1 << 32),
            }));
        }
    }

    fn exec(&self, case: &str) -> ImplResult {
        LAST.with(|l| *l.borrow_mut() = None);
        match parse_case(case) {
            None => ImplResult { out: "bad-op".into(), ..Default::default() },
            Some(Case::Cfi(c)) => exec_cfi(&c),
            Some(Case::Mix(c)) => match catch(|| exec_mix(&c)) {
                Ok(r) => r,
                Err(msg) => ImplResult {
                    out: "PANIC".into(),
                    oracle: vec![("panic".into(), msg)],
                    ..Default::default()
                },
            },
            Some(Case::File(c)) => match catch(|| exec_file(&c)) {
                Ok(r) => r,
                Err(msg) => ImplResult {
                    out: "PANIC".into(),
                    oracle: vec![("panic".into(), msg)],
                    ..Default::default()
                },
            },
            Some(Case::Run(c)) => match catch(|| exec_run(&c)) {
                Ok(r) => r,
                Err(msg) => ImplResult {
                    out: "PANIC".into(),
                    oracle: vec![("panic".into(), msg)],
                    ..Default::default()
                },
            },
        }
    }

    fn model_request(&self, case: &str) -> Option<String> {
        match parse_case(case) {
            None => Some(case.to_string()),
            // oracle only: no model of whole real-world dumps
            Some(Case::File(_)) => None,
            Some(Case::Cfi(c)) => {
                // the model gets the rule MAP (labels and outcomes); how the rules were spread over
                // records is the engine's business
                let r = render_cfi(&c);
                Some(r.rsplit_once(" sh:").map(|(a, _)| a.to_string()).unwrap_or(r))
            }
            Some(Case::Mix(c)) => {
                let key = render_mix(&c);
                LAST.with(|l| match &*l.borrow() {
                    Some((k, req)) if *k == key => Some(req.clone()),
                    _ => None,
                })
            }
            Some(Case::Run(c)) => {
                let key = render_run(&c);
                LAST.with(|l| match &*l.borrow() {
                    Some((k, req)) if *k == key => Some(req.clone()),
                    _ => None,
                })
            }
        }
    }

    fn shrink(&self, case: &str, still_fails: &dyn Fn(&str) -> bool) -> String {
        match parse_case(case) {
            Some(Case::Run(c)) => shrink_run(c, still_fails),
            Some(Case::Cfi(c)) => shrink_cfi(c, still_fails),
            Some(Case::Mix(mut c)) => {
                // shorter sequences (a flaky, scheduler-dependent failure gets several chances)
                let mut i = 0;
                while c.seq.len() > 1 && i < c.seq.len() {
                    let mut d = c.clone();
                    d.seq.remove(i);
                    let s = render_mix(&d);
                    if (0..3).any(|_| still_fails(&s)) {
                        c = d;
                    } else {
                        i += 1;
                    }
                }
                render_mix(&c)
            }
            Some(Case::File(mut c)) => {
                for x in ['T', 'R'] {
                    if c.execs.contains(x) {
                        let mut d = c.clone();
                        d.execs = d.execs.replace(x, "");
                        if d.execs.is_empty() {
                            d.execs = "B".into();
                        }
                        let s = render_file(&d);
                        if (0..3).any(|_| still_fails(&s)) {
                            c = d;
                        }
                    }
                }
                render_file(&c)
            }
            None => case.to_string(),
        }
    }
}

fn shrink_cfi(mut c: CfiCase, still_fails: &dyn Fn(&str) -> bool) -> String {
    let mut progress = true;
    while progress {
        progress = false;
        let mut i = 0;
        while i < c.rules.len() {
            let mut d = c.clone();
            d.rules.remove(i);
            if still_fails(&render_cfi(&d)) {
                c = d;
                progress = true;
            } else {
                i += 1;
            }
        }
        let mut i = 0;
        while i < c.init.len() {
            let mut d = c.clone();
            d.init.remove(i);
            if still_fails(&render_cfi(&d)) {
                c = d;
                progress = true;
            } else {
                i += 1;
            }
        }
    }
    render_cfi(&c)
}

fn shrink_run(mut c: RunCase, still_fails: &dyn Fn(&str) -> bool) -> String {
    // a flaky (hash-seed dependent) failure must be given several chances
    let fails = |c: &RunCase| -> bool {
        let s = render_run(c);
        (0..3).any(|_| still_fails(&s))
    };
    let mut progress = true;
    let mut rounds = 0;
    while progress && rounds < 6 {
        progress = false;
        rounds += 1;
        // fewer executors
        for x in ['T', 'R'] {
            if c.execs.contains(x) {
                let mut d = c.clone();
                d.execs = d.execs.replace(x, "");
                if d.execs.is_empty() {
                    d.execs = "B".into();
                }
                if fails(&d) {
                    c = d;
                    progress = true;
                }
            }
        }
        // fewer schedules (keep the base)
        let mut i = 1;
        while i < c.sched.len() {
            let mut d = c.clone();
            d.sched.remove(i);
            if fails(&d) {
                c = d;
                progress = true;
            } else {
                i += 1;
            }
        }
        // fewer threads
        let mut i = 0;
        while c.thr.len() > 1 && i < c.thr.len() {
            let mut d = c.clone();
            d.thr.remove(i);
            if fails(&d) {
                c = d;
                progress = true;
            } else {
                i += 1;
            }
        }
        // shorter chains
        for t in 0..c.thr.len() {
            while c.thr[t].len() > 1 {
                let mut d = c.clone();
                d.thr[t].pop();
                if fails(&d) {
                    c = d;
                    progress = true;
                } else {
                    break;
                }
            }
        }
        // drop modules no chain mentions
        let mut m = 0;
        while c.mods.len() > 1 && m < c.mods.len() {
            if c.thr.iter().flatten().any(|x| *x == m) {
                m += 1;
                continue;
            }
            let mut d = c.clone();
            d.mods.remove(m);
            d.cv.remove(m);
            for t in d.thr.iter_mut() {
                for x in t.iter_mut() {
                    if *x > m {
                        *x -= 1;
                    }
                }
            }
            for s in d.sched.iter_mut() {
                s.remove(m);
            }
            if fails(&d) {
                c = d;
                progress = true;
            } else {
                m += 1;
            }
        }
        // simpler knobs
        for (f, v) in [("exc", 0u32), ("feat", 0), ("alias", 0), ("lim", 0), ("lim", 2), ("lim", 8)] {
            let mut d = c.clone();
            match f {
                "exc" => d.exc = false,
                "feat" => d.feat = v,
                "alias" => d.alias = v,
                _ => d.lim_n = v,
            }
            if render_run(&d) != render_run(&c) && (f != "lim" || v < c.lim_n) && fails(&d) {
                c = d;
                progress = true;
            }
        }
        // smaller delays
        for s in 0..c.sched.len() {
            for m in 0..c.sched[s].len() {
                while c.sched[s][m] > 0 {
                    let mut d = c.clone();
                    d.sched[s][m] -= 1;
                    if fails(&d) {
                        c = d;
                        progress = true;
                    } else {
                        break;
                    }
                }
            }
        }
    }
    render_run(&c)
}
